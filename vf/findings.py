"""KNOWN_FINDINGS.txt parser.  The file is committed and never written at run time.

Lines:
    known: property=C12 key=<mechanism-key> <what fails>
    fixed: property=C15 <commit> <what failed>
``fixed:`` entries suppress nothing.
"""

import os
import re

from .common import VERIF

PATH = os.path.join(VERIF, "KNOWN_FINDINGS.txt")


def load(path=PATH):
    known = {}
    fixed = []
    if not os.path.exists(path):
        return known, fixed
    for line in open(path):
        line = line.strip()
        if not line or line.startswith("#"):
            continue
        m = re.match(r"known:\s+property=(\S+)\s+key=(\S+)\s*(.*)$", line)
        if m:
            known[(m.group(1), m.group(2))] = m.group(3)
            continue
        m = re.match(r"fixed:\s+property=(\S+)\s+(\S+)\s*(.*)$", line)
        if m:
            fixed.append((m.group(1), m.group(2), m.group(3)))
    return known, fixed
