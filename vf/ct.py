"""Helpers that touch cotengra: building trees from generated paths, option tuples, the
step recorder (E4)."""

import warnings

import numpy as np

import cotengra as ctg
from cotengra.core import ContractionTree

from . import ref

warnings.filterwarnings("ignore")


def make_tree(net, ssa, **kw):
    return ContractionTree.from_path(
        net.inputs, net.output, net.size_dict, ssa_path=[tuple(p) for p in ssa], **kw
    )


def children_of(tree):
    return {frozenset(p): (frozenset(l), frozenset(r)) for p, (l, r) in tree.children.items()}


def removed_of(tree):
    """-> (list of (ix, project), nslices_of map)"""
    rem = []
    ns = {}
    for ix, si in tree.sliced_inds.items():
        rem.append((ix, si.project))
        ns[ix] = 1 if si.project is not None else tree.size_dict[ix]
    return rem, ns


def costs_of(tree):
    rem, ns = removed_of(tree)
    return ref.Costs(
        tree.inputs,
        tree.output,
        tree.size_dict,
        children_of(tree),
        removed=[ix for ix, _ in rem],
        nslices_of=ns,
    )


def traversal(tree, order=None):
    return [(frozenset(p), frozenset(l), frozenset(r)) for p, l, r in tree.traverse(order)]


# ----------------------------- contraction options ------------------------- #

ORDERS = ("none", "dfs", "rand", "size", "const", "len")


def make_order(name, tree, rng):
    if name == "none":
        return None
    if name == "dfs":
        return "dfs"
    if name == "rand":
        memo = {}
        seed = rng.getrandbits(32)

        def order(node):
            k = tuple(sorted(node))
            if k not in memo:
                import random

                memo[k] = random.Random(hash((seed, k))).random()
            return memo[k]

        return order
    if name == "size":
        return lambda node: tree.get_size(node)
    if name == "const":
        return lambda node: 0
    if name == "len":
        return lambda node: -len(node)
    raise ValueError(name)


IMPLS = ("default", "cotengra", "autoray", "recorder", "ctx:cotengra", "ctx:autoray")
ROUTES = ("contract", "contract", "contract_core", "get_contractor", "get_contractor_call_opts", "make_contractor")

SORTS = (
    None,
    ("flops", True, True),
    ("size", True, False),
    ("root", False, True),
    ("leaves", True, True),
    ("flops", False, False),
)


def random_opts(rng):
    return {
        "order": rng.choice(ORDERS),
        "prefer_einsum": rng.random() < 0.35,
        "impl": rng.choice(IMPLS),
        "sort": rng.choice(SORTS),
        # how the compiled programme is reached, and the (value-neutral) progress bar
        "route": rng.choice(ROUTES),
        "progbar": rng.random() < 0.15,
    }


class Recorder:
    """An (einsum, tensordot) pair that forwards to numpy and logs every call."""

    def __init__(self, keep_arrays=True):
        self.calls = []
        self.keep = keep_arrays

    def einsum(self, eq, *arrays):
        if not isinstance(eq, str):
            raise TypeError(f"recorder.einsum got a non-string equation: {eq!r}")
        out = np.einsum(eq, *arrays)
        self.calls.append(
            ("einsum", eq, tuple(np.shape(a) for a in arrays), np.shape(out), out if self.keep else None)
        )
        return out

    def tensordot(self, a, b, axes=2):
        if isinstance(a, str):
            raise TypeError("recorder.tensordot got an equation")
        out = np.tensordot(a, b, axes)
        self.calls.append(
            ("tensordot", axes, (np.shape(a), np.shape(b)), np.shape(out), out if self.keep else None)
        )
        return out

    def pair(self):
        # the order the code unpacks: _einsum, _tensordot = implementation
        return (self.einsum, self.tensordot)


def contract_with(tree, arrays, opts, rng, recorder=None):
    """tree.contract under an option dict from ``random_opts``."""
    kw = {}
    order = make_order(opts.get("order", "none"), tree, rng)
    if order is not None:
        kw["order"] = order
    if opts.get("prefer_einsum"):
        kw["prefer_einsum"] = True
    impl = opts.get("impl", "default")
    if impl == "cotengra":
        kw["implementation"] = "cotengra"
    elif impl == "autoray":
        kw["implementation"] = "autoray"
    elif impl == "recorder":
        recorder = recorder or Recorder(keep_arrays=False)
        kw["implementation"] = recorder.pair()
    if opts.get("progbar"):
        kw["progbar"] = True
    route = opts.get("route", "contract")
    if tree.sliced_inds and route != "contract":
        route = "contract"  # the other entry points contract ONE slice; slicing belongs to C06
    import contextlib
    import io

    ctx = contextlib.nullcontext()
    if isinstance(impl, str) and impl.startswith("ctx:"):
        # the implementation chosen through the process-wide default instead of the argument
        from cotengra.contract import default_implementation

        ctx = default_implementation(impl[4:])
    with ctx, contextlib.redirect_stderr(io.StringIO()) if kw.get("progbar") else contextlib.nullcontext():
        if route == "contract":
            return tree.contract(arrays, **kw)
        if route == "contract_core":
            return tree.contract_core(arrays, **kw)
        if route == "get_contractor":
            return tree.get_contractor(**kw)(*arrays)
        if route == "get_contractor_call_opts":
            # options given at call time override the compiled defaults
            call_kw = {k: kw.pop(k) for k in ("progbar", "implementation") if k in kw}
            return tree.get_contractor(**kw)(*arrays, **call_kw)
        if route == "make_contractor":
            from cotengra.contract import make_contractor

            return make_contractor(tree, **kw)(*arrays)
    raise ValueError(route)


def apply_sort(tree, sort):
    if sort is None:
        return
    prio, oc, cc = sort
    tree.sort_contraction_indices(priority=prio, make_output_contig=oc, make_contracted_contig=cc)
