"""Run the repository's own test-suite under the TreeSanitizer:

    cd /repo && PYTHONPATH=/repo:/verif /venv/bin/python -m pytest -p vf.pytest_plugin tests/test_tree.py ...

Every public mutator / query of ContractionTree is wrapped with a depth counter; when the
OUTERMOST wrapped call returns (a quiescent point - transient mid-update states are legitimate and
never inspected) the invariants I1-I4 are checked on the tree.  Problems are appended to
$VF_SANITIZER_LOG (json lines) and summarised at the end of the session; they never change the
outcome of a test.
"""

import functools
import json
import os
import threading

_state = threading.local()
_counts = {"checks": 0, "problems": 0, "trees_incomplete_skipped": 0, "errors": 0}
LOG = os.environ.get("VF_SANITIZER_LOG", "/var/tmp/vf_sanitizer.jsonl")

WRAPPED = (
    "subtree_reconfigure", "subtree_reconfigure_forest", "simulated_anneal", "parallel_temper", "remove_ind", "restore_ind",
    "unslice_rand", "unslice_all", "slice", "slice_and_reconfigure", "slice_and_reconfigure_forest", "sort_contraction_indices",
    "reset_contraction_indices", "contract", "contract_stats", "copy", "total_flops", "max_size", "total_write", "peak_size", "get_path", "print_contractions",
)


def _install():
    from cotengra.core import ContractionTree

    from . import sanitizer

    def wrap(name):
        orig = ContractionTree.__dict__.get(name)
        if orig is None or getattr(orig, "_vf", False):
            return

        @functools.wraps(orig)
        def wrapper(self, *a, **k):
            depth = getattr(_state, "depth", 0)
            _state.depth = depth + 1
            try:
                res = orig(self, *a, **k)
            finally:
                _state.depth = depth
            if depth == 0 and type(self) is ContractionTree:
                for t in {id(self): self, **({id(res): res} if isinstance(res, ContractionTree) and type(res) is ContractionTree else {})}.values():
                    _check(t, name, sanitizer)
            return res

        wrapper._vf = True
        setattr(ContractionTree, name, wrapper)
        # the in-place variants are partialmethods bound to the ORIGINAL function object: rebind them,
        # otherwise their internals would run at depth 0 and mid-update states would be inspected
        pm = ContractionTree.__dict__.get(name + "_")
        if isinstance(pm, functools.partialmethod):
            setattr(ContractionTree, name + "_", functools.partialmethod(wrapper, *pm.args, **pm.keywords))

    for n in WRAPPED:
        wrap(n)


def _check(tree, where, sanitizer):
    try:
        if tree.N < 2 or len(tree.children) != tree.N - 1:
            _counts["trees_incomplete_skipped"] += 1
            return
        if isinstance(tree.inputs[0], (set, frozenset)) or not all(isinstance(ix, str) and len(ix) == 1 for t in tree.inputs for ix in t):
            want = ("I1", "I2", "I3")
        else:
            want = ("I1", "I2", "I3", "I4")
        probs = sanitizer.check_tree(tree, want=want)
        _counts["checks"] += 1
        if probs:
            _counts["problems"] += 1
            with open(LOG, "a") as f:
                f.write(json.dumps({"after": where, "test": os.environ.get("PYTEST_CURRENT_TEST", "?"), "problems": probs[:3], "eq": tree.get_eq() if tree.N < 15 else f"{tree.N} tensors"}) + "\n")
    except Exception as e:  # the monitor must never break a test
        _counts["errors"] += 1
        with open(LOG, "a") as f:
            f.write(json.dumps({"after": where, "monitor_error": repr(e)[:300], "test": os.environ.get("PYTEST_CURRENT_TEST", "?")}) + "\n")


def pytest_configure(config):
    _install()


def pytest_terminal_summary(terminalreporter):
    terminalreporter.write_line(f"VF_SANITIZER checks={_counts['checks']} problems={_counts['problems']} skipped_incomplete={_counts['trees_incomplete_skipped']} monitor_errors={_counts['errors']} log={LOG}")
