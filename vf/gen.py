"""Seeded, class-tagged generators of networks, trees, arrays.  No cotengra imports."""

import itertools
import math

import numpy as np

from . import ref


def symbol(i):
    if i < 26:
        return chr(ord("a") + i)
    if i < 52:
        return chr(ord("A") + i - 26)
    return chr(192 + i - 52)


class Net:
    def __init__(self, inputs, output, size_dict, cls="?"):
        self.inputs = tuple(tuple(t) for t in inputs)
        self.output = tuple(output)
        self.size_dict = dict(size_dict)
        self.cls = cls

    @property
    def N(self):
        return len(self.inputs)

    def key(self):
        return (self.inputs, self.output, tuple(sorted(self.size_dict.items())))

    def space(self):
        p = 1
        for ix in ref.index_order(self.inputs, self.output):
            p *= int(self.size_dict[ix])
        return p

    def eq(self):
        return ",".join("".join(t) for t in self.inputs) + "->" + "".join(self.output)

    def describe(self):
        return {
            "eq": self.eq(),
            "sizes": {k: self.size_dict[k] for k in sorted(self.size_dict)},
            "cls": self.cls,
        }

    def to_json(self):
        return {
            "inputs": [list(t) for t in self.inputs],
            "output": list(self.output),
            "size_dict": dict(self.size_dict),
            "cls": self.cls,
        }

    @classmethod
    def from_json(cls, d):
        return cls(d["inputs"], d["output"], d["size_dict"], d.get("cls", "?"))

    def has_hyper(self):
        app = {}
        for t in self.inputs:
            for ix in t:
                app[ix] = app.get(ix, 0) + 1
        for ix in self.output:
            app[ix] = app.get(ix, 0) + 1
        return any(c != 2 for c in app.values())

    def has_repeat(self):
        return any(len(set(t)) != len(t) for t in self.inputs)

    def shapes(self):
        return [tuple(self.size_dict[ix] for ix in t) for t in self.inputs]

    def arrays(self, rng, kind="float"):
        """kind: float | complex | int (small integer valued floats, exact arithmetic)"""
        nprng = np.random.default_rng(rng.getrandbits(64))
        out = []
        for shp in self.shapes():
            if kind == "int":
                a = nprng.integers(-3, 4, size=shp).astype(np.float64)
            elif kind == "complex":
                a = nprng.normal(size=shp) + 1j * nprng.normal(size=shp)
            elif kind == "pos":
                a = nprng.uniform(0.5, 1.5, size=shp)
            else:
                a = nprng.normal(size=shp)
            out.append(a)
        return out


def _cap_sizes(inputs, output, size_dict, cap, rng):
    """shrink sizes (never below 1) until the full index space is <= cap"""
    order = ref.index_order(inputs, output)
    sd = dict(size_dict)

    def space():
        p = 1
        for ix in order:
            p *= sd[ix]
        return p

    guard = 0
    while space() > cap and guard < 10000:
        guard += 1
        big = [ix for ix in order if sd[ix] > 1]
        if not big:
            break
        ix = max(big, key=lambda i: (sd[i], rng.random()))
        sd[ix] -= 1
    return sd


def _sizes(indices, rng, dmin, dmax, p_one=0.1):
    sd = {}
    for ix in indices:
        if rng.random() < p_one:
            sd[ix] = 1
        else:
            sd[ix] = rng.randint(dmin, dmax)
    return sd


def _choose_output(inputs, rng, n_out, allow_multi=True):
    """pick output indices (each must appear in some input), in random order"""
    pool = []
    for t in inputs:
        for ix in t:
            if ix not in pool:
                pool.append(ix)
    rng.shuffle(pool)
    return tuple(pool[: min(n_out, len(pool))])


def graph_net(rng, n, reg=None, n_out=None, dmin=2, dmax=4, hyper=0, cap=2 * 10**5, cls="graph", connected=True, p_one=0.08):
    """random (multi)graph: every index on exactly two tensors, plus ``hyper`` hyper-edges,
    plus output indices (dangling or shared)."""
    edges = []
    nxt = 0
    # spanning tree first for connectivity
    if connected and n > 1:
        perm = list(range(n))
        rng.shuffle(perm)
        for k in range(1, n):
            a = perm[k]
            b = perm[rng.randrange(k)]
            edges.append((a, b))
    extra = rng.randint(0, max(1, n // 2)) if reg is None else max(0, (reg * n) // 2 - len(edges))
    for _ in range(extra):
        if n < 2:
            break
        a, b = rng.sample(range(n), 2)
        edges.append((a, b))
    terms = [[] for _ in range(n)]
    for a, b in edges:
        ix = symbol(nxt)
        nxt += 1
        terms[a].append(ix)
        terms[b].append(ix)
    for _ in range(hyper):
        k = rng.randint(3, min(n, 4)) if n >= 3 else n
        ix = symbol(nxt)
        nxt += 1
        for a in rng.sample(range(n), k):
            terms[a].append(ix)
    if n_out is None:
        n_out = rng.randint(0, 3)
    output = []
    for _ in range(n_out):
        r = rng.random()
        if r < 0.6 or nxt == 0:
            # dangling output index on one tensor
            ix = symbol(nxt)
            nxt += 1
            terms[rng.randrange(n)].append(ix)
        else:
            # an existing index also kept in the output (hyper-ish)
            ix = symbol(rng.randrange(nxt))
            if ix in output:
                continue
        output.append(ix)
    for t in terms:
        rng.shuffle(t)
    rng.shuffle(output)
    inds = [symbol(i) for i in range(nxt)]
    sd = _sizes(inds, rng, dmin, dmax, p_one)
    sd = _cap_sizes(terms, output, sd, cap, rng)
    return Net(terms, output, sd, cls)


def perverse_net(rng, n, cap=2 * 10**5, dmax=3, cls="perverse"):
    """anything goes: repeated indices, scalars, duplicate terms, indices on one tensor
    only, hyper indices, output indices on many tensors, size-1 dims."""
    n_ind = rng.randint(1, max(2, n + 2))
    inds = [symbol(i) for i in range(n_ind)]
    terms = []
    for _ in range(n):
        r = rng.random()
        if r < 0.08:
            terms.append([])
            continue
        if r < 0.18 and terms:
            terms.append(list(rng.choice(terms)))
            continue
        k = rng.randint(1, 4)
        terms.append([rng.choice(inds) for _ in range(k)])
    used = []
    for t in terms:
        for ix in t:
            if ix not in used:
                used.append(ix)
    rng.shuffle(used)
    n_out = rng.randint(0, min(3, len(used)))
    output = used[:n_out]
    sd = _sizes(inds, rng, 2, dmax, 0.15)
    sd = _cap_sizes(terms, output, sd, cap, rng)
    return Net(terms, output, sd, cls)


def chain_net(rng, n, cap=2 * 10**5, cls="chain"):
    terms = [[] for _ in range(n)]
    nxt = 0
    for k in range(n - 1):
        ix = symbol(nxt)
        nxt += 1
        terms[k].append(ix)
        terms[k + 1].append(ix)
    output = []
    for k in range(n):
        if rng.random() < 0.4:
            ix = symbol(nxt)
            nxt += 1
            terms[k].append(ix)
            if rng.random() < 0.7:
                output.append(ix)
    for t in terms:
        rng.shuffle(t)
    rng.shuffle(output)
    sd = _sizes([symbol(i) for i in range(nxt)], rng, 2, 4)
    sd = _cap_sizes(terms, output, sd, cap, rng)
    return Net(terms, output, sd, cls)


def lattice_net(rng, lx, ly, cap=2 * 10**5, cls="lattice"):
    terms = {}
    nxt = 0
    for x in range(lx):
        for y in range(ly):
            terms[x, y] = []
    for x in range(lx):
        for y in range(ly):
            if x + 1 < lx:
                ix = symbol(nxt)
                nxt += 1
                terms[x, y].append(ix)
                terms[x + 1, y].append(ix)
            if y + 1 < ly:
                ix = symbol(nxt)
                nxt += 1
                terms[x, y].append(ix)
                terms[x, y + 1].append(ix)
    tl = list(terms.values())
    output = []
    for _ in range(rng.randint(0, 2)):
        ix = symbol(nxt)
        nxt += 1
        tl[rng.randrange(len(tl))].append(ix)
        output.append(ix)
    sd = _sizes([symbol(i) for i in range(nxt)], rng, 2, 3, 0.0)
    sd = _cap_sizes(tl, output, sd, cap, rng)
    return Net(tl, output, sd, cls)


def disconnected_net(rng, n, cap=2 * 10**5):
    k = rng.randint(2, max(2, min(3, n)))
    sizes = [1] * k
    for _ in range(n - k):
        sizes[rng.randrange(k)] += 1
    terms = []
    output = []
    sd = {}
    off = 0
    for s in sizes:
        sub = graph_net(rng, s, cap=10**9, n_out=rng.randint(0, 1))
        ren = {}
        for ix in ref.index_order(sub.inputs, sub.output):
            ren[ix] = symbol(off)
            off += 1
        terms += [[ren[ix] for ix in t] for t in sub.inputs]
        output += [ren[ix] for ix in sub.output]
        for ix, d in sub.size_dict.items():
            if ix in ren:
                sd[ren[ix]] = d
    order = list(range(len(terms)))
    rng.shuffle(order)
    terms = [terms[i] for i in order]
    rng.shuffle(output)
    sd = _cap_sizes(terms, output, sd, cap, rng)
    return Net(terms, output, sd, "disconnected")


def outer_net(rng, n, cap=2 * 10**5):
    terms = []
    nxt = 0
    for _ in range(n):
        k = rng.randint(0, 2)
        terms.append([symbol(nxt + j) for j in range(k)])
        nxt += k
    inds = [symbol(i) for i in range(nxt)]
    output = list(inds)
    rng.shuffle(output)
    if output and rng.random() < 0.5:
        output = output[: rng.randint(0, len(output))]
    sd = _sizes(inds, rng, 2, 3)
    sd = _cap_sizes(terms, output, sd, cap, rng)
    return Net(terms, output, sd, "outer")


def hadamard_net(rng, n, cap=2 * 10**5):
    k = rng.randint(1, 3)
    base = [symbol(i) for i in range(k)]
    terms = []
    for _ in range(n):
        t = list(base)
        rng.shuffle(t)
        if rng.random() < 0.3 and len(t) > 1:
            t = t[:-1]
        terms.append(t)
    used = ref.index_order(terms, ())
    output = [ix for ix in used if rng.random() < 0.6]
    rng.shuffle(output)
    sd = _sizes(base, rng, 2, 4)
    sd = _cap_sizes(terms, output, sd, cap, rng)
    return Net(terms, output, sd, "hadamard")


def batch_net(rng, n, cap=2 * 10**5):
    net = graph_net(rng, n, cap=10**9, n_out=rng.randint(0, 2))
    nxt = len(net.size_dict)
    b = symbol(nxt)
    terms = [list(t) + [b] for t in net.inputs]
    for t in terms:
        rng.shuffle(t)
    output = list(net.output)
    if rng.random() < 0.7:
        output.insert(rng.randint(0, len(output)), b)
    sd = dict(net.size_dict)
    sd[b] = rng.randint(2, 3)
    sd = _cap_sizes(terms, output, sd, cap, rng)
    return Net(terms, output, sd, "batch")


def hyper_net(rng, n, cap=2 * 10**5):
    return graph_net(rng, n, hyper=rng.randint(1, 3), cap=cap, cls="hyper")


CLASSES = (
    "graph",
    "hyper",
    "perverse",
    "chain",
    "lattice",
    "disconnected",
    "outer",
    "hadamard",
    "batch",
)


def network(rng, nmin=2, nmax=8, cap=2 * 10**5, classes=CLASSES, cls=None):
    cls = cls or rng.choice(classes)
    n = rng.randint(nmin, nmax)
    if cls == "graph":
        return graph_net(rng, n, cap=cap)
    if cls == "hyper":
        return hyper_net(rng, n, cap=cap)
    if cls == "perverse":
        return perverse_net(rng, n, cap=cap)
    if cls == "chain":
        return chain_net(rng, n, cap=cap)
    if cls == "lattice":
        lx = rng.randint(1, 3)
        ly = max(1, min(4, n // lx))
        if lx * ly < nmin:
            lx, ly = 2, max(1, (nmin + 1) // 2)
        return lattice_net(rng, lx, ly, cap=cap)
    if cls == "disconnected":
        return disconnected_net(rng, max(n, 2), cap=cap)
    if cls == "outer":
        return outer_net(rng, n, cap=cap)
    if cls == "hadamard":
        return hadamard_net(rng, n, cap=cap)
    if cls == "batch":
        return batch_net(rng, n, cap=cap)
    raise ValueError(cls)


def ordinary_net(rng, n, cap=10**9, hyper=0, dmin=2, dmax=4, n_out=None):
    """connected, no repeated index in a tensor, no size-1 dims"""
    while True:
        net = graph_net(rng, n, hyper=hyper, cap=cap, dmin=dmin, dmax=dmax, n_out=n_out, p_one=0.0)
        if not net.has_repeat():
            return net


def tree_shape(rng):
    return rng.choice(["uniform", "uniform", "caterpillar", "balanced"])


def random_ssa(rng, n, shape=None):
    return ref.random_tree(n, rng, shape or tree_shape(rng))
