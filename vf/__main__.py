"""Runner:  python -m vf <Cxx> [quick|thorough]   |   python -m vf <Cxx> --replay <file>

Splits the property's workload into shards, runs each shard in its own
subprocess (never multiprocessing.Pool: a dying child would hang it), merges the
shard reports, classifies violations against KNOWN_FINDINGS.txt, writes
evidence/<id>.json and prints the verdict lines.

exit 0  held on everything explored (possibly with KNOWN-FINDING lines)
exit 1  VIOLATION property=<id> replay=<path>
exit 2  INCONCLUSIVE property=<id> reason=...
"""

import concurrent.futures
import importlib
import json
import os
import shutil
import subprocess
import sys
import time

from . import findings
from .common import REPO, VERIF, Report, dump, stable_hash


def load_check(pid):
    return importlib.import_module(f"vf.checks.{pid.lower()}")


def repo_state():
    def git(*a):
        try:
            return subprocess.run(
                ["git", "-C", REPO, *a], capture_output=True, text=True, timeout=30
            ).stdout.strip()
        except Exception:
            return "?"

    return {
        "repo": REPO,
        "head": git("rev-parse", "HEAD"),
        "dirty": bool(git("status", "--porcelain", "--untracked-files=no")),
    }


def run_worker(pid, tier, seed, shard, nshards, outdir, timeout):
    out = os.path.join(outdir, f"shard{shard}.json")
    cmd = [
        sys.executable,
        "-m",
        "vf.worker",
        pid,
        tier,
        str(seed),
        str(shard),
        str(nshards),
        out,
    ]
    for attempt in (0, 1):
        try:
            p = subprocess.run(
                cmd,
                cwd=VERIF,
                capture_output=True,
                text=True,
                timeout=timeout,
            )
            if p.returncode == 0 and os.path.exists(out):
                with open(out) as f:
                    return json.load(f), None
            err = f"shard {shard} exit {p.returncode}: {p.stderr[-1500:]}"
        except subprocess.TimeoutExpired:
            # a deterministic hang would only repeat: no retry
            return None, f"shard {shard} watchdog ({timeout}s)"
        if attempt == 0:
            continue
    return None, err


def main(argv):
    if len(argv) < 1:
        print(__doc__)
        return 2
    pid = argv[0].upper()
    mod = load_check(pid)

    if len(argv) >= 3 and argv[1] == "--replay":
        return do_replay(pid, mod, argv[2])

    tier = argv[1] if len(argv) > 1 else os.environ.get("VERIF_TIER", "quick")
    if tier not in ("quick", "thorough"):
        tier = "quick"
    seed = int(os.environ.get("VERIF_SEED", "0"))
    t0 = time.time()

    nshards = mod.nshards(tier)
    timeout = getattr(mod, "SHARD_TIMEOUT", {"quick": 400, "thorough": 5400})[tier]
    timeout *= float(os.environ.get("VF_SHARD_TIMEOUT_SCALE", "1"))  # tracing runs (tools/cover.sh)
    outdir = os.path.join(VERIF, ".build", "run", f"{pid}-{os.getpid()}")
    os.makedirs(outdir, exist_ok=True)
    maxpar = int(os.environ.get("VF_JOBS", getattr(mod, "MAX_PARALLEL", 16)))

    reports, failures = [], []
    try:
        with concurrent.futures.ThreadPoolExecutor(max_workers=maxpar) as ex:
            futs = [
                ex.submit(run_worker, pid, tier, seed, s, nshards, outdir, timeout)
                for s in range(nshards)
            ]
            for f in futs:
                d, err = f.result()
                if d is None:
                    failures.append(err)
                else:
                    reports.append(d)
    finally:
        shutil.rmtree(outdir, ignore_errors=True)

    rep = Report.merge(pid, tier, seed, reports)
    rep.inconclusive.extend(failures)

    known, _fixed = findings.load()
    lines = []
    unknown = []
    known_seen = {}
    for v in rep.violations:
        key = None
        try:
            key = mod.classify(v)
        except Exception as e:  # a broken classifier must never hide a violation
            key = None
            rep.notes.append(f"classifier error: {e!r}")
        if key is not None and (pid, key) in known:
            known_seen.setdefault(key, v)
        else:
            v["key"] = key
            unknown.append(v)

    for key, v in sorted(known_seen.items()):
        lines.append(
            f"KNOWN-FINDING: property={pid} key={key} {known[(pid, key)]}"
        )

    exit_code = 0
    replay_paths = []
    seen_keys = set()
    for v in unknown:
        dedup = (v.get("key"), v["kind"])
        if dedup in seen_keys and len(replay_paths) >= 5:
            continue
        seen_keys.add(dedup)
        h = stable_hash(v["witness"], v["kind"])[:12]
        path = os.path.join(VERIF, "replays", pid, f"{h}.json")
        dump({"property": pid, **v}, path)
        replay_paths.append(path)
        lines.append(f"VIOLATION property={pid} replay={path}")
        lines.append(f"  kind={v['kind']} key={v.get('key')} {v['message'][:300]}")
        exit_code = 1

    # -- inconclusive? ------------------------------------------------------
    reasons = []
    for m in getattr(mod, "REQUIRED_MONITORS", []):
        if rep.monitors.get(m, 0) == 0:
            reasons.append(f"monitor '{m}' observed nothing")
    if not reports:
        reasons.append("no shard completed")
    if rep.evaluations == 0:
        reasons.append("no case evaluated")
    crashed = [m for m in rep.inconclusive if str(m).startswith("shard crashed")]
    if crashed:
        # an exception escaped run_shard: that shard's remaining workload never ran
        reasons.append(f"{len(crashed)} shard(s) crashed in the harness: {crashed[0][-400:]}")
    if failures:
        # a shard that was killed / timed out (after one retry for non-watchdog exits) ran none
        # or only part of its workload: never folded into "held"
        reasons.append(f"{len(failures)}/{nshards} shards failed: {[str(f)[:300] for f in failures[:2]]}")

    coverage = {
        "evaluations": rep.evaluations,
        "distinct_nontrivial": len(rep.nontrivial),
        "distinct": len(rep.distinct),
        "rule": mod.RULE,
        "samples": rep.samples[:6],
        "monitors": dict(rep.monitors),
        "classes": dict(rep.classes),
        "shards": nshards,
        "shards_failed": failures,
        "inconclusive": rep.inconclusive[:20],
        "n_inconclusive": len(rep.inconclusive),
        "known_findings_observed": sorted(known_seen),
        "repo": repo_state(),
        "notes": rep.notes[:30],
    }
    for g, c in rep.extra.items():
        coverage[g] = dict(c)
    for g, s in rep.sets.items():
        coverage[f"distinct_{g}"] = len(s)
    if getattr(mod, "EXHAUSTIVE", None):
        ex = mod.EXHAUSTIVE(tier) if callable(mod.EXHAUSTIVE) else mod.EXHAUSTIVE
        if ex:
            coverage["exhaustive"] = True
            coverage["exhaustive_space"] = ex if isinstance(ex, str) else ""
    if hasattr(mod, "finalize"):
        try:
            coverage.update(mod.finalize(rep, tier) or {})
        except Exception as e:
            rep.notes.append(f"finalize error: {e!r}")
    if coverage.get("inconclusive_reason"):
        # a check may declare its own run inconclusive (e.g. C15: the syscall audit saw writes the
        # crash interposer cannot see)
        reasons.append(str(coverage["inconclusive_reason"]))

    evidence = {
        "property_id": pid,
        "tier": tier,
        "seed": seed,
        "level": mod.LEVEL,
        "coverage": coverage,
        "assumptions": list(getattr(mod, "ASSUMPTIONS", [])),
        "wall_s": round(time.time() - t0, 2),
        "violations": len(unknown),
        "verdict": "violated"
        if exit_code == 1
        else ("inconclusive" if reasons else "held on what was observed"),
    }
    dump(evidence, os.path.join(VERIF, "evidence", f"{pid}.json"))

    for ln in lines:
        print(ln)
    print(
        f"{pid} {tier} seed={seed}: evaluations={rep.evaluations} "
        f"distinct_nontrivial={len(rep.nontrivial)} violations={len(unknown)} "
        f"known={len(known_seen)} monitors={dict(rep.monitors)} wall={evidence['wall_s']}s"
    )
    if exit_code == 0 and reasons:
        print(f"INCONCLUSIVE property={pid} reason={'; '.join(reasons)}")
        return 2
    return exit_code


def do_replay(pid, mod, path):
    with open(path) as f:
        v = json.load(f)
    rep = Report(pid, "replay", 0)
    mod.replay(rep, v)
    if rep.violations:
        for r in rep.violations:
            print(f"VIOLATION property={pid} replay={path}")
            print(f"  kind={r['kind']} {r['message'][:1000]}")
        return 1
    print(f"replay of {path}: no violation reproduced")
    return 0


if __name__ == "__main__":
    sys.exit(main(sys.argv[1:]))
