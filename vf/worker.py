"""One shard of one check, in its own interpreter:
python -m vf.worker <Cxx> <tier> <seed> <shard> <nshards> <outfile>
"""

import faulthandler
import importlib
import json
import os
import sys
import traceback
import warnings


def main(argv):
    pid, tier, seed, shard, nshards, out = argv
    seed, shard, nshards = int(seed), int(shard), int(nshards)
    faulthandler.enable()
    warnings.filterwarnings("ignore")
    repo = os.path.realpath(os.environ.get("VF_REPO", "/repo"))
    import cotengra

    where = os.path.realpath(cotengra.__file__)
    if not where.startswith(repo + os.sep):
        print(f"cotengra imported from {where}, not under {repo}", file=sys.stderr)
        return 3
    from .common import Report

    cov = None
    if os.environ.get("VF_COVER"):
        # development aid (tools/cover.sh): which lines of the repository the workload reaches
        import coverage

        cov = coverage.Coverage(
            data_file=os.path.join(os.environ["VF_COVER"], f".coverage.{pid}.{shard}"),
            include=[repo + "/cotengra/*"],
        )
        cov.start()
    mod = importlib.import_module(f"vf.checks.{pid.lower()}")
    rep = Report(pid, tier, seed, shard)
    try:
        mod.run_shard(rep, tier, seed, shard, nshards)
    except Exception:
        rep.inconclusive_case("shard crashed: " + traceback.format_exc()[-1500:])
    finally:
        if cov is not None:
            cov.stop()
            cov.save()
    with open(out, "w") as f:
        json.dump(rep.to_json(), f)
    return 0


if __name__ == "__main__":
    sys.exit(main(sys.argv[1:]))
