"""E9 - process matrix for C17.

Child mode (python -m vf.procmatrix '<json>'): executes a list of seeded call descriptions in the
given order, perturbing the global random generators between calls, and prints one JSON object
{call_id: {"result": canonical, "touched_random": bool, "touched_numpy": bool, "error": str|None}}.
The parent starts it under different PYTHONHASHSEED values / perturbations / orders and compares.
"""

import hashlib
import json
import random
import sys
import warnings


def canon(x):
    import numpy as np

    if isinstance(x, dict):
        return {str(k): canon(v) for k, v in sorted(x.items(), key=lambda kv: str(kv[0]))}
    if isinstance(x, (list, tuple)):
        return [canon(v) for v in x]
    if isinstance(x, (set, frozenset)):
        return sorted(canon(v) for v in x)
    if isinstance(x, np.ndarray):
        return {"shape": list(x.shape), "sha1": hashlib.sha1(np.ascontiguousarray(x).tobytes()).hexdigest()}
    if isinstance(x, (np.integer,)):
        return int(x)
    if isinstance(x, (np.floating, float)):
        return repr(float(x))
    if isinstance(x, (int, str, bool)) or x is None:
        return x
    return repr(x)


def tree_sig(tree):
    return {"ssa": [list(p) for p in tree.get_ssa_path()], "sliced": list(tree.sliced_inds)}


def base_tree(spec):
    import cotengra as ctg

    inputs = tuple(map(tuple, spec["inputs"]))
    tree = ctg.ContractionTree.from_path(inputs, tuple(spec["output"]), spec["size_dict"], ssa_path=[tuple(p) for p in spec["ssa"]])
    for ix in spec.get("pre_sliced", []):
        tree.remove_ind_(ix)
    return tree


def run_call(spec):
    """Execute one seeded call description -> JSON-able result"""
    import cotengra as ctg
    from cotengra import utils as U
    from cotengra.hyperoptimizers.hyper import _PATH_FNS

    kind = spec["kind"]
    S = spec["seed"]
    inputs = tuple(map(tuple, spec.get("inputs", [])))
    output = tuple(spec.get("output", []))
    sd = spec.get("size_dict", {})
    kw = spec.get("kw", {})
    if kind == "rgo":
        from cotengra.pathfinders.path_basic import RandomGreedyOptimizer

        o = RandomGreedyOptimizer(seed=S, parallel=False, **kw)
        return [o(inputs, output, sd), repr(o.best_flops)]
    if kind == "rgo_percall":
        from cotengra.pathfinders.path_basic import RandomGreedyOptimizer

        o = RandomGreedyOptimizer(seed=S, parallel=False, max_repeats=4)
        return [o.ssa_path(inputs, output, sd, **kw), repr(o.best_flops)]
    if kind == "rg_track":
        from cotengra.pathfinders.path_basic import optimize_random_greedy_track_flops

        return optimize_random_greedy_track_flops(inputs, output, sd, seed=S, **kw)
    if kind == "random_opt":
        from cotengra.pathfinders.path_random import RandomOptimizer

        return RandomOptimizer(seed=S)(inputs, output, sd)
    if kind == "method":
        return tree_sig(_PATH_FNS[spec["method"]](inputs, output, sd, seed=S, **kw))
    if kind == "labels_partition":
        from cotengra.pathfinders.path_labels import labels_partition

        return list(labels_partition(inputs, output, sd, seed=S, **kw))
    if kind == "kahypar_membership":
        from cotengra.pathfinders.path_kahypar import kahypar_subgraph_find_membership

        return list(kahypar_subgraph_find_membership(inputs, output, sd, seed=S, **kw))
    if kind == "greedy":
        from cotengra.pathfinders.path_basic import optimize_greedy

        return optimize_greedy(inputs, output, sd, seed=S, **kw)
    tree = base_tree(spec) if "ssa" in spec else None
    if kind == "slice":
        return tree_sig(tree.slice(seed=S, **kw))
    if kind == "slicefinder":
        from cotengra.slicer import SliceFinder

        ix, cost = SliceFinder(tree, seed=S, **kw).search(spec.get("repeats", 4))
        return sorted(ix)
    if kind == "get_subtree":
        node = max((n for n in tree.children), key=len)
        leaves, branches = tree.get_subtree(node, spec["size"], search="random", seed=S)
        return [sorted(map(sorted, leaves)), sorted(map(sorted, branches))]
    if kind == "subtree_reconfigure":
        return tree_sig(tree.subtree_reconfigure(seed=S, **kw))
    if kind == "forest":
        return tree_sig(tree.subtree_reconfigure_forest(seed=S, parallel=False, **kw))
    if kind == "anneal":
        return tree_sig(tree.simulated_anneal(seed=S, **kw))
    if kind == "temper":
        return tree_sig(tree.parallel_temper(seed=S, parallel=False, **kw))
    if kind == "unslice_rand":
        return tree_sig(tree.unslice_rand(seed=S))
    if kind == "slice_and_reconfigure":
        return tree_sig(tree.slice_and_reconfigure(**kw))
    if kind == "repeat_after_history":
        # the same seeded NON-inplace call made twice on a tree that already has a history of
        # in-place operations: both answers must coincide (and coincide across processes)
        tree.subtree_reconfigure_(subtree_size=3, maxiter=2, select="max")
        if spec.get("also_anneal"):
            tree.simulated_anneal_(tsteps=1, numiter=1, seed=3)
        which = spec["which"]

        def call():
            if which == "subtree_reconfigure":
                return tree_sig(tree.subtree_reconfigure(seed=S, **kw))
            if which == "forest":
                return tree_sig(tree.subtree_reconfigure_forest(seed=S, parallel=False, **kw))
            if which == "anneal":
                return tree_sig(tree.simulated_anneal(seed=S, **kw))
            if which == "slice":
                return tree_sig(tree.slice(seed=S, **kw))
            raise ValueError(which)

        first = call()
        before = tree_sig(tree)
        second = call()
        return {"first": first, "second": second, "source_unchanged": tree_sig(tree) == before}
    if kind == "gen":
        fn = getattr(U, spec["fn"])
        return fn(*spec.get("args", []), seed=S, **kw)
    if kind == "arrays":
        return U.make_arrays_from_inputs(inputs, sd, seed=S)
    if kind == "size_dict":
        return U.make_rand_size_dict_from_inputs(inputs, seed=S, **kw)
    raise ValueError(kind)


def child(arg):
    warnings.filterwarnings("ignore")
    import numpy as np

    job = json.loads(arg)
    out = {}
    prng = random.Random(job["perturb"])
    for cid in job["order"]:
        spec = job["calls"][cid]
        # perturb the global generators
        random.seed(prng.randrange(2**31))
        np.random.seed(prng.randrange(2**31))
        for _ in range(prng.randrange(0, 50)):
            random.random()
            np.random.random()
        st_r = random.getstate()
        st_n = np.random.get_state()[1].tobytes()
        try:
            res = canon(run_call(spec))
            err = None
        except Exception as e:
            res, err = None, f"{type(e).__name__}: {e}"
        out[cid] = {
            "result": res,
            "error": err,
            "touched_random": random.getstate() != st_r,
            "touched_numpy": np.random.get_state()[1].tobytes() != st_n,
        }
    sys.stdout.write("RESULT" + json.dumps(out) + "\n")


if __name__ == "__main__":
    child(sys.argv[1])
