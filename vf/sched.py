"""E6/E7 - deterministic schedulers.

ScriptedPool   an executor object for HyperOptimizer(parallel=pool): submit() runs the task
               eagerly, but the returned future only reports done() when the harness's schedule
               says so - so the optimizer's polling/reporting code sees every completion order.
TokenScheduler a deterministic thread scheduler: worker threads run one at a time; marked yield
               points hand control back to a controller which picks the next runnable thread from
               an explicit schedule (DFS over schedules enumerates every ordering of yield points).
"""

import threading


class _Future:
    def __init__(self, pool, idx, result=None, exc=None):
        self.pool = pool
        self.idx = idx
        self._result = result
        self._exc = exc
        self.cancelled_flag = False

    def done(self):
        return self.pool._is_done(self)

    def result(self, timeout=None):
        self.pool._consumed(self)
        if self._exc is not None:
            raise self._exc
        return self._result

    def cancel(self):
        self.cancelled_flag = True
        self.pool._consumed(self)
        return True


class ScriptedPool:
    """``order`` decides which outstanding future completes next: a callable
    ``order(outstanding_indices) -> index`` (indices are submission numbers)."""

    def __init__(self, order, max_workers=1):
        self._max_workers = max_workers
        self.order = order
        self.outstanding = []
        self.released = None
        self.n_submitted = 0
        self.completion_order = []
        self.polls = 0

    def submit(self, fn, *args, **kwargs):
        idx = self.n_submitted
        self.n_submitted += 1
        try:
            fut = _Future(self, idx, result=fn(*args, **kwargs))
        except BaseException as e:  # delivered through result(), like a real pool
            fut = _Future(self, idx, exc=e)
        self.outstanding.append(fut)
        return fut

    def _is_done(self, fut):
        self.polls += 1
        if self.released is None and self.outstanding:
            pick = self.order([f.idx for f in self.outstanding])
            self.released = next(f for f in self.outstanding if f.idx == pick)
        return fut is self.released

    def _consumed(self, fut):
        if fut in self.outstanding:
            self.outstanding.remove(fut)
            self.completion_order.append(fut.idx)
        if self.released is fut:
            self.released = None

    def shutdown(self, *a, **k):
        pass


def order_from_permutation(perm):
    """complete the futures following ``perm`` (a ranking of submission numbers): among the
    outstanding ones the one that comes first in ``perm`` finishes first"""
    rank = {idx: r for r, idx in enumerate(perm)}

    def order(outstanding):
        return min(outstanding, key=lambda i: rank.get(i, 10**9 + i))

    return order


def order_from_rng(rng):
    def order(outstanding):
        return rng.choice(outstanding)

    return order


# ----------------------------------------------------------------------------- #
#                           deterministic thread scheduler                      #
# ----------------------------------------------------------------------------- #


class Deadlock(Exception):
    pass


class TokenScheduler:
    """Runs ``n`` python callables in threads, one at a time.  A thread gives the token back
    at every ``yield_point(label)`` call.  ``choose(runnable, trace)`` picks who runs next."""

    def __init__(self, choose, watchdog=20.0):
        self.choose = choose
        self.watchdog = watchdog
        self.cv = threading.Condition()
        self.current = None  # thread index holding the token, or None = controller
        self.alive = set()
        self.trace = []
        self.errors = {}
        self.results = {}
        self._tls = threading.local()
        self.stuck = False

    # called from worker threads (through instrumented wrappers)
    def yield_point(self, label):
        me = getattr(self._tls, "idx", None)
        if me is None:
            return  # not a scheduled thread (e.g. the main thread during setup)
        with self.cv:
            self.trace.append((me, label))
            self.current = None
            self.cv.notify_all()
            if not self.cv.wait_for(lambda: self.current == me, timeout=self.watchdog):
                self.stuck = True
                raise Deadlock(f"thread {me} never rescheduled at {label}")

    def _worker(self, idx, fn):
        self._tls.idx = idx
        with self.cv:
            if not self.cv.wait_for(lambda: self.current == idx, timeout=self.watchdog):
                self.stuck = True
                return
        try:
            self.results[idx] = fn()
        except BaseException as e:  # noqa
            self.errors[idx] = e
        finally:
            with self.cv:
                self.alive.discard(idx)
                self.trace.append((idx, "<exit>"))
                self.current = None
                self.cv.notify_all()

    def run(self, fns):
        threads = []
        self.alive = set(range(len(fns)))
        for i, fn in enumerate(fns):
            t = threading.Thread(target=self._worker, args=(i, fn), daemon=True)
            threads.append(t)
            t.start()
        while True:
            with self.cv:
                if not self.cv.wait_for(lambda: self.current is None, timeout=self.watchdog):
                    self.stuck = True
                    break
                if not self.alive:
                    break
                nxt = self.choose(sorted(self.alive), self.trace)
                self.current = nxt
                self.cv.notify_all()
        for t in threads:
            t.join(timeout=self.watchdog)
        return self.results, self.errors
