"""E8 - crash injection for C15.

``CrashServer`` is a warmed-up helper process started with LD_PRELOAD=<crash_shim.so>.  For every
request it forks: the child arms the shim through its environment (VF_KILL_*), runs one writer or
reader action against a cache directory, and dies / reports.  Forked children are 'fresh processes'
for our purposes: no DiskDict or optimizer object exists before the action creates one.

Run as a module (python -m vf.crash) it is the server; imported it is the client.
"""

import hashlib
import json
import os
import subprocess
import sys

from .common import VERIF

SHIM = os.path.join(VERIF, ".build", "crash_shim.so")


def shim_available():
    return os.path.exists(SHIM)


# ------------------------------- client ------------------------------------- #


class CrashServer:
    def __init__(self):
        env = dict(os.environ)
        env["LD_PRELOAD"] = SHIM
        for k in list(env):
            if k.startswith("VF_KILL"):
                del env[k]
        self.p = subprocess.Popen([sys.executable, "-m", "vf.crash"], cwd=VERIF, env=env, stdin=subprocess.PIPE, stdout=subprocess.PIPE, text=True)
        hello = self.p.stdout.readline()
        if not hello.startswith("READY"):
            raise RuntimeError("crash server did not start: " + hello)

    def call(self, req):
        self.p.stdin.write(json.dumps(req) + "\n")
        self.p.stdin.flush()
        line = self.p.stdout.readline()
        if not line:
            raise RuntimeError("crash server died")
        return json.loads(line)

    def close(self):
        try:
            self.p.stdin.close()
            self.p.wait(timeout=10)
        except Exception:
            self.p.kill()


def snapshot_dir(d):
    out = {}
    for root, dirs, files in os.walk(d):
        for name in dirs:
            out[os.path.relpath(os.path.join(root, name), d) + "/"] = None
        for name in files:
            p = os.path.join(root, name)
            with open(p, "rb") as f:
                b = f.read()
            out[os.path.relpath(p, d)] = (len(b), hashlib.sha1(b).hexdigest())
    return out


# ------------------------------- server side -------------------------------- #


def _make_opt(spec, directory, **over):
    import cotengra as ctg

    kw = dict(
        directory=directory, methods=["greedy"], max_repeats=spec.get("max_repeats", 1), parallel=False, optlib="random",
        seed=spec.get("seed", 0), minimize="flops", progbar=False, directory_split=spec.get("directory_split", True),
        overwrite=spec.get("overwrite", False), hash_method=spec.get("hash_method", "a"),
    )
    if spec.get("slicing"):
        kw["slicing_opts"] = {"target_size": spec["slicing"], "max_repeats": 1}
    kw.update(over)
    return ctg.ReusableHyperOptimizer(**kw)


def _query(spec):
    q = spec["query"]
    return tuple(map(tuple, q["inputs"])), tuple(q["output"]), q["size_dict"]


def do_write(spec):
    import random

    random.seed(spec.get("seed", 0))
    d = spec["dir"]
    inputs, output, size_dict = _query(spec)
    if spec["action"] == "search":
        opt = _make_opt(spec, d)
        opt.search(inputs, output, size_dict)
    elif spec["action"] == "update_from_tree":
        import cotengra as ctg

        opt = _make_opt(spec, d)
        tree = ctg.ContractionTree.from_path(inputs, output, size_dict, ssa_path=[tuple(p) for p in spec["ssa"]])
        tree.set_default_objective("flops")
        opt.update_from_tree(tree, overwrite=True)
    elif spec["action"] == "diskdict":
        from cotengra.utils import DiskDict

        dd = DiskDict(d)
        dd[tuple(spec["key"]) if isinstance(spec["key"], list) else spec["key"]] = spec["value"]
    else:
        raise ValueError(spec["action"])


def do_read(spec):
    """-> JSON-able outcome"""
    import warnings

    warnings.filterwarnings("ignore")
    d = spec["dir"]
    out = {}
    if spec["reader"] in ("search", "cache_only"):
        inputs, output, size_dict = _query(spec)
        counter = {"n": 0}
        opt = _make_opt(spec, d, overwrite=False, cache_only=spec["reader"] == "cache_only", directory_split=spec.get("reader_split", spec.get("directory_split", True)))
        orig = opt._get_suboptimizer

        def counted():
            counter["n"] += 1
            return orig()

        opt._get_suboptimizer = counted
        attempts = []
        for _ in range(spec.get("attempts", 2)):
            try:
                tree = opt.search(inputs, output, size_dict)
                attempts.append({"ok": True, "path": [list(p) for p in tree.get_path()], "sliced": sorted(tree.sliced_inds), "complete": bool(tree.is_complete()), "n": tree.N})
            except KeyError as e:
                attempts.append({"ok": False, "err": "KeyError", "msg": str(e)[:200]})
            except BaseException as e:
                attempts.append({"ok": False, "err": type(e).__name__, "msg": str(e)[:200]})
        out = {"attempts": attempts, "searches": counter["n"]}
    elif spec["reader"] == "diskdict":
        from cotengra.utils import DiskDict

        try:
            dd = DiskDict(d)
            key = tuple(spec["key"]) if isinstance(spec["key"], list) else spec["key"]
            present = key in dd
            try:
                v = dd[key]
                out = {"ok": True, "present": present, "value": v}
            except KeyError:
                out = {"ok": False, "present": present, "err": "KeyError"}
        except BaseException as e:
            out = {"ok": False, "err": type(e).__name__, "msg": str(e)[:200]}
    return out


def serve():
    import warnings

    warnings.filterwarnings("ignore")
    import cotengra  # noqa: warm up before forking
    import cotengra.hyperoptimizers.hyper  # noqa

    sys.stdout.write("READY\n")
    sys.stdout.flush()
    for line in sys.stdin:
        req = json.loads(line)
        r, w = os.pipe()
        pid = os.fork()
        if pid == 0:
            # ---- child ----
            os.close(r)
            code = 0
            try:
                if req["op"] == "write":
                    for k, v in req.get("env", {}).items():
                        os.environ[k] = str(v)  # putenv: seen by the shim's getenv
                    do_write(req)
                    res = {"done": True}
                else:
                    res = do_read(req)
                os.write(w, json.dumps(res, default=repr).encode())
            except BaseException as e:
                try:
                    os.write(w, json.dumps({"child_error": f"{type(e).__name__}: {e}"}).encode())
                except Exception:
                    pass
                code = 3
            os._exit(code)
        os.close(w)
        chunks = []
        while True:
            b = os.read(r, 65536)
            if not b:
                break
            chunks.append(b)
        os.close(r)
        _, status = os.waitpid(pid, 0)
        exitcode = os.waitstatus_to_exitcode(status)
        try:
            payload = json.loads(b"".join(chunks).decode()) if chunks else None
        except Exception:
            payload = {"unparsable": True}
        sys.stdout.write(json.dumps({"exit": exitcode, "result": payload}) + "\n")
        sys.stdout.flush()


# ------------------------------- syscall audit ------------------------------- #

# what the interposer (crash_shim.c) sees, as kernel syscall names
INTERCEPTED = {"open", "openat", "creat", "write", "pwrite64", "writev", "rename", "renameat", "renameat2", "link", "mkdir", "mkdirat",
               "unlink", "unlinkat", "fsync", "fdatasync", "ftruncate", "close"}
# every syscall that can change the content or the namespace of a file
MUTATING = ["open", "openat", "creat", "write", "pwrite64", "writev", "pwritev", "pwritev2", "sendfile", "copy_file_range", "splice",
            "rename", "renameat", "renameat2", "unlink", "unlinkat", "mkdir", "mkdirat", "link", "linkat", "symlink", "symlinkat",
            "truncate", "ftruncate", "fallocate", "fsync", "fdatasync"]


def strace_audit(spec, cache, timeout=180):
    """Run the writer ``spec`` in a FRESH interpreter WITHOUT the interposer under strace and return
    {"calls": {syscall: count} touching ``cache``, "bytes": bytes written into files under it,
     "unintercepted": [names the interposer would not have seen]} or {"error": ...}.
    An independent witness (the kernel interface) for what the crash enumeration is built on."""
    import re
    import shutil
    import tempfile

    if not shutil.which("strace"):
        return {"error": "strace not installed"}
    env = dict(os.environ)
    env.pop("LD_PRELOAD", None)
    out = tempfile.mktemp(prefix="vf-strace-", dir="/var/tmp")
    cmd = ["strace", "-f", "-y", "-qq", "-s", "0", "-o", out, "-e", "trace=" + ",".join(MUTATING), sys.executable, "-m", "vf.crash", "--oneshot", json.dumps(spec)]
    try:
        p = subprocess.run(cmd, cwd=VERIF, env=env, capture_output=True, text=True, timeout=timeout)
        if p.returncode != 0:
            return {"error": f"traced writer exited {p.returncode}: {p.stderr[-300:]}"}
        calls, nbytes = {}, 0
        pat = re.compile(r"^\d+\s+(\w+)\((.*)\)\s+=\s+(-?\d+)")
        for line in open(out, errors="replace"):
            m = pat.match(line)
            if not m or cache not in line:
                continue
            name, args, ret = m.group(1), m.group(2), int(m.group(3))
            if ret < 0:
                continue
            if name in ("open", "openat", "creat") and not re.search(r"O_WRONLY|O_RDWR|O_CREAT|O_TRUNC|O_APPEND", args) and name != "creat":
                continue  # read-only open
            # for the data-moving calls the TARGET must be under the cache (first fd argument)
            if name in ("write", "pwrite64", "writev", "pwritev", "pwritev2", "sendfile", "copy_file_range", "splice", "ftruncate", "fallocate", "fsync", "fdatasync"):
                first = args.split(",")[0]
                if name in ("copy_file_range", "splice"):
                    # (fd_in, off_in, fd_out, ...): the third argument is the target
                    parts = args.split(",")
                    first = parts[2] if len(parts) > 2 else first
                if cache not in first:
                    continue
                if name in ("write", "pwrite64", "writev", "pwritev", "pwritev2", "sendfile", "copy_file_range", "splice"):
                    nbytes += ret
            calls[name] = calls.get(name, 0) + 1
        return {"calls": calls, "bytes": nbytes, "unintercepted": sorted(n for n in calls if n not in INTERCEPTED)}
    except subprocess.TimeoutExpired:
        return {"error": "strace run timed out"}
    finally:
        try:
            os.remove(out)
        except OSError:
            pass


if __name__ == "__main__":
    if len(sys.argv) > 2 and sys.argv[1] == "--oneshot":
        import warnings

        warnings.filterwarnings("ignore")
        do_write(json.loads(sys.argv[2]))
    else:
        serve()
