"""C10 - path formats convert into each other and into trees without loss.

Five workloads, every one decided by models that share no code with cotengra (vf/ref.py and
the few helpers below):

tree     T = from_path(ssa_path) of a generated (network, tree); for every order kind o:
         T.traverse(o) visits each internal node exactly once, children first;
         T.get_path(o) / T.get_ssa_path(o) are valid pairwise paths (ref.check_*_path: every id
         used already exists = children before parents) that create exactly T's nodes, in the
         order traverse(o) gives; from_path(path=...) and from_path(ssa_path=...) rebuild the same
         node set; linear<->ssa converters are inverse on them and agree with the reference
         converters; prefixes of the paths autocomplete to complete trees containing the prefix.
         For orders that are *strict linear extensions* of the tree (every child scored below its
         parent, all scores distinct: kinds 'topo', 'compressed*') the emitted order must be the
         score order (that is what "a path under that traversal order" means when it is unambiguous;
         ContractionTreeCompressed.from_path documents it: "set the default 'surface' traversal
         ordering to be the initial path").
alltrees the same, for ALL (2n-3)!! trees of a network with n <= 5 (thorough: 6) tensors.
pair     independently generated linear / ssa paths (steps of 1, 2, 3+ tensors, arbitrary order
         inside a step, complete and incomplete): converters vs reference converters, inverse pair
         up to the order inside a step (the converters normalise it: same contraction), validity
         and node sequence of the converted path.
edge     edge_path_to_ssa / edge_path_to_linear vs a direct simulation ("contract the tensors
         that carry the index now, if there are two or more"); ALL permutations of the index set
         when a network has <= 6 indices, seeded permutations and partial orders beyond;
         from_path(edge_path=..., autocomplete=True) is complete and contains the simulated nodes.
mixed    from_path on independently generated paths with 1- and >=3-tensor steps, complete or not,
         autocomplete True / False.
"""

import itertools
import traceback

from cotengra.core import ContractionTree, ContractionTreeCompressed
from cotengra.pathfinders import path_basic as pb

from .. import ct, gen, ref
from ..common import Deadline, OpTimeout, budget, rng_for, time_limit

PID = "C10"
LEVEL = "exploration"
RULE = (
    "seeded generator over 9 network classes (2-12 tensors) x random/caterpillar/balanced trees, plus ALL "
    "trees of networks with n<=5 (thorough 6) tensors, x 14 order kinds (None, 'dfs', 'surface_order', "
    "memoised random, coarse random with ties, constant, size, adversarial -len, -min leaf, len parity, "
    "tuple valued, random linear extension, ContractionTreeCompressed built from ssa / linear path); "
    "independently generated linear/ssa paths with 1/2/3+ tensor steps; edge paths = ALL permutations of "
    "the index set when <=6 indices, seeded permutations + partial orders beyond. distinct = distinct "
    "(network, tree, order kind) | (n, path, format) | (network, edge path) | (network, path, format); "
    "non-trivial = >=4 tensors (distinct_tree_order_n4 counts the (network, tree, order kind) cases alone)"
)
ASSUMPTIONS = [
    "vf/ref.py path models (check_linear_path, check_ssa_path, path_to_nodes, linear_to_ssa_model, "
    "ssa_to_linear_model, ssa_to_children, all_trees) are the definitions",
    "order callables are pure functions of the node (memoised); a non-deterministic callable is not admissible",
    "order fidelity is only demanded for strict linear extensions, where 'the order that minimises order(node) "
    "subject to children first' is unique",
    "edge paths: distinct indices that occur on some input (anything else raises KeyError: outside the domain)",
]
REQUIRED_MONITORS = [
    "build_vs_model",
    "traverse_valid",
    "path_valid_linear",
    "path_valid_ssa",
    "roundtrip_linear",
    "roundtrip_ssa",
    "order_fidelity",
    "inverse_linear",
    "inverse_ssa",
    "inverse_linear_multi",
    "inverse_ssa_multi",
    "edge_steps",
    "edge_steps_hyper",
    "edge_tree_complete",
    "incomplete_autocomplete",
    "mixed_from_path",
    "all_trees_enumerated",
    "edge_perms_exhaustive",
]
SHARD_TIMEOUT = {"quick": 400, "thorough": 3600}
EXHAUSTIVE = None
OP_LIMIT = 20

ORDER_KINDS = (
    "none",
    "dfs",
    "surface",
    "rand",
    "randcoarse",
    "const",
    "size",
    "adversarial",
    "negmin",
    "parity",
    "tuple",
    "topo",
    "compressed",
    "compressed_lin",
)
LINEAR_EXTENSIONS = ("topo", "compressed", "compressed_lin")


def nshards(tier):
    return 16


def classify(v):
    return None


class Fail(Exception):
    def __init__(self, kind, msg, offending=None):
        super().__init__(msg)
        self.kind, self.msg, self.offending = kind, msg, offending


def need(cond, kind, msg, offending=None):
    if not cond:
        raise Fail(kind, msg() if callable(msg) else msg, offending)


def call(what, fn, *a, **kw):
    """a library call whose result the property promises: an exception is a violation"""
    try:
        return fn(*a, **kw)
    except OpTimeout:
        raise
    except Exception as e:
        raise Fail("raises", f"{what}: {type(e).__name__}: {e} | {traceback.format_exc()[-500:]}")


def show(x):
    if isinstance(x, (set, frozenset)):
        items = [show(i) for i in x]
        try:
            return sorted(items)
        except TypeError:
            return items
    if isinstance(x, (list, tuple)):
        return [show(i) for i in x]
    return x


def norm(path):
    """a step is a set of tensors: compare up to the order inside a step"""
    return [tuple(sorted(int(i) for i in step)) for step in path]


def plain(path):
    return [[int(i) for i in step] for step in path]


# --------------------------------------------------------------------------- #
#                     independent models local to this check                  #
# --------------------------------------------------------------------------- #


def steps_of(n, path, ssa):
    """[(new node, frozenset of the nodes it merges)] for a valid path"""
    out = []
    if ssa:
        nodes = {i: frozenset([i]) for i in range(n)}
        nxt = n
        for step in path:
            kids = frozenset(nodes.pop(i) for i in step)
            new = frozenset().union(*kids)
            nodes[nxt] = new
            nxt += 1
            out.append((new, kids))
        return out
    cur = [frozenset([i]) for i in range(n)]
    for step in path:
        kids = frozenset(cur[i] for i in step)
        for i in sorted(step, reverse=True):
            cur.pop(i)
        new = frozenset().union(*kids)
        cur.append(new)
        out.append((new, kids))
    return out


def edge_sim(edge_path, inputs, output, true_legs):
    """The statement, directly: walk the index order; the tensors that carry the index now
    are contracted into one, if there are two or more.  ``true_legs``: a tensor carries an
    index iff one of its leaves has it and it also lives outside (another tensor or the
    output); otherwise: iff one of its leaves has it.  Both readings give the same steps
    (an index summed inside a tensor sits on at most that one tensor) - checked per case."""
    appear = {}
    for t in inputs:
        for ix in set(t):
            appear[ix] = appear.get(ix, 0) + 1
    cur = [(frozenset([i]), {ix: 1 for ix in t}) for i, t in enumerate(inputs)]
    steps = []
    for ix in edge_path:
        hit = [t for t in cur if ix in t[1]]
        if len(hit) < 2:
            continue
        node = frozenset().union(*(h[0] for h in hit))
        cnt = {}
        for h in hit:
            for jx, c in h[1].items():
                cnt[jx] = cnt.get(jx, 0) + c
        if true_legs:
            cnt = {jx: c for jx, c in cnt.items() if c < appear[jx] or jx in output}
        cur = [t for t in cur if ix not in t[1]] + [(node, cnt)]
        steps.append((ix, node, frozenset(h[0] for h in hit)))
    return steps


def random_linear_path(rng, n, complete=True, p1=0.1, p3=0.2):
    cur, path = n, []
    while cur > 1:
        if not complete and path and rng.random() < 0.15:
            break
        r = rng.random()
        k = 1 if r < p1 else (rng.randint(3, 5) if r < p1 + p3 else 2)
        k = min(k, cur)
        path.append(tuple(rng.sample(range(cur), k)))
        cur -= k - 1
    if not complete and cur == 1 and path:
        path.pop()
    return path


def random_ssa_path(rng, n, complete=True, p1=0.1, p3=0.2):
    alive, nxt, path = list(range(n)), n, []
    while len(alive) > 1:
        if not complete and path and rng.random() < 0.15:
            break
        r = rng.random()
        k = 1 if r < p1 else (rng.randint(3, 5) if r < p1 + p3 else 2)
        k = min(k, len(alive))
        step = rng.sample(alive, k)
        for i in step:
            alive.remove(i)
        alive.append(nxt)
        nxt += 1
        path.append(tuple(step))
    if not complete and len(alive) == 1 and path:
        path.pop()
    return path


def random_linear_extension(ch, rng):
    """a uniformly-ish random children-first order of the internal nodes of ``ch``"""
    parent_of = {}
    for p, (l, r) in ch.items():
        parent_of[l] = p
        parent_of[r] = p
    done = set()
    ready = sorted((p for p, (l, r) in ch.items() if len(l) == 1 and len(r) == 1), key=sorted)
    order = []
    while ready:
        p = ready.pop(rng.randrange(len(ready)))
        order.append(p)
        done.add(p)
        q = parent_of.get(p)
        if q is not None and all(len(c) == 1 or c in done for c in ch[q]):
            ready.append(q)
    return order


def all_indices(net):
    seen = []
    for t in net.inputs:
        for ix in t:
            if ix not in seen:
                seen.append(ix)
    return sorted(seen)


# --------------------------------------------------------------------------- #
#                                  orders                                     #
# --------------------------------------------------------------------------- #


def make_order(kind, tree, cs, ch):
    """-> (order argument, expected node sequence or None)"""
    if kind == "none":
        return None, None
    if kind == "dfs":
        return "dfs", None
    if kind == "surface":
        return "surface_order", None
    if kind in ("rand", "randcoarse"):
        memo = {}

        def order(node):
            k = tuple(sorted(node))
            if k not in memo:
                r = rng_for(cs, "order", kind, k)
                memo[k] = r.random() if kind == "rand" else r.randint(0, 2)
            return memo[k]

        return order, None
    if kind == "const":
        return (lambda node: 0), None
    if kind == "size":
        return (lambda node: tree.get_size(node)), None
    if kind == "adversarial":
        # every parent scores strictly lower than its children
        return (lambda node: -len(node)), None
    if kind == "negmin":
        return (lambda node: -min(node)), None
    if kind == "parity":
        return (lambda node: len(node) % 2), None
    if kind == "tuple":
        return (lambda node: (len(node) % 3, -max(node))), None
    if kind == "topo":
        seq = random_linear_extension(ch, rng_for(cs, "order", "topo"))
        score = {p: k for k, p in enumerate(seq)}
        return (lambda node: score[frozenset(node)]), seq
    raise ValueError(kind)


# --------------------------------------------------------------------------- #
#                               the monitors                                  #
# --------------------------------------------------------------------------- #


def check_traversal(rep, trav, ch, n):
    done = {frozenset([i]) for i in range(n)}
    seen = set()
    for k, (p, l, r) in enumerate(trav):
        need(p in ch, "traverse", lambda: f"traverse step {k} yields {show(p)} which is not an internal node", show(trav))
        need({l, r} == set(ch[p]), "traverse", lambda: f"traverse step {k}: children {show(l)},{show(r)} are not the node's children", show(trav))
        need(p not in seen, "traverse", lambda: f"traverse yields {show(p)} twice", show(trav))
        need(l in done and r in done, "children_first", lambda: f"traverse step {k} yields parent {show(p)} before a child", show(trav))
        seen.add(p)
        done.add(p)
    need(len(seen) == len(ch), "traverse", lambda: f"traverse yields {len(seen)} of {len(ch)} internal nodes", show(trav))
    rep.mon("traverse_valid")


def check_emitted(rep, n, path, ssa, want, seq, what):
    fmt = "ssa" if ssa else "linear"
    need(
        isinstance(path, tuple) and all(isinstance(s, tuple) and len(s) == 2 for s in path),
        "path_shape",
        lambda: f"{what} is not a tuple of pairs: {path!r:.300}",
        repr(path)[:500],
    )
    msg = (ref.check_ssa_path if ssa else ref.check_linear_path)(n, path)
    need(msg is None, "children_first", lambda: f"{what} is not a valid {fmt} path (an id is used before it exists / path incomplete): {msg}", plain(path))
    nodes = ref.path_to_nodes(n, path, ssa=ssa)
    need(set(nodes) == want and len(nodes) == len(want), "path_nodes", lambda: f"{what} creates nodes {show(set(nodes) - want)} not in the tree / misses {show(want - set(nodes))}", plain(path))
    need(nodes == seq, "path_follows_traverse", lambda: f"{what} does not follow traverse(order): {show(nodes)} vs {show(seq)}", plain(path))
    rep.mon("path_valid_" + fmt)


def check_rebuild(rep, net, want, what, **kw):
    t = call(f"from_path({what})", ContractionTree.from_path, net.inputs, net.output, net.size_dict, **kw)
    ch = ct.children_of(t)
    got = set(ch)
    off = plain(next(iter(kw.values())))
    need(got == want, "roundtrip", lambda: f"from_path({what}) has nodes {show(got - want)} not in the tree, misses {show(want - got)}", off)
    msg = ref.check_tree_struct(net.N, ch)
    need(msg is None, "roundtrip", lambda: f"from_path({what}) is not a complete tree: {msg}", off)


def check_pair_linear(rep, n, p, complete, mon):
    model = norm(ref.linear_to_ssa_model(p, n))
    variants = [("N", n)] + ([("None", None)] if complete else [])
    for tag, N in variants:
        s = call("linear_to_ssa", pb.linear_to_ssa, p, N)
        need(norm(s) == model, "linear_to_ssa_vs_model", lambda: f"linear_to_ssa(p, N={tag}) = {plain(s)} but the reference conversion is {model} (n={n})", plain(p))
        msg = ref.check_ssa_path(n, s, allow_incomplete=not complete)
        need(msg is None, "linear_to_ssa_vs_model", lambda: f"linear_to_ssa(p, N={tag}) = {plain(s)} is not a valid ssa path: {msg}", plain(p))
        need(ref.path_to_nodes(n, s, ssa=True) == ref.path_to_nodes(n, p), "linear_to_ssa_vs_model", f"linear_to_ssa(p, N={tag}) contracts other tensors than p", plain(p))
        back = call("ssa_to_linear", pb.ssa_to_linear, s, N)
        need(norm(back) == norm(p), "inverse_pair", lambda: f"ssa_to_linear(linear_to_ssa(p), N={tag}) = {plain(back)} != p (n={n})", plain(p))
    rep.mon(mon)


def check_pair_ssa(rep, n, s, complete, mon):
    model = norm(ref.ssa_to_linear_model(s, n))
    variants = [("N", n)] + ([("None", None)] if complete else [])
    for tag, N in variants:
        p = call("ssa_to_linear", pb.ssa_to_linear, s, N)
        need(norm(p) == model, "ssa_to_linear_vs_model", lambda: f"ssa_to_linear(s, N={tag}) = {plain(p)} but the reference conversion is {model} (n={n})", plain(s))
        msg = ref.check_linear_path(n, p, allow_incomplete=not complete)
        need(msg is None, "ssa_to_linear_vs_model", lambda: f"ssa_to_linear(s, N={tag}) = {plain(p)} is not a valid linear path: {msg}", plain(s))
        need(ref.path_to_nodes(n, p) == ref.path_to_nodes(n, s, ssa=True), "ssa_to_linear_vs_model", f"ssa_to_linear(s, N={tag}) contracts other tensors than s", plain(s))
        back = call("linear_to_ssa", pb.linear_to_ssa, p, N)
        need(norm(back) == norm(s), "inverse_pair", lambda: f"linear_to_ssa(ssa_to_linear(s), N={tag}) = {plain(back)} != s (n={n})", plain(s))
    rep.mon(mon)


def check_partial(rep, net, path, fmt, dictated, pairwise, what):
    """from_path on an incomplete / mixed-arity path: autocomplete=True -> complete tree that
    contains every node the path dictates; autocomplete=False -> exactly the dictated nodes
    (plus, below a >=3-tensor step, nodes inside it)."""
    n = net.N
    kw = {"path" if fmt == "linear" else "ssa_path": [tuple(s) for s in path]}
    dictated = {d for d in dictated if len(d) > 1}
    t = call(f"from_path({what}, autocomplete=True)", ContractionTree.from_path, net.inputs, net.output, net.size_dict, autocomplete=True, **kw)
    ch = ct.children_of(t)
    msg = ref.check_tree_struct(n, ch)
    need(msg is None, "autocomplete", lambda: f"from_path({what}, autocomplete=True) is not a complete tree: {msg}", plain(path))
    need(dictated <= set(ch), "autocomplete", lambda: f"from_path({what}, autocomplete=True) lacks nodes {show(dictated - set(ch))} dictated by the path", plain(path))
    t = call(f"from_path({what}, autocomplete=False)", ContractionTree.from_path, net.inputs, net.output, net.size_dict, autocomplete=False, **kw)
    keys = set(ct.children_of(t))
    need(dictated <= keys, "no_autocomplete", lambda: f"from_path({what}, autocomplete=False) lacks nodes {show(dictated - keys)}", plain(path))
    extra = keys - dictated
    if pairwise:
        need(not extra, "no_autocomplete", lambda: f"from_path({what}, autocomplete=False) has nodes {show(extra)} the path never creates", plain(path))
    else:
        need(all(any(k < d for d in dictated) for k in extra), "no_autocomplete", lambda: f"from_path({what}, autocomplete=False) has nodes {show(extra)} outside every step", plain(path))


def run_tree(rep, case):
    net = gen.Net.from_json(case["net"])
    ssa = [tuple(s) for s in case["ssa"]]
    kind = case["order"]
    cs = case["case_seed"]
    n = net.N
    model_ch = ref.ssa_to_children(n, ssa)
    want = set(model_ch)
    seq = None
    if kind == "compressed":
        tree = call("ContractionTreeCompressed.from_path(ssa_path)", ContractionTreeCompressed.from_path, net.inputs, net.output, net.size_dict, ssa_path=ssa)
        order, seq = None, ref.path_to_nodes(n, ssa, ssa=True)
    elif kind == "compressed_lin":
        lin = ref.ssa_to_linear_model(ssa, n)
        tree = call("ContractionTreeCompressed.from_path(path)", ContractionTreeCompressed.from_path, net.inputs, net.output, net.size_dict, path=lin)
        order, seq = None, ref.path_to_nodes(n, ssa, ssa=True)
    else:
        tree = call("from_path(ssa_path)", ct.make_tree, net, ssa)
    ch = ct.children_of(tree)
    need(set(ch) == want and all(set(ch[p]) == set(model_ch[p]) for p in ch), "build", lambda: f"from_path(ssa_path) built nodes {show(set(ch))}, the path says {show(want)}", plain(ssa))
    rep.mon("build_vs_model")
    if kind not in ("compressed", "compressed_lin"):
        order, seq = make_order(kind, tree, cs, ch)

    trav = call("traverse(order)", lambda: [(frozenset(p), frozenset(l), frozenset(r)) for p, l, r in tree.traverse(order)])
    check_traversal(rep, trav, ch, n)
    tseq = [p for p, _, _ in trav]
    if seq is not None:
        need(tseq == seq, "order_fidelity", lambda: f"order is a strict linear extension (child < parent, distinct scores) but traverse(order) is not the score order: got {show(tseq)}, order says {show(seq)}", show(tseq))
        rep.mon("order_fidelity")

    p = call("get_path(order)", tree.get_path, order)
    check_emitted(rep, n, p, False, want, tseq, "get_path(order)")
    s = call("get_ssa_path(order)", tree.get_ssa_path, order)
    check_emitted(rep, n, s, True, want, tseq, "get_ssa_path(order)")

    check_rebuild(rep, net, want, "path=get_path(order)", path=p)
    rep.mon("roundtrip_linear")
    check_rebuild(rep, net, want, "ssa_path=get_ssa_path(order)", ssa_path=s)
    rep.mon("roundtrip_ssa")

    check_pair_linear(rep, n, p, True, "inverse_linear")
    check_pair_ssa(rep, n, s, True, "inverse_ssa")
    need(norm(call("linear_to_ssa", pb.linear_to_ssa, p, n)) == norm(s), "inverse_pair", "linear_to_ssa(get_path(order)) is not get_ssa_path(order)", plain(p))
    need(norm(call("ssa_to_linear", pb.ssa_to_linear, s, n)) == norm(p), "inverse_pair", "ssa_to_linear(get_ssa_path(order)) is not get_path(order)", plain(s))

    # prefixes = incomplete paths
    if not case.get("prefix", True):
        return
    rng = rng_for(cs, "prefix", kind)
    k = rng.randint(0, len(p) - 1)
    check_partial(rep, net, p[:k], "linear", set(tseq[:k]), True, "path=prefix")
    k = rng.randint(0, len(p) - 1)
    check_partial(rep, net, s[:k], "ssa", set(tseq[:k]), True, "ssa_path=prefix")
    rep.mon("incomplete_autocomplete")


def run_pair(rep, case):
    n = case["n"]
    path = [tuple(s) for s in case["path"]]
    complete = case["complete"]
    multi = any(len(s) != 2 for s in path)
    if case["fmt"] == "linear":
        msg = ref.check_linear_path(n, path, allow_incomplete=not complete)
        if msg:
            rep.inconclusive_case(f"generator produced an invalid linear path: {msg}")
            return
        check_pair_linear(rep, n, path, complete, "inverse_linear_multi" if multi else "inverse_linear")
    else:
        msg = ref.check_ssa_path(n, path, allow_incomplete=not complete)
        if msg:
            rep.inconclusive_case(f"generator produced an invalid ssa path: {msg}")
            return
        check_pair_ssa(rep, n, path, complete, "inverse_ssa_multi" if multi else "inverse_ssa")


def run_edge(rep, case):
    net = gen.Net.from_json(case["net"])
    edge_path = list(case["edge_path"])
    n = net.N
    sim = edge_sim(edge_path, net.inputs, net.output, True)
    sim2 = edge_sim(edge_path, net.inputs, net.output, False)
    if sim != sim2:
        rep.inconclusive_case(f"edge model readings disagree on {net.eq()} {edge_path}")
        return
    want = [(node, kids) for _, node, kids in sim]
    hyper = any(len(kids) > 2 for _, kids in want)

    def cmp(steps, what, path):
        for k, (got, exp) in enumerate(zip(steps, sim)):
            need(
                got == (exp[1], exp[2]),
                "edge_step",
                lambda: f"{what}: emitted step {k} contracts tensors {show(got[1])} but index {exp[0]!r} is carried by {show(exp[2])} at that moment",
                plain(path),
            )
        need(len(steps) == len(sim), "edge_step", lambda: f"{what}: {len(steps)} steps emitted, {len(sim)} indices are carried by >=2 tensors when their turn comes ({[s[0] for s in sim]})", plain(path))

    s = call("edge_path_to_ssa", pb.edge_path_to_ssa, edge_path, net.inputs)
    msg = ref.check_ssa_path(n, s, allow_incomplete=True)
    need(msg is None, "edge_invalid", lambda: f"edge_path_to_ssa gives an invalid ssa path {plain(s)}: {msg}", plain(s))
    cmp(steps_of(n, s, True), "edge_path_to_ssa", s)
    lin = call("edge_path_to_linear", pb.edge_path_to_linear, edge_path, net.inputs)
    msg = ref.check_linear_path(n, lin, allow_incomplete=True)
    need(msg is None, "edge_invalid", lambda: f"edge_path_to_linear gives an invalid linear path {plain(lin)}: {msg}", plain(lin))
    cmp(steps_of(n, lin, False), "edge_path_to_linear", lin)
    rep.mon("edge_steps")
    if hyper:
        rep.mon("edge_steps_hyper")
    if case.get("tree"):
        t = call("from_path(edge_path, autocomplete=True)", ContractionTree.from_path, net.inputs, net.output, net.size_dict, edge_path=edge_path, autocomplete=True)
        ch = ct.children_of(t)
        msg = ref.check_tree_struct(n, ch)
        need(msg is None, "edge_tree", lambda: f"from_path(edge_path, autocomplete=True) is not a complete tree: {msg}", plain(s))
        miss = {node for node, _ in want} - set(ch)
        need(not miss, "edge_tree", lambda: f"from_path(edge_path, autocomplete=True) lacks the nodes {show(miss)} the edge path dictates", plain(s))
        rep.mon("edge_tree_complete")


def run_mixed(rep, case):
    net = gen.Net.from_json(case["net"])
    path = [tuple(s) for s in case["path"]]
    n = net.N
    ssa = case["fmt"] == "ssa"
    msg = (ref.check_ssa_path if ssa else ref.check_linear_path)(n, path, allow_incomplete=True)
    if msg:
        rep.inconclusive_case(f"generator produced an invalid path: {msg}")
        return
    dictated = set(ref.path_to_nodes(n, path, ssa=ssa))
    pairwise = all(len(s) <= 2 for s in path)
    check_partial(rep, net, path, case["fmt"], dictated, pairwise, f"{case['fmt']} path with steps of {sorted({len(s) for s in path})} tensors")
    rep.mon("mixed_from_path")


MODES = {"tree": run_tree, "pair": run_pair, "edge": run_edge, "mixed": run_mixed}


def execute(rep, case):
    """-> None | Fail | 'timeout'"""
    try:
        with time_limit(OP_LIMIT):
            MODES[case["mode"]](rep, case)
    except Fail as f:
        return f
    except OpTimeout as e:
        rep.inconclusive_case(f"{case['mode']} case {case.get('case_seed')}: {e}")
    return None


def run_case(rep, case, key, nontrivial, cls, sample=None):
    rep.case(key, nontrivial, cls, sample=sample)
    f = execute(rep, case)
    if f is not None:
        w = dict(case)
        w["monitor"] = f.kind
        w["offending_path"] = f.offending
        rep.violation(f.kind, w, f"[{case['mode']}] {describe(case)}: {f.msg}")
        return False
    return True


def describe(case):
    if "net" in case:
        net = gen.Net.from_json(case["net"])
        d = f"{net.cls} {net.eq()}"
    else:
        d = f"n={case['n']}"
    for k in ("ssa", "order", "fmt", "path", "edge_path", "complete"):
        if k in case:
            d += f" {k}={case[k]}"
    return d[:600]


# --------------------------------------------------------------------------- #
#                                 workloads                                   #
# --------------------------------------------------------------------------- #


def tree_cases(rep, net, ssa, cs, cls=None):
    nj = net.to_json()
    ssa = [list(s) for s in ssa]
    tkey = tuple(map(tuple, ssa))
    for kind in ORDER_KINDS:
        case = {"mode": "tree", "net": nj, "ssa": ssa, "order": kind, "case_seed": cs}
        if cls == "alltrees":
            # the (4 extra tree builds of the) prefix monitor only for three kinds per tree
            case["prefix"] = kind in ("none", "adversarial", "topo")
        rep.count("order_kind", kind)
        if net.N >= 4:
            rep.seen("tree_order_n4", (net.key(), tkey, kind))
        run_case(rep, case, ("tree", net.key(), tkey, kind), net.N >= 4, cls or net.cls, sample={"eq": net.eq(), "ssa": ssa, "order": kind})


def edge_cases(rep, net, rng, cs, tier, dl):
    inds = all_indices(net)
    nj = net.to_json()
    m = len(inds)
    ntree = budget(tier, 12, 60)

    def one(ep, tree):
        case = {"mode": "edge", "net": nj, "edge_path": list(ep), "tree": tree, "case_seed": cs}
        run_case(rep, case, ("edge", net.key(), tuple(ep)), net.N >= 4, "edge:" + net.cls, sample={"eq": net.eq(), "edge_path": list(ep)})

    if m <= 6:
        k = 0
        stride = max(1, _fact(m) // ntree)
        complete = True
        for k, ep in enumerate(itertools.permutations(inds)):
            if dl.expired():
                complete = False
                break
            one(ep, k % stride == 0)
        if complete:
            rep.mon("edge_perms_exhaustive")
            rep.mon("edge_perms_enumerated", _fact(m))
            rep.count("edge_exhaustive_nindices", m)
    else:
        for k in range(budget(tier, 12, 60)):
            ep = list(inds)
            rng.shuffle(ep)
            one(ep, k < ntree)
        rep.count("edge_random_nindices", min(m, 30))
    # partial edge paths
    for k in range(budget(tier, 4, 12)):
        ep = rng.sample(inds, rng.randint(0, max(0, m - 1)))
        one(ep, True)
        rep.mon("edge_partial")


def _fact(m):
    f = 1
    for i in range(2, m + 1):
        f *= i
    return f


def run_shard(rep, tier, seed, shard, nshards):
    import time

    t0 = [time.time()]

    def lap(name):
        rep.count("workload_seconds_summed_over_shards", name, int(round(time.time() - t0[0])))
        t0[0] = time.time()

    # -- A: (network, random tree) x all order kinds
    dl = Deadline(budget(tier, 12, 100))
    for k in range(budget(tier, 200, 3000)):
        if dl.expired():
            break
        cs = f"{seed}/C10/{shard}/tree/{k}"
        rng = rng_for(cs)
        net = gen.network(rng, 2, 12, cap=10**9)
        ssa = gen.random_ssa(rng, net.N)
        tree_cases(rep, net, ssa, cs)

    lap('A_tree')
    # -- B: ALL trees of small networks x all order kinds
    dl = Deadline(budget(tier, 12, 150))
    nmax = budget(tier, 5, 6)
    for k in range(budget(tier, 10, 40)):
        if dl.expired():
            break
        cs = f"{seed}/C10/{shard}/all/{k}"
        rng = rng_for(cs)
        n = 3 + (shard + k) % (nmax - 2)
        net = gen.network(rng, n, n, cap=10**9)
        if net.N > nmax or net.N < 2:
            continue
        n = net.N
        ntrees = 0
        complete = True
        for ch in ref.all_trees(n):
            if dl.expired():
                complete = False
                break
            tree_cases(rep, net, ref.children_to_ssa(n, ch), cs, cls="alltrees")
            ntrees += 1
        if complete:
            need_n = ref.num_trees(n)
            if ntrees != need_n:
                rep.inconclusive_case(f"all_trees({n}) produced {ntrees} != {need_n}")
            rep.mon("all_trees_enumerated", ntrees)
            rep.count("all_trees_networks", n)

    lap('B_alltrees')
    # -- C: independently generated linear / ssa paths through the converters
    dl = Deadline(budget(tier, 5, 30))
    for k in range(budget(tier, 4000, 40000)):
        if dl.expired():
            break
        cs = f"{seed}/C10/{shard}/pair/{k}"
        rng = rng_for(cs)
        n = rng.randint(1, 14)
        complete = rng.random() < 0.6
        fmt = rng.choice(["linear", "ssa"])
        p1, p3 = rng.choice([(0.0, 0.0), (0.1, 0.2), (0.2, 0.4), (0.0, 0.5)])
        path = (random_linear_path if fmt == "linear" else random_ssa_path)(rng, n, complete, p1, p3)
        case = {"mode": "pair", "n": n, "path": [list(s) for s in path], "fmt": fmt, "complete": complete, "case_seed": cs}
        rep.count("pair_step_sizes", ",".join(map(str, sorted({len(s) for s in path}))))
        run_case(rep, case, ("pair", n, fmt, complete, tuple(path)), n >= 4, "pair:" + fmt, sample=case)

    lap('C_pair')
    # -- D: edge paths
    dl = Deadline(budget(tier, 10, 70))
    for k in range(budget(tier, 300, 3000)):
        if dl.expired():
            break
        cs = f"{seed}/C10/{shard}/edge/{k}"
        rng = rng_for(cs)
        if k % 2:
            # small networks with few indices: exhaustive permutations, many hyper indices
            net = gen.network(rng, 2, 6, cap=10**9, classes=("hyper", "perverse", "hadamard", "batch", "graph", "chain", "outer", "disconnected"))
        else:
            net = gen.network(rng, 2, 12, cap=10**9)
        edge_cases(rep, net, rng, cs, tier, dl)

    lap('D_edge')
    # -- E: from_path on mixed-arity / incomplete paths
    dl = Deadline(budget(tier, 8, 40))
    for k in range(budget(tier, 800, 8000)):
        if dl.expired():
            break
        cs = f"{seed}/C10/{shard}/mixed/{k}"
        rng = rng_for(cs)
        net = gen.network(rng, 2, 10, cap=10**9)
        complete = rng.random() < 0.5
        fmt = rng.choice(["linear", "ssa"])
        p1, p3 = rng.choice([(0.1, 0.2), (0.2, 0.3), (0.0, 0.0)])
        path = (random_linear_path if fmt == "linear" else random_ssa_path)(rng, net.N, complete, p1, p3)
        case = {"mode": "mixed", "net": net.to_json(), "path": [list(s) for s in path], "fmt": fmt, "case_seed": cs}
        run_case(rep, case, ("mixed", net.key(), fmt, tuple(path)), net.N >= 4, "mixed:" + net.cls, sample={"eq": net.eq(), "path": case["path"], "fmt": fmt})
    lap("E_mixed")


def replay(rep, v):
    case = v["witness"]
    f = execute(rep, case)
    if f is not None:
        rep.violation(f.kind, case, f"[{case['mode']}] {describe(case)}: {f.msg}")


def finalize(rep, tier):
    return {"order_kinds": list(ORDER_KINDS)}
