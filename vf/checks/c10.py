"""C10 - path formats convert into each other and into trees without loss.

Five workloads, every one decided by models that share no code with cotengra (vf/ref.py and
the few helpers below):

tree     T = from_path(ssa_path) of a generated (network, tree); for every order kind o:
         T.traverse(o) visits each internal node exactly once, children first;
         T.get_path(o) / T.get_ssa_path(o) are valid pairwise paths (ref.check_*_path: every id
         used already exists = children before parents) that create exactly T's nodes, in the
         order traverse(o) gives; from_path(path=...) and from_path(ssa_path=...) rebuild the same
         node set; linear<->ssa converters are inverse on them and agree with the reference
         converters; prefixes of the paths autocomplete to complete trees containing the prefix.
         For orders that are *strict linear extensions* of the tree (every child scored below its
         parent, all scores distinct: kinds 'topo', 'compressed*') the emitted order must be the
         score order (that is what "a path under that traversal order" means when it is unambiguous;
         ContractionTreeCompressed.from_path documents it: "set the default 'surface' traversal
         ordering to be the initial path").
alltrees the same, for ALL (2n-3)!! trees of a network with n <= 5 (thorough: 6) tensors.
pair     independently generated linear / ssa paths (steps of 1, 2, 3+ tensors, arbitrary order
         inside a step, complete and incomplete): converters vs reference converters, inverse pair
         up to the order inside a step (the converters normalise it: same contraction), validity
         and node sequence of the converted path.
edge     edge_path_to_ssa / edge_path_to_linear vs a direct simulation ("contract the tensors
         that carry the index now, if there are two or more"); ALL permutations of the index set
         when a network has <= 6 indices, seeded permutations and partial orders beyond;
         from_path(edge_path=..., autocomplete=True) is complete and contains the simulated nodes.
mixed    from_path on independently generated paths with 1- and >=3-tensor steps, complete or not,
         autocomplete True / False.

Widened (the other getters / constructors / helpers that speak a path format):

tree     additionally, for the same (tree, order): get_numpy_path(order) = ['einsum_path', *valid
         linear path creating T's nodes in traverse(order)]; flat_tree(order) brackets exactly T's
         nodes over the leaves 0..n-1; get_leaves_ordered() is a permutation of the leaves;
         get_path_surface() / get_ssa_path_surface() are valid, create T's nodes, follow
         traverse('surface_order') (resp. the default order of a ContractionTreeCompressed) and -
         the surface score always puts a child strictly below its parent - contract lower scores
         first (non-decreasing scores; ties free); ContractionTreeCompressed.from_path on an
         incomplete path - ssa_path= and linear path= - (autocomplete True / 'auto' / False) is
         complete / exactly the prefix and keeps the prefix at the head of its default order
         (networks without any index are left out: their completion is a path finder's business).
formats  one (network, tree) through: from_eq (same inputs / output, empty, then contracted by hand
         along the path -> same nodes from both path getters); get_eq / get_shapes and the four
         *_sliced getters against the network with the removed indices deleted, along a history
         of remove_ind (sliced or projected, in place or not, output indices included) and
         restore_ind, with get_path / get_ssa_path still describing the same nodes after every
         phase; eq_to_inputs_output(get_eq()) as the second route back; from_info on a real
         opt_einsum.PathInfo (a stand-in object with the four attributes for the empty path and
         for 15% of the cases) for complete / mixed-arity / incomplete paths; from_path(check=True)
         and autocomplete='auto'; the deprecated from_edge_path (autocomplete / check passed on);
         is_ssa_path on paths that are valid in exactly one of the two formats; and the interface:
         array_contract_path / array_contract_tree with optimize = explicit path | tree | edge
         path (tuple or list, canonicalize on / off, cache on / off: two calls; the empty edge path
         included).
Not driven: ContractionTree.get_spans (spanning-tree embeddings, no path format: the property
says nothing about it).
"""

import itertools
import traceback

from cotengra.core import ContractionTree, ContractionTreeCompressed
from cotengra.pathfinders import path_basic as pb

from .. import ct, gen, ref
from ..common import Deadline, OpTimeout, budget, rng_for, time_limit

PID = "C10"
LEVEL = "exploration"
RULE = (
    "seeded generator over 9 network classes (2-12 tensors) x random/caterpillar/balanced trees, plus ALL "
    "trees of networks with n<=5 (thorough 6) tensors, x 14 order kinds (None, 'dfs', 'surface_order', "
    "memoised random, coarse random with ties, constant, size, adversarial -len, -min leaf, len parity, "
    "tuple valued, random linear extension, ContractionTreeCompressed built from ssa / linear path); "
    "independently generated linear/ssa paths with 1/2/3+ tensor steps; edge paths = ALL permutations of "
    "the index set when <=6 indices, seeded permutations + partial orders beyond. distinct = distinct "
    "(network, tree, order kind) | (n, path, format) | (network, edge path) | (network, path, format); "
    "non-trivial = >=4 tensors (distinct_tree_order_n4 counts the (network, tree, order kind) cases alone). "
    "Widened: every (network, tree, order kind) also through get_numpy_path / flat_tree / get_leaves_ordered / "
    "get_path_surface / get_ssa_path_surface (+ incomplete prefixes to ContractionTreeCompressed.from_path); a "
    "'formats' workload per (network 2-12 tensors, random tree): slicing history (0-3 remove_ind, sliced or "
    "projected, in place or copy, then 0..all restore_ind) x equation / shape getters, from_eq, from_info "
    "(opt_einsum PathInfo or stand-in; complete / mixed arity / incomplete), from_path(check=True, "
    "autocomplete='auto'), from_edge_path, is_ssa_path (either format, steps listed either way, cut short), "
    "interface routes path_explicit / path_tree / path_edge / tree_explicit / tree_edge x canonicalize x cache x "
    "list|tuple (edge paths: full permutation, cut short, or empty - also under canonicalize=True); incomplete "
    "prefixes go to ContractionTreeCompressed.from_path as ssa_path= (kind compressed) and as linear path= (kind "
    "compressed_lin)"
)
ASSUMPTIONS = [
    "vf/ref.py path models (check_linear_path, check_ssa_path, path_to_nodes, linear_to_ssa_model, "
    "ssa_to_linear_model, ssa_to_children, all_trees) are the definitions",
    "order callables are pure functions of the node (memoised); a non-deterministic callable is not admissible",
    "order fidelity is only demanded for strict linear extensions, where 'the order that minimises order(node) "
    "subject to children first' is unique",
    "edge paths: distinct indices that occur on some input (anything else raises KeyError: outside the domain)",
    "surface getters: the scores are read through tree.surface_order itself (the order callable is an input); "
    "non-decreasing scores are demanded only when every child scores strictly below its parent (checked per case)",
    "sliced getters: the reference is the generated network with the removed indices deleted (vf-side list "
    "comprehension); remove_ind / restore_ind only set the state up (a failure there = inconclusive case, slicing "
    "is another property)",
    "from_info: opt_einsum.contract_path(eq, *shapes, shapes=True, optimize=path) is trusted to return a PathInfo "
    "that carries the given path (checked; otherwise the stand-in object is used)",
    "is_ssa_path: demanded only for paths valid in exactly one format (vf/ref.py validators, incomplete allowed); "
    "all such paths are generated, steps listed either way round (is_ssa_true_input_id_first counts the ssa paths "
    "whose last step starts with an input id)",
    "scope: the compressed completion ('greedy-compressed' path finder) of a network without any index (empty "
    "size_dict) is not a path-format conversion; such networks are not given to compressed_prefix",
]
REQUIRED_MONITORS = [
    "build_vs_model",
    "traverse_valid",
    "path_valid_linear",
    "path_valid_ssa",
    "roundtrip_linear",
    "roundtrip_ssa",
    "order_fidelity",
    "inverse_linear",
    "inverse_ssa",
    "inverse_linear_multi",
    "inverse_ssa_multi",
    "edge_steps",
    "edge_steps_hyper",
    "edge_tree_complete",
    "incomplete_autocomplete",
    "mixed_from_path",
    "all_trees_enumerated",
    "edge_perms_exhaustive",
    # widened
    "numpy_path",
    "flat_tree",
    "leaves_ordered",
    "surface_paths",
    "surface_sorted",
    "compressed_prefix",
    "compressed_prefix_linear",
    "is_ssa_true_input_id_first",
    "iface_empty_path_canonicalize",
    "from_eq",
    "eq_roundtrip",
    "eq_getters",
    "sliced_getters",
    "sliced_getters_output_index",
    "restored_getters",
    "sliced_paths",
    "from_info",
    "from_path_check",
    "from_path_auto",
    "from_edge_path",
    "is_ssa_true",
    "is_ssa_false",
    "iface_path_explicit",
    "iface_path_tree",
    "iface_path_edge",
    "iface_tree_explicit",
    "iface_tree_edge",
]
SHARD_TIMEOUT = {"quick": 400, "thorough": 3600}
EXHAUSTIVE = None
OP_LIMIT = 20

ORDER_KINDS = (
    "none",
    "dfs",
    "surface",
    "rand",
    "randcoarse",
    "const",
    "size",
    "adversarial",
    "negmin",
    "parity",
    "tuple",
    "topo",
    "compressed",
    "compressed_lin",
)
LINEAR_EXTENSIONS = ("topo", "compressed", "compressed_lin")


def nshards(tier):
    return 16


def classify(v):
    return None


class Fail(Exception):
    def __init__(self, kind, msg, offending=None):
        super().__init__(msg)
        self.kind, self.msg, self.offending = kind, msg, offending


def need(cond, kind, msg, offending=None):
    if not cond:
        raise Fail(kind, msg() if callable(msg) else msg, offending)


def call(what, fn, *a, **kw):
    """a library call whose result the property promises: an exception is a violation"""
    try:
        return fn(*a, **kw)
    except OpTimeout:
        raise
    except Exception as e:
        raise Fail("raises", f"{what}: {type(e).__name__}: {e} | {traceback.format_exc()[-500:]}")


def show(x):
    if isinstance(x, (set, frozenset)):
        items = [show(i) for i in x]
        try:
            return sorted(items)
        except TypeError:
            return items
    if isinstance(x, (list, tuple)):
        return [show(i) for i in x]
    return x


def norm(path):
    """a step is a set of tensors: compare up to the order inside a step"""
    return [tuple(sorted(int(i) for i in step)) for step in path]


def plain(path):
    return [[int(i) for i in step] for step in path]


# --------------------------------------------------------------------------- #
#                     independent models local to this check                  #
# --------------------------------------------------------------------------- #


def steps_of(n, path, ssa):
    """[(new node, frozenset of the nodes it merges)] for a valid path"""
    out = []
    if ssa:
        nodes = {i: frozenset([i]) for i in range(n)}
        nxt = n
        for step in path:
            kids = frozenset(nodes.pop(i) for i in step)
            new = frozenset().union(*kids)
            nodes[nxt] = new
            nxt += 1
            out.append((new, kids))
        return out
    cur = [frozenset([i]) for i in range(n)]
    for step in path:
        kids = frozenset(cur[i] for i in step)
        for i in sorted(step, reverse=True):
            cur.pop(i)
        new = frozenset().union(*kids)
        cur.append(new)
        out.append((new, kids))
    return out


def edge_sim(edge_path, inputs, output, true_legs):
    """The statement, directly: walk the index order; the tensors that carry the index now
    are contracted into one, if there are two or more.  ``true_legs``: a tensor carries an
    index iff one of its leaves has it and it also lives outside (another tensor or the
    output); otherwise: iff one of its leaves has it.  Both readings give the same steps
    (an index summed inside a tensor sits on at most that one tensor) - checked per case."""
    appear = {}
    for t in inputs:
        for ix in set(t):
            appear[ix] = appear.get(ix, 0) + 1
    cur = [(frozenset([i]), {ix: 1 for ix in t}) for i, t in enumerate(inputs)]
    steps = []
    for ix in edge_path:
        hit = [t for t in cur if ix in t[1]]
        if len(hit) < 2:
            continue
        node = frozenset().union(*(h[0] for h in hit))
        cnt = {}
        for h in hit:
            for jx, c in h[1].items():
                cnt[jx] = cnt.get(jx, 0) + c
        if true_legs:
            cnt = {jx: c for jx, c in cnt.items() if c < appear[jx] or jx in output}
        cur = [t for t in cur if ix not in t[1]] + [(node, cnt)]
        steps.append((ix, node, frozenset(h[0] for h in hit)))
    return steps


def random_linear_path(rng, n, complete=True, p1=0.1, p3=0.2):
    cur, path = n, []
    while cur > 1:
        if not complete and path and rng.random() < 0.15:
            break
        r = rng.random()
        k = 1 if r < p1 else (rng.randint(3, 5) if r < p1 + p3 else 2)
        k = min(k, cur)
        path.append(tuple(rng.sample(range(cur), k)))
        cur -= k - 1
    if not complete and cur == 1 and path:
        path.pop()
    return path


def random_ssa_path(rng, n, complete=True, p1=0.1, p3=0.2):
    alive, nxt, path = list(range(n)), n, []
    while len(alive) > 1:
        if not complete and path and rng.random() < 0.15:
            break
        r = rng.random()
        k = 1 if r < p1 else (rng.randint(3, 5) if r < p1 + p3 else 2)
        k = min(k, len(alive))
        step = rng.sample(alive, k)
        for i in step:
            alive.remove(i)
        alive.append(nxt)
        nxt += 1
        path.append(tuple(step))
    if not complete and len(alive) == 1 and path:
        path.pop()
    return path


def random_linear_extension(ch, rng):
    """a uniformly-ish random children-first order of the internal nodes of ``ch``"""
    parent_of = {}
    for p, (l, r) in ch.items():
        parent_of[l] = p
        parent_of[r] = p
    done = set()
    ready = sorted((p for p, (l, r) in ch.items() if len(l) == 1 and len(r) == 1), key=sorted)
    order = []
    while ready:
        p = ready.pop(rng.randrange(len(ready)))
        order.append(p)
        done.add(p)
        q = parent_of.get(p)
        if q is not None and all(len(c) == 1 or c in done for c in ch[q]):
            ready.append(q)
    return order


def all_indices(net):
    seen = []
    for t in net.inputs:
        for ix in t:
            if ix not in seen:
                seen.append(ix)
    return sorted(seen)


# --------------------------------------------------------------------------- #
#                                  orders                                     #
# --------------------------------------------------------------------------- #


def make_order(kind, tree, cs, ch):
    """-> (order argument, expected node sequence or None)"""
    if kind == "none":
        return None, None
    if kind == "dfs":
        return "dfs", None
    if kind == "surface":
        return "surface_order", None
    if kind in ("rand", "randcoarse"):
        memo = {}

        def order(node):
            k = tuple(sorted(node))
            if k not in memo:
                r = rng_for(cs, "order", kind, k)
                memo[k] = r.random() if kind == "rand" else r.randint(0, 2)
            return memo[k]

        return order, None
    if kind == "const":
        return (lambda node: 0), None
    if kind == "size":
        return (lambda node: tree.get_size(node)), None
    if kind == "adversarial":
        # every parent scores strictly lower than its children
        return (lambda node: -len(node)), None
    if kind == "negmin":
        return (lambda node: -min(node)), None
    if kind == "parity":
        return (lambda node: len(node) % 2), None
    if kind == "tuple":
        return (lambda node: (len(node) % 3, -max(node))), None
    if kind == "topo":
        seq = random_linear_extension(ch, rng_for(cs, "order", "topo"))
        score = {p: k for k, p in enumerate(seq)}
        return (lambda node: score[frozenset(node)]), seq
    raise ValueError(kind)


# --------------------------------------------------------------------------- #
#                               the monitors                                  #
# --------------------------------------------------------------------------- #


def check_traversal(rep, trav, ch, n):
    done = {frozenset([i]) for i in range(n)}
    seen = set()
    for k, (p, l, r) in enumerate(trav):
        need(p in ch, "traverse", lambda: f"traverse step {k} yields {show(p)} which is not an internal node", show(trav))
        need({l, r} == set(ch[p]), "traverse", lambda: f"traverse step {k}: children {show(l)},{show(r)} are not the node's children", show(trav))
        need(p not in seen, "traverse", lambda: f"traverse yields {show(p)} twice", show(trav))
        need(l in done and r in done, "children_first", lambda: f"traverse step {k} yields parent {show(p)} before a child", show(trav))
        seen.add(p)
        done.add(p)
    need(len(seen) == len(ch), "traverse", lambda: f"traverse yields {len(seen)} of {len(ch)} internal nodes", show(trav))
    rep.mon("traverse_valid")


def check_emitted(rep, n, path, ssa, want, seq, what, mon=None):
    fmt = "ssa" if ssa else "linear"
    need(
        isinstance(path, tuple) and all(isinstance(s, tuple) and len(s) == 2 for s in path),
        "path_shape",
        lambda: f"{what} is not a tuple of pairs: {path!r:.300}",
        repr(path)[:500],
    )
    msg = (ref.check_ssa_path if ssa else ref.check_linear_path)(n, path)
    need(msg is None, "children_first", lambda: f"{what} is not a valid {fmt} path (an id is used before it exists / path incomplete): {msg}", plain(path))
    nodes = ref.path_to_nodes(n, path, ssa=ssa)
    need(set(nodes) == want and len(nodes) == len(want), "path_nodes", lambda: f"{what} creates nodes {show(set(nodes) - want)} not in the tree / misses {show(want - set(nodes))}", plain(path))
    need(seq is None or nodes == seq, "path_follows_traverse", lambda: f"{what} does not follow traverse(order): {show(nodes)} vs {show(seq)}", plain(path))
    rep.mon(mon or "path_valid_" + fmt)
    return nodes


def check_rebuild(rep, net, want, what, **kw):
    t = call(f"from_path({what})", ContractionTree.from_path, net.inputs, net.output, net.size_dict, **kw)
    ch = ct.children_of(t)
    got = set(ch)
    off = plain(next(iter(kw.values())))
    need(got == want, "roundtrip", lambda: f"from_path({what}) has nodes {show(got - want)} not in the tree, misses {show(want - got)}", off)
    msg = ref.check_tree_struct(net.N, ch)
    need(msg is None, "roundtrip", lambda: f"from_path({what}) is not a complete tree: {msg}", off)


def check_pair_linear(rep, n, p, complete, mon):
    model = norm(ref.linear_to_ssa_model(p, n))
    variants = [("N", n)] + ([("None", None)] if complete else [])
    for tag, N in variants:
        s = call("linear_to_ssa", pb.linear_to_ssa, p, N)
        need(norm(s) == model, "linear_to_ssa_vs_model", lambda: f"linear_to_ssa(p, N={tag}) = {plain(s)} but the reference conversion is {model} (n={n})", plain(p))
        msg = ref.check_ssa_path(n, s, allow_incomplete=not complete)
        need(msg is None, "linear_to_ssa_vs_model", lambda: f"linear_to_ssa(p, N={tag}) = {plain(s)} is not a valid ssa path: {msg}", plain(p))
        need(ref.path_to_nodes(n, s, ssa=True) == ref.path_to_nodes(n, p), "linear_to_ssa_vs_model", f"linear_to_ssa(p, N={tag}) contracts other tensors than p", plain(p))
        back = call("ssa_to_linear", pb.ssa_to_linear, s, N)
        need(norm(back) == norm(p), "inverse_pair", lambda: f"ssa_to_linear(linear_to_ssa(p), N={tag}) = {plain(back)} != p (n={n})", plain(p))
    rep.mon(mon)


def check_pair_ssa(rep, n, s, complete, mon):
    model = norm(ref.ssa_to_linear_model(s, n))
    variants = [("N", n)] + ([("None", None)] if complete else [])
    for tag, N in variants:
        p = call("ssa_to_linear", pb.ssa_to_linear, s, N)
        need(norm(p) == model, "ssa_to_linear_vs_model", lambda: f"ssa_to_linear(s, N={tag}) = {plain(p)} but the reference conversion is {model} (n={n})", plain(s))
        msg = ref.check_linear_path(n, p, allow_incomplete=not complete)
        need(msg is None, "ssa_to_linear_vs_model", lambda: f"ssa_to_linear(s, N={tag}) = {plain(p)} is not a valid linear path: {msg}", plain(s))
        need(ref.path_to_nodes(n, p) == ref.path_to_nodes(n, s, ssa=True), "ssa_to_linear_vs_model", f"ssa_to_linear(s, N={tag}) contracts other tensors than s", plain(s))
        back = call("linear_to_ssa", pb.linear_to_ssa, p, N)
        need(norm(back) == norm(s), "inverse_pair", lambda: f"linear_to_ssa(ssa_to_linear(s), N={tag}) = {plain(back)} != s (n={n})", plain(s))
    rep.mon(mon)


def check_partial(rep, net, path, fmt, dictated, pairwise, what, build=None, auto=True, **extra):
    """from_path on an incomplete / mixed-arity path: autocomplete=True (or "auto": the same
    with a warning) -> complete tree that contains every node the path dictates;
    autocomplete=False -> exactly the dictated nodes (plus, below a >=3-tensor step, nodes
    inside it).  ``build(autocomplete)`` replaces from_path by another constructor that promises
    the same (from_info, from_edge_path, the interface); ``extra`` (check=True) is passed on."""
    n = net.N
    kw = {"path" if fmt == "linear" else "ssa_path": [tuple(s) for s in path]}
    kw.update(extra)
    dictated = {d for d in dictated if len(d) > 1}
    if build is None:
        what = f"from_path({what}"
        for k, v in extra.items():
            what += f", {k}={v}"

        def build(autocomplete):
            return ContractionTree.from_path(net.inputs, net.output, net.size_dict, autocomplete=autocomplete, **kw)

    t = call(f"{what}, autocomplete={auto!r})", build, auto)
    ch = ct.children_of(t)
    msg = ref.check_tree_struct(n, ch)
    need(msg is None, "autocomplete", lambda: f"{what}, autocomplete={auto!r}) is not a complete tree: {msg}", plain(path))
    need(dictated <= set(ch), "autocomplete", lambda: f"{what}, autocomplete={auto!r}) lacks nodes {show(dictated - set(ch))} dictated by the path", plain(path))
    t = call(f"{what}, autocomplete=False)", build, False)
    keys = set(ct.children_of(t))
    need(dictated <= keys, "no_autocomplete", lambda: f"{what}, autocomplete=False) lacks nodes {show(dictated - keys)}", plain(path))
    more = keys - dictated
    if pairwise:
        need(not more, "no_autocomplete", lambda: f"{what}, autocomplete=False) has nodes {show(more)} the path never creates", plain(path))
    else:
        need(all(any(k < d for d in dictated) for k in more), "no_autocomplete", lambda: f"{what}, autocomplete=False) has nodes {show(more)} outside every step", plain(path))
    return t


def flat_nodes(ft):
    """nested pairs of leaf numbers -> (internal nodes in closing order, leaves left to right)"""
    nodes, leaves = [], []

    def walk(x):
        if isinstance(x, tuple):
            need(len(x) == 2, "flat_tree", lambda: f"flat_tree has a tuple of {len(x)} entries: {x!r:.200}", repr(ft)[:500])
            both = walk(x[0]) | walk(x[1])
            nodes.append(both)
            return both
        need(isinstance(x, int) and not isinstance(x, bool), "flat_tree", lambda: f"flat_tree has the entry {x!r} (neither a pair nor a leaf number)", repr(ft)[:500])
        leaves.append(x)
        return frozenset([x])

    walk(ft)
    return nodes, leaves


def check_getters(rep, tree, n, order, want, tseq, kind):
    """The other getters of the same tree under the same order: all describe the same set of
    intermediate tensors, children first."""
    npth = call("get_numpy_path(order)", tree.get_numpy_path, order)
    need(
        isinstance(npth, (list, tuple)) and len(npth) >= 1 and npth[0] == "einsum_path",
        "numpy_path",
        lambda: f"get_numpy_path(order) is not ['einsum_path', *pairs]: {npth!r:.300}",
        repr(npth)[:500],
    )
    check_emitted(rep, n, tuple(npth[1:]), False, want, tseq, "get_numpy_path(order)[1:]", mon="numpy_path")

    ft = call("flat_tree(order)", tree.flat_tree, order)
    nodes, leaves = flat_nodes(ft)
    need(sorted(leaves) == list(range(n)), "flat_tree", lambda: f"flat_tree(order) has the leaves {leaves}, the tree has 0..{n - 1}", repr(ft)[:500])
    need(set(nodes) == want and len(nodes) == len(want), "flat_tree", lambda: f"flat_tree(order) brackets {show(set(nodes) - want)} which are not nodes of the tree / misses {show(want - set(nodes))}", repr(ft)[:500])
    rep.mon("flat_tree")

    if kind in ("none", "compressed", "compressed_lin"):
        lo = call("get_leaves_ordered()", tree.get_leaves_ordered)
        got = sorted(sorted(int(i) for i in nd) for nd in lo)
        need(got == [[i] for i in range(n)], "leaves_ordered", lambda: f"get_leaves_ordered() is not a permutation of the {n} leaves: {got}", got)
        rep.mon("leaves_ordered")

    if kind in ("surface", "compressed", "compressed_lin"):
        # here traverse(order) IS the surface order (order='surface_order' / the default order of
        # ContractionTreeCompressed): the surface getters must emit the same sequence
        ps = call("get_path_surface()", tree.get_path_surface)
        check_emitted(rep, n, ps, False, want, tseq, "get_path_surface()", mon="surface_paths")
        ss = call("get_ssa_path_surface()", tree.get_ssa_path_surface)
        check_emitted(rep, n, ss, True, want, tseq, "get_ssa_path_surface()", mon="surface_paths")
        # surface_order = (len(node), centrality) / position in the initial path (inf if absent):
        # every child scores strictly below its parent, so "minimise order(node), children first"
        # fixes the sequence of scores (ties may be broken either way): non-decreasing
        own = {frozenset(p): p for p in tree.children}
        sc = call("surface_order(node)", lambda: [tree.surface_order(own[p]) for p in tseq])
        if all(sc[k] < sc[j] for k, p in enumerate(tseq) for j, q in enumerate(tseq) if p < q):
            need(
                all(a <= b for a, b in zip(sc, sc[1:])),
                "order_fidelity",
                lambda: f"surface order scores every child below its parent, but the surface path does not contract lower scores first: {sc}",
                plain(ss),
            )
            rep.mon("surface_sorted")


def check_compressed_prefix(rep, net, ssa, k, linear, auto):
    """ContractionTreeCompressed.from_path on an incomplete path: completed (autocomplete True or
    'auto'), contains the prefix, and the prefix stays the head of its default (surface) order -
    'set the default surface traversal ordering to be the initial path'."""
    n = net.N
    pre = [tuple(s) for s in ssa[:k]]
    head = ref.path_to_nodes(n, pre, ssa=True)
    kw = {"path": ref.ssa_to_linear_model(pre, n)} if linear else {"ssa_path": pre}
    what = f"ContractionTreeCompressed.from_path({'path' if linear else 'ssa_path'}=prefix"

    def build(autocomplete):
        return ContractionTreeCompressed.from_path(net.inputs, net.output, net.size_dict, autocomplete=autocomplete, **kw)

    t = call(f"{what}, autocomplete={auto!r})", build, auto)
    ch = ct.children_of(t)
    msg = ref.check_tree_struct(n, ch)
    need(msg is None, "autocomplete", lambda: f"{what}, autocomplete={auto!r}) is not a complete tree: {msg}", plain(pre))
    need(set(head) <= set(ch), "autocomplete", lambda: f"{what}, autocomplete={auto!r}) lacks nodes {show(set(head) - set(ch))} dictated by the path", plain(pre))
    trav = call("traverse()", lambda: [(frozenset(p), frozenset(l), frozenset(r)) for p, l, r in t.traverse()])
    check_traversal(rep, trav, ch, n)
    got = [p for p, _, _ in trav][: len(head)]
    need(got == head, "order_fidelity", lambda: f"{what}, autocomplete={auto!r}): default order starts {show(got)}, the initial path is {show(head)}", plain(pre))
    t = call(f"{what}, autocomplete=False)", build, False)
    keys = set(ct.children_of(t))
    need(keys == set(head), "no_autocomplete", lambda: f"{what}, autocomplete=False) has nodes {show(keys)}, the path creates {show(set(head))}", plain(pre))
    rep.mon("compressed_prefix")
    if linear:
        rep.mon("compressed_prefix_linear")


def run_tree(rep, case):
    net = gen.Net.from_json(case["net"])
    ssa = [tuple(s) for s in case["ssa"]]
    kind = case["order"]
    cs = case["case_seed"]
    n = net.N
    model_ch = ref.ssa_to_children(n, ssa)
    want = set(model_ch)
    seq = None
    if kind == "compressed":
        tree = call("ContractionTreeCompressed.from_path(ssa_path)", ContractionTreeCompressed.from_path, net.inputs, net.output, net.size_dict, ssa_path=ssa)
        order, seq = None, ref.path_to_nodes(n, ssa, ssa=True)
    elif kind == "compressed_lin":
        lin = ref.ssa_to_linear_model(ssa, n)
        tree = call("ContractionTreeCompressed.from_path(path)", ContractionTreeCompressed.from_path, net.inputs, net.output, net.size_dict, path=lin)
        order, seq = None, ref.path_to_nodes(n, ssa, ssa=True)
    else:
        tree = call("from_path(ssa_path)", ct.make_tree, net, ssa)
    ch = ct.children_of(tree)
    need(set(ch) == want and all(set(ch[p]) == set(model_ch[p]) for p in ch), "build", lambda: f"from_path(ssa_path) built nodes {show(set(ch))}, the path says {show(want)}", plain(ssa))
    rep.mon("build_vs_model")
    if kind not in ("compressed", "compressed_lin"):
        order, seq = make_order(kind, tree, cs, ch)

    trav = call("traverse(order)", lambda: [(frozenset(p), frozenset(l), frozenset(r)) for p, l, r in tree.traverse(order)])
    check_traversal(rep, trav, ch, n)
    tseq = [p for p, _, _ in trav]
    if seq is not None:
        need(tseq == seq, "order_fidelity", lambda: f"order is a strict linear extension (child < parent, distinct scores) but traverse(order) is not the score order: got {show(tseq)}, order says {show(seq)}", show(tseq))
        rep.mon("order_fidelity")

    p = call("get_path(order)", tree.get_path, order)
    check_emitted(rep, n, p, False, want, tseq, "get_path(order)")
    s = call("get_ssa_path(order)", tree.get_ssa_path, order)
    check_emitted(rep, n, s, True, want, tseq, "get_ssa_path(order)")

    check_rebuild(rep, net, want, "path=get_path(order)", path=p)
    rep.mon("roundtrip_linear")
    check_rebuild(rep, net, want, "ssa_path=get_ssa_path(order)", ssa_path=s)
    rep.mon("roundtrip_ssa")

    check_pair_linear(rep, n, p, True, "inverse_linear")
    check_pair_ssa(rep, n, s, True, "inverse_ssa")
    need(norm(call("linear_to_ssa", pb.linear_to_ssa, p, n)) == norm(s), "inverse_pair", "linear_to_ssa(get_path(order)) is not get_ssa_path(order)", plain(p))
    need(norm(call("ssa_to_linear", pb.ssa_to_linear, s, n)) == norm(p), "inverse_pair", "ssa_to_linear(get_ssa_path(order)) is not get_path(order)", plain(s))

    check_getters(rep, tree, n, order, want, tseq, kind)

    # prefixes = incomplete paths
    if not case.get("prefix", True):
        return
    rng = rng_for(cs, "prefix", kind)
    k = rng.randint(0, len(p) - 1)
    check_partial(rep, net, p[:k], "linear", set(tseq[:k]), True, "path=prefix")
    k = rng.randint(0, len(p) - 1)
    check_partial(rep, net, s[:k], "ssa", set(tseq[:k]), True, "ssa_path=prefix")
    rep.mon("incomplete_autocomplete")
    if kind in ("compressed", "compressed_lin"):
        k = rng.randint(0, len(ssa) - 1)
        # compressed_lin: the incomplete prefix is handed over as a LINEAR path (path=), compressed: as ssa_path=
        linear = kind == "compressed_lin"
        auto = rng.choice([True, "auto"])
        # scope note: the completion of a ContractionTreeCompressed runs the 'greedy-compressed' path
        # finder, which does not accept a network without any index (empty size_dict, scalars only);
        # that is a path finder on a degenerate network, not a path-format conversion - outside
        # C10's statement, so such networks are not given to this monitor
        if net.size_dict:
            check_compressed_prefix(rep, net, ssa, k, linear, auto)


def run_pair(rep, case):
    n = case["n"]
    path = [tuple(s) for s in case["path"]]
    complete = case["complete"]
    multi = any(len(s) != 2 for s in path)
    if case["fmt"] == "linear":
        msg = ref.check_linear_path(n, path, allow_incomplete=not complete)
        if msg:
            rep.inconclusive_case(f"generator produced an invalid linear path: {msg}")
            return
        check_pair_linear(rep, n, path, complete, "inverse_linear_multi" if multi else "inverse_linear")
    else:
        msg = ref.check_ssa_path(n, path, allow_incomplete=not complete)
        if msg:
            rep.inconclusive_case(f"generator produced an invalid ssa path: {msg}")
            return
        check_pair_ssa(rep, n, path, complete, "inverse_ssa_multi" if multi else "inverse_ssa")


def run_edge(rep, case):
    net = gen.Net.from_json(case["net"])
    edge_path = list(case["edge_path"])
    n = net.N
    sim = edge_sim(edge_path, net.inputs, net.output, True)
    sim2 = edge_sim(edge_path, net.inputs, net.output, False)
    if sim != sim2:
        rep.inconclusive_case(f"edge model readings disagree on {net.eq()} {edge_path}")
        return
    want = [(node, kids) for _, node, kids in sim]
    hyper = any(len(kids) > 2 for _, kids in want)

    def cmp(steps, what, path):
        for k, (got, exp) in enumerate(zip(steps, sim)):
            need(
                got == (exp[1], exp[2]),
                "edge_step",
                lambda: f"{what}: emitted step {k} contracts tensors {show(got[1])} but index {exp[0]!r} is carried by {show(exp[2])} at that moment",
                plain(path),
            )
        need(len(steps) == len(sim), "edge_step", lambda: f"{what}: {len(steps)} steps emitted, {len(sim)} indices are carried by >=2 tensors when their turn comes ({[s[0] for s in sim]})", plain(path))

    s = call("edge_path_to_ssa", pb.edge_path_to_ssa, edge_path, net.inputs)
    msg = ref.check_ssa_path(n, s, allow_incomplete=True)
    need(msg is None, "edge_invalid", lambda: f"edge_path_to_ssa gives an invalid ssa path {plain(s)}: {msg}", plain(s))
    cmp(steps_of(n, s, True), "edge_path_to_ssa", s)
    lin = call("edge_path_to_linear", pb.edge_path_to_linear, edge_path, net.inputs)
    msg = ref.check_linear_path(n, lin, allow_incomplete=True)
    need(msg is None, "edge_invalid", lambda: f"edge_path_to_linear gives an invalid linear path {plain(lin)}: {msg}", plain(lin))
    cmp(steps_of(n, lin, False), "edge_path_to_linear", lin)
    rep.mon("edge_steps")
    if hyper:
        rep.mon("edge_steps_hyper")
    if case.get("tree"):
        t = call("from_path(edge_path, autocomplete=True)", ContractionTree.from_path, net.inputs, net.output, net.size_dict, edge_path=edge_path, autocomplete=True)
        ch = ct.children_of(t)
        msg = ref.check_tree_struct(n, ch)
        need(msg is None, "edge_tree", lambda: f"from_path(edge_path, autocomplete=True) is not a complete tree: {msg}", plain(s))
        miss = {node for node, _ in want} - set(ch)
        need(not miss, "edge_tree", lambda: f"from_path(edge_path, autocomplete=True) lacks the nodes {show(miss)} the edge path dictates", plain(s))
        rep.mon("edge_tree_complete")
    if case.get("via") == "from_edge_path":
        # the deprecated spelling promises what from_path(edge_path=...) does, options included
        extra = {"check": True} if case.get("check") else {}

        def build(autocomplete):
            return ContractionTree.from_edge_path(edge_path, net.inputs, net.output, net.size_dict, autocomplete=autocomplete, **extra)

        pairwise = all(len(kids) <= 2 for _, kids in want)
        check_partial(rep, net, s, "ssa", {node for node, _ in want}, pairwise, f"from_edge_path({edge_path}", build=build, auto=case.get("auto", True))
        rep.mon("from_edge_path")


def run_mixed(rep, case):
    net = gen.Net.from_json(case["net"])
    path = [tuple(s) for s in case["path"]]
    n = net.N
    ssa = case["fmt"] == "ssa"
    msg = (ref.check_ssa_path if ssa else ref.check_linear_path)(n, path, allow_incomplete=True)
    if msg:
        rep.inconclusive_case(f"generator produced an invalid path: {msg}")
        return
    dictated = set(ref.path_to_nodes(n, path, ssa=ssa))
    pairwise = all(len(s) <= 2 for s in path)
    extra = {"check": True} if case.get("check") else {}
    check_partial(rep, net, path, case["fmt"], dictated, pairwise, f"{case['fmt']} path with steps of {sorted({len(s) for s in path})} tensors", auto=case.get("auto", True), **extra)
    rep.mon("mixed_from_path")
    if extra:
        rep.mon("from_path_check")
    if case.get("auto", True) == "auto" and (ref.check_ssa_path if ssa else ref.check_linear_path)(n, path) is not None:
        rep.mon("from_path_auto")


# ----------------------- equation / shape getters, slicing aware ----------- #


def tt(x):
    return tuple(tuple(t) for t in x)


def sliced_model(net, removed):
    """the network with the removed indices deleted everywhere: (inputs, output, eq, shapes)"""
    rem = set(removed)
    inputs = tuple(tuple(ix for ix in t if ix not in rem) for t in net.inputs)
    output = tuple(ix for ix in net.output if ix not in rem)
    eq = ",".join("".join(t) for t in inputs) + "->" + "".join(output)
    shapes = tuple(tuple(int(net.size_dict[ix]) for ix in t) for t in inputs)
    return inputs, output, eq, shapes


def check_eq_getters(rep, tree, net, removed, when):
    full = sliced_model(net, ())
    cut = sliced_model(net, removed)
    off = {"removed": list(removed)}
    got = call("get_eq()", tree.get_eq)
    need(got == full[2], "get_eq", lambda: f"{when}: get_eq() = {got!r}, the (total) equation is {full[2]!r}", off)
    got = tt(call("get_shapes()", tree.get_shapes))
    need(got == full[3], "get_shapes", lambda: f"{when}: get_shapes() = {got}, inputs x size_dict give {full[3]}", off)
    got = tt(call("get_inputs_sliced()", tree.get_inputs_sliced))
    need(got == cut[0], "get_sliced", lambda: f"{when}: get_inputs_sliced() = {got}, inputs without {sorted(removed)} are {cut[0]}", off)
    got = tuple(call("get_output_sliced()", tree.get_output_sliced))
    need(got == cut[1], "get_sliced", lambda: f"{when}: get_output_sliced() = {got}, output without {sorted(removed)} is {cut[1]}", off)
    got = call("get_eq_sliced()", tree.get_eq_sliced)
    need(got == cut[2], "get_sliced", lambda: f"{when}: get_eq_sliced() = {got!r}, the equation without {sorted(removed)} is {cut[2]!r}", off)
    got = tt(call("get_shapes_sliced()", tree.get_shapes_sliced))
    need(got == cut[3], "get_sliced", lambda: f"{when}: get_shapes_sliced() = {got}, shapes without {sorted(removed)} are {cut[3]}", off)


def check_paths_of(rep, tree, n, want, when):
    """slicing never changes the tree: both path getters still describe the same nodes"""
    p = call("get_path()", tree.get_path)
    a = check_emitted(rep, n, p, False, want, None, f"{when}: get_path()", mon="sliced_paths")
    s = call("get_ssa_path()", tree.get_ssa_path)
    b = check_emitted(rep, n, s, True, want, None, f"{when}: get_ssa_path()", mon="sliced_paths")
    need(a == b, "path_nodes", f"{when}: get_path() and get_ssa_path() order the contractions differently", plain(p))


def setup(rep, what, fn, *a, **kw):
    """a library call that only prepares the state (slicing belongs to another property): if it
    fails the case cannot be decided here"""
    try:
        return fn(*a, **kw)
    except OpTimeout:
        raise
    except Exception as e:
        rep.inconclusive_case(f"{what}: {type(e).__name__}: {e}")
        return None


def run_eq(rep, case):
    from cotengra.utils import eq_to_inputs_output

    net = gen.Net.from_json(case["net"])
    ssa = [tuple(s) for s in case["ssa"]]
    n = net.N
    eq = net.eq()
    want = set(ref.ssa_to_children(n, ssa))
    inputs, output, _, shapes = sliced_model(net, ())

    # constructor from the equation: an empty tree over the same network
    t0 = call("from_eq(eq, size_dict)", ContractionTree.from_eq, eq, net.size_dict, **case.get("ctor_kw", {}))
    need(
        t0.N == n and tt(t0.inputs) == inputs and tuple(t0.output) == output,
        "from_eq",
        lambda: f"from_eq({eq!r}) has inputs {tt(t0.inputs)} output {tuple(t0.output)}, the equation says {inputs} -> {output}",
    )
    need(not ct.children_of(t0), "from_eq", lambda: f"from_eq({eq!r}) is not empty: {show(set(ct.children_of(t0)))}")
    check_eq_getters(rep, t0, net, (), "from_eq tree")
    # ... filled in by hand along the path it converts to the same paths
    nodes = {i: frozenset([i]) for i in range(n)}
    own = {frozenset(x): x for x in t0.gen_leaves()}
    for k, (i, j) in enumerate(ssa):
        new = call("contract_nodes", t0.contract_nodes, [own[nodes.pop(i)], own[nodes.pop(j)]], check=bool(case.get("check")))
        nodes[n + k] = frozenset(new)
        own[frozenset(new)] = new
    check_paths_of(rep, t0, n, want, "from_eq tree contracted along the path")
    rep.mon("from_eq")
    # the library's own parser is the second route back
    back = call("eq_to_inputs_output(get_eq())", eq_to_inputs_output, t0.get_eq())
    need(tt(back[0]) == inputs and tuple(back[1]) == output, "get_eq", lambda: f"eq_to_inputs_output(get_eq()) = {back}, the network is {inputs} -> {output}")
    rep.mon("eq_roundtrip")

    tree = call("from_path(ssa_path)", ct.make_tree, net, ssa)
    check_eq_getters(rep, tree, net, (), "unsliced tree")
    rep.mon("eq_getters")
    removed = []
    for ix, project in case["slices"]:
        tree = setup(rep, f"remove_ind({ix!r}, project={project})", tree.remove_ind, ix, project=project, inplace=bool(case.get("inplace")))
        if tree is None:
            return
        removed.append(ix)
        check_eq_getters(rep, tree, net, removed, f"after remove_ind of {removed}")
        rep.mon("sliced_getters")
        if ix in net.output:
            rep.mon("sliced_getters_output_index")
    if removed:
        check_paths_of(rep, tree, n, want, f"after remove_ind of {removed}")
    for ix in case["restore"]:
        tree = setup(rep, f"restore_ind({ix!r})", tree.restore_ind, ix, inplace=bool(case.get("inplace")))
        if tree is None:
            return
        removed.remove(ix)
        check_eq_getters(rep, tree, net, removed, f"after remove_ind of {[s[0] for s in case['slices']]} and restore_ind up to {ix!r}")
        rep.mon("restored_getters")
    if case["restore"]:
        check_paths_of(rep, tree, n, want, f"after restore_ind of {case['restore']}")


# ----------------------------- from_info ----------------------------------- #


def make_info(net, path, standin):
    """an opt_einsum.PathInfo for (network, explicit linear path); a stand-in with the
    attributes from_info reads where opt_einsum refuses the input"""
    if not standin:
        try:
            import opt_einsum as oe

            return oe.contract_path(net.eq(), *net.shapes(), shapes=True, optimize=[tuple(s) for s in path])[1], "opt_einsum"
        except Exception:
            pass
    import types

    return types.SimpleNamespace(
        input_subscripts=",".join("".join(t) for t in net.inputs),
        output_subscript="".join(net.output),
        size_dict=dict(net.size_dict),
        path=[tuple(s) for s in path],
    ), "standin"


def run_info(rep, case):
    net = gen.Net.from_json(case["net"])
    path = [tuple(s) for s in case["path"]]
    n = net.N
    msg = ref.check_linear_path(n, path, allow_incomplete=True)
    if msg:
        rep.inconclusive_case(f"generator produced an invalid path: {msg}")
        return
    info, how = make_info(net, path, case.get("standin"))
    if how == "opt_einsum" and [tuple(s) for s in info.path] != path:
        info, how = make_info(net, path, True)
    if how == "standin" and not case.get("standin"):
        rep.mon("from_info_opt_einsum_refused")  # (the empty path)
    extra = {"check": True} if case.get("check") else {}

    def build(autocomplete):
        return ContractionTree.from_info(info, autocomplete=autocomplete, **extra)

    dictated = set(ref.path_to_nodes(n, path))
    pairwise = all(len(s) <= 2 for s in path)
    t = check_partial(rep, net, path, "linear", dictated, pairwise, f"from_info({how} PathInfo of {net.eq()} path={plain(path)}", build=build, auto=case.get("auto", True))
    need(
        tt(t.inputs) == net.inputs and tuple(t.output) == net.output and all(t.size_dict.get(ix) == net.size_dict[ix] for term in net.inputs for ix in term),
        "from_info",
        lambda: f"from_info: tree over {tt(t.inputs)} -> {tuple(t.output)}, the PathInfo describes {net.eq()}",
        plain(path),
    )
    rep.mon("from_info")
    rep.mon("from_info_" + how)


# ----------------------------- is_ssa_path --------------------------------- #


def run_isssa(rep, case):
    """is_ssa_path(path, nterms) 'checks if an explicitly given path is in ssa form': demanded only
    where the two readings exclude each other - a path valid as ssa and invalid as linear must
    be recognised, one valid as linear and invalid as ssa must not."""
    n = case["n"]
    path = [tuple(s) for s in case["path"]]
    lin_ok = ref.check_linear_path(n, path, allow_incomplete=True) is None
    ssa_ok = ref.check_ssa_path(n, path, allow_incomplete=True) is None
    if lin_ok == ssa_ok:
        rep.mon("is_ssa_ambiguous")
        return
    got = call("is_ssa_path", pb.is_ssa_path, path, n)
    if ssa_ok:
        need(bool(got), "is_ssa_path", lambda: f"is_ssa_path({plain(path)}, {n}) = {got!r} for a path that is valid in ssa form only (id >= {n} / position out of range for the linear reading)", plain(path))
        rep.mon("is_ssa_true")
        if path and path[-1][0] < n:
            rep.mon("is_ssa_true_input_id_first")  # the last step lists an input tensor first
    else:
        need(not got, "is_ssa_path", lambda: f"is_ssa_path({plain(path)}, {n}) = {got!r} for a path that is valid in linear form only (an id is used twice)", plain(path))
        rep.mon("is_ssa_false")


# ----------------------------- the interface ------------------------------- #


def run_iface(rep, case):
    """explicit paths / edge paths / trees given as ``optimize=`` to array_contract_path /
    array_contract_tree (find_path, find_tree, canonicalize_inputs): converted without loss"""
    import cotengra as ctg

    net = gen.Net.from_json(case["net"])
    ssa = [tuple(s) for s in case["ssa"]]
    n = net.N
    route = case["route"]
    kw = {"canonicalize": bool(case["canon"])}
    seq_t = (lambda x: [list(s) for s in x]) if case.get("aslist") else (lambda x: tuple(tuple(s) for s in x))
    want = set(ref.ssa_to_children(n, ssa))
    lin = ref.ssa_to_linear_model(ssa, n)
    what = f"{route}(canonicalize={kw['canonicalize']}, cache={case.get('cache')})"

    if route.endswith("_edge") and not case["edge_path"] and kw["canonicalize"]:
        rep.mon("iface_empty_path_canonicalize")
    if route in ("path_explicit", "path_tree", "path_edge"):
        kw["cache"] = bool(case.get("cache"))
        if route == "path_explicit":
            opt = seq_t(lin)
        elif route == "path_tree":
            opt = call("from_path(ssa_path)", ct.make_tree, net, ssa)
        else:
            opt = list(case["edge_path"]) if case.get("aslist") else tuple(case["edge_path"])
        for rnd in range(2 if kw["cache"] else 1):
            got = call(f"array_contract_path({what})", ctg.array_contract_path, net.inputs, net.output, net.size_dict, optimize=opt, **kw)
            if route == "path_explicit":
                need(norm(got) == norm(lin), "iface_path", lambda: f"array_contract_path({what}, optimize=path) = {plain(got)}, the path given is {plain(lin)}", plain(lin))
            elif route == "path_tree":
                check_emitted(rep, n, tuple(tuple(s) for s in got), False, want, None, f"array_contract_path({what}, optimize=tree)", mon="iface_path_tree_valid")
            else:
                sim = edge_sim(case["edge_path"], net.inputs, net.output, True)
                msg = ref.check_linear_path(n, got, allow_incomplete=True)
                need(msg is None, "edge_invalid", lambda: f"array_contract_path({what}, optimize=edge path) gives an invalid linear path {plain(got)}: {msg}", plain(got))
                steps = steps_of(n, got, False)
                need(steps == [(node, kids) for _, node, kids in sim], "edge_step", lambda: f"array_contract_path({what}, optimize=edge path {case['edge_path']}) = {plain(got)} does not contract, index by index, the tensors that carry it: expected nodes {show([s[1] for s in sim])}", plain(got))
        rep.mon("iface_path")
        rep.mon("iface_" + route)
        return

    if route == "tree_explicit":
        t = call(f"array_contract_tree({what}, optimize=path)", ctg.array_contract_tree, net.inputs, net.output, net.size_dict, optimize=seq_t(lin), **kw)
        got = set(ct.children_of(t))
        need(got == want, "iface_tree", lambda: f"array_contract_tree({what}, optimize=path) has nodes {show(got - want)} not in the path, misses {show(want - got)}", plain(lin))
    elif route == "tree_edge":
        ep = list(case["edge_path"]) if case.get("aslist") else tuple(case["edge_path"])
        sim = edge_sim(case["edge_path"], net.inputs, net.output, True)
        t = call(f"array_contract_tree({what}, optimize=edge path)", ctg.array_contract_tree, net.inputs, net.output, net.size_dict, optimize=ep, **kw)
        ch = ct.children_of(t)
        msg = ref.check_tree_struct(n, ch)
        need(msg is None, "edge_tree", lambda: f"array_contract_tree({what}, optimize=edge path) is not a complete tree: {msg}", list(case["edge_path"]))
        miss = {node for _, node, _ in sim} - set(ch)
        need(not miss, "edge_tree", lambda: f"array_contract_tree({what}, optimize=edge path {case['edge_path']}) lacks the nodes {show(miss)} the edge path dictates", list(case["edge_path"]))
    else:
        raise ValueError(route)
    rep.mon("iface_tree")
    rep.mon("iface_" + route)


MODES = {"tree": run_tree, "pair": run_pair, "edge": run_edge, "mixed": run_mixed, "eq": run_eq, "info": run_info, "isssa": run_isssa, "iface": run_iface}


def execute(rep, case):
    """-> None | Fail | 'timeout'"""
    try:
        with time_limit(OP_LIMIT):
            MODES[case["mode"]](rep, case)
    except Fail as f:
        return f
    except OpTimeout as e:
        rep.inconclusive_case(f"{case['mode']} case {case.get('case_seed')}: {e}")
    return None


def run_case(rep, case, key, nontrivial, cls, sample=None):
    rep.case(key, nontrivial, cls, sample=sample)
    f = execute(rep, case)
    if f is not None:
        w = dict(case)
        w["monitor"] = f.kind
        w["offending_path"] = f.offending
        rep.violation(f.kind, w, f"[{case['mode']}] {describe(case)}: {f.msg}")
        return False
    return True


def describe(case):
    if "net" in case:
        net = gen.Net.from_json(case["net"])
        d = f"{net.cls} {net.eq()}"
    else:
        d = f"n={case['n']}"
    for k in ("ssa", "order", "fmt", "path", "edge_path", "complete", "slices", "restore", "route", "canon", "cache", "via", "check", "auto"):
        if k in case:
            d += f" {k}={case[k]}"
    return d[:600]


# --------------------------------------------------------------------------- #
#                                 workloads                                   #
# --------------------------------------------------------------------------- #


def tree_cases(rep, net, ssa, cs, cls=None):
    nj = net.to_json()
    ssa = [list(s) for s in ssa]
    tkey = tuple(map(tuple, ssa))
    for kind in ORDER_KINDS:
        case = {"mode": "tree", "net": nj, "ssa": ssa, "order": kind, "case_seed": cs}
        if cls == "alltrees":
            # the (4 extra tree builds of the) prefix monitor only for three kinds per tree
            case["prefix"] = kind in ("none", "adversarial", "topo")
        rep.count("order_kind", kind)
        if net.N >= 4:
            rep.seen("tree_order_n4", (net.key(), tkey, kind))
        run_case(rep, case, ("tree", net.key(), tkey, kind), net.N >= 4, cls or net.cls, sample={"eq": net.eq(), "ssa": ssa, "order": kind})


def edge_cases(rep, net, rng, cs, tier, dl):
    inds = all_indices(net)
    nj = net.to_json()
    m = len(inds)
    ntree = budget(tier, 12, 60)

    def one(ep, tree):
        case = {"mode": "edge", "net": nj, "edge_path": list(ep), "tree": tree, "case_seed": cs}
        run_case(rep, case, ("edge", net.key(), tuple(ep)), net.N >= 4, "edge:" + net.cls, sample={"eq": net.eq(), "edge_path": list(ep)})

    if m <= 6:
        k = 0
        stride = max(1, _fact(m) // ntree)
        complete = True
        for k, ep in enumerate(itertools.permutations(inds)):
            if dl.expired():
                complete = False
                break
            one(ep, k % stride == 0)
        if complete:
            rep.mon("edge_perms_exhaustive")
            rep.mon("edge_perms_enumerated", _fact(m))
            rep.count("edge_exhaustive_nindices", m)
    else:
        for k in range(budget(tier, 12, 60)):
            ep = list(inds)
            rng.shuffle(ep)
            one(ep, k < ntree)
        rep.count("edge_random_nindices", min(m, 30))
    # partial edge paths
    for k in range(budget(tier, 4, 12)):
        ep = rng.sample(inds, rng.randint(0, max(0, m - 1)))
        one(ep, True)
        rep.mon("edge_partial")


IFACE_ROUTES = ("path_explicit", "path_tree", "path_edge", "tree_explicit", "tree_edge")


def format_cases(rep, cs, k):
    """one (network, tree) through: equation / shape getters under a slicing history, from_eq,
    from_info, from_edge_path, from_path(check=True / autocomplete='auto'), is_ssa_path, and the
    interface's explicit-path handling"""
    rng = rng_for(cs)
    if k % 3 == 2:
        net = gen.network(rng, 2, 6, cap=10**9, classes=("hyper", "perverse", "hadamard", "batch", "graph", "chain", "outer", "disconnected"))
    else:
        net = gen.network(rng, 2, 12, cap=10**9)
    n = net.N
    nj = net.to_json()
    ssa = [list(s) for s in gen.random_ssa(rng, n)]
    tkey = tuple(map(tuple, ssa))
    inds = all_indices(net)
    big = n >= 4

    # equation / shape getters, slicing aware
    m = rng.randint(0, min(3, len(inds)))
    picked = rng.sample(inds, m)
    out_inds = [ix for ix in net.output if ix in inds]
    if out_inds and picked and rng.random() < 0.4 and not set(picked) & set(out_inds):
        picked[0] = rng.choice(out_inds)
    slices = [[ix, (rng.randrange(net.size_dict[ix]) if rng.random() < 0.3 else None)] for ix in picked]
    restore = rng.sample(picked, rng.randint(0, len(picked)))
    case = {"mode": "eq", "net": nj, "ssa": ssa, "slices": slices, "restore": restore, "inplace": rng.random() < 0.5, "check": rng.random() < 0.3, "case_seed": cs}
    if rng.random() < 0.3:
        case["ctor_kw"] = rng.choice([{"track_flops": True}, {"track_childless": True}, {"track_size": True, "track_write": True}])
    run_case(rep, case, ("eq", net.key(), tkey, tuple(map(tuple, slices)), tuple(restore)), big, "eq:" + net.cls, sample={"eq": net.eq(), "ssa": ssa, "slices": slices, "restore": restore})

    # from_info: complete pairwise / mixed arity / incomplete explicit paths
    r = rng.random()
    if r < 0.5:
        path = ref.ssa_to_linear_model([tuple(s) for s in ssa], n)
    else:
        path = random_linear_path(rng, n, complete=r < 0.8, p1=0.1, p3=0.25)
    case = {"mode": "info", "net": nj, "path": [list(s) for s in path], "standin": rng.random() < 0.15, "check": rng.random() < 0.4, "auto": rng.choice([True, True, "auto"]), "case_seed": cs}
    run_case(rep, case, ("info", net.key(), tuple(map(tuple, path)), case["standin"], case["check"]), big, "info:" + net.cls, sample={"eq": net.eq(), "path": case["path"]})

    # from_path(check=True / autocomplete="auto") on complete, mixed and incomplete paths
    fmt = rng.choice(["linear", "ssa"])
    p1, p3 = rng.choice([(0.1, 0.2), (0.2, 0.3), (0.0, 0.0)])
    path = (random_linear_path if fmt == "linear" else random_ssa_path)(rng, n, rng.random() < 0.5, p1, p3)
    case = {"mode": "mixed", "net": nj, "path": [list(s) for s in path], "fmt": fmt, "check": rng.random() < 0.7, "case_seed": cs}
    case["auto"] = "auto" if (not case["check"] or rng.random() < 0.3) else True
    run_case(rep, case, ("mixed+", net.key(), fmt, tuple(path), case["check"], case["auto"]), big, "mixed+:" + net.cls, sample={"eq": net.eq(), "path": case["path"], "fmt": fmt, "check": case["check"], "auto": case["auto"]})

    # the deprecated from_edge_path
    ep = list(inds)
    rng.shuffle(ep)
    if rng.random() < 0.4:
        ep = ep[: rng.randint(0, len(ep))]
    case = {"mode": "edge", "net": nj, "edge_path": ep, "tree": False, "via": "from_edge_path", "check": rng.random() < 0.3, "auto": rng.choice([True, "auto"]), "case_seed": cs}
    run_case(rep, case, ("edge+", net.key(), tuple(ep), case["check"]), big, "edge+:" + net.cls, sample={"eq": net.eq(), "edge_path": ep, "via": "from_edge_path"})

    # is_ssa_path: the tree's path in either format, steps listed in either order, maybe cut short
    fmt = rng.choice(["linear", "ssa"])
    path = [tuple(s) for s in ssa] if fmt == "ssa" else ref.ssa_to_linear_model([tuple(s) for s in ssa], n)
    path = [tuple(reversed(s)) if rng.random() < 0.5 else tuple(s) for s in path]
    if rng.random() < 0.2:
        path = path[: rng.randint(0, len(path))]
    case = {"mode": "isssa", "n": n, "path": [list(s) for s in path], "fmt": fmt, "case_seed": cs}
    run_case(rep, case, ("isssa", n, fmt, tuple(path)), big, "isssa:" + fmt, sample=case)

    # the interface: optimize = explicit path | tree | edge path
    route = IFACE_ROUTES[(k + rng.randrange(len(IFACE_ROUTES))) % len(IFACE_ROUTES)]
    case = {"mode": "iface", "net": nj, "ssa": ssa, "route": route, "canon": rng.random() < 0.6, "cache": rng.random() < 0.5, "aslist": rng.random() < 0.5, "case_seed": cs}
    if route.endswith("_edge"):
        ep = list(inds)
        rng.shuffle(ep)
        if rng.random() < 0.3:
            ep = ep[: rng.randint(0, len(ep))]
        if rng.random() < 0.06:
            ep = []  # "eliminate nothing" = the empty explicit path
        case["edge_path"] = ep
    run_case(rep, case, ("iface", net.key(), tkey, route, case["canon"], case["cache"], case["aslist"], tuple(case.get("edge_path", ()))), big, "iface:" + route, sample={"eq": net.eq(), "ssa": ssa, "route": route, "canon": case["canon"], "edge_path": case.get("edge_path")})


def _fact(m):
    f = 1
    for i in range(2, m + 1):
        f *= i
    return f


def run_shard(rep, tier, seed, shard, nshards):
    import time

    t0 = [time.time()]

    def lap(name):
        rep.count("workload_seconds_summed_over_shards", name, int(round(time.time() - t0[0])))
        t0[0] = time.time()

    # -- A: (network, random tree) x all order kinds
    dl = Deadline(budget(tier, 12, 100))
    for k in range(budget(tier, 200, 3000)):
        if dl.expired():
            break
        cs = f"{seed}/C10/{shard}/tree/{k}"
        rng = rng_for(cs)
        net = gen.network(rng, 2, 12, cap=10**9)
        ssa = gen.random_ssa(rng, net.N)
        tree_cases(rep, net, ssa, cs)

    lap('A_tree')
    # -- B: ALL trees of small networks x all order kinds
    dl = Deadline(budget(tier, 12, 150))
    nmax = budget(tier, 5, 6)
    for k in range(budget(tier, 10, 40)):
        if dl.expired():
            break
        cs = f"{seed}/C10/{shard}/all/{k}"
        rng = rng_for(cs)
        n = 3 + (shard + k) % (nmax - 2)
        net = gen.network(rng, n, n, cap=10**9)
        if net.N > nmax or net.N < 2:
            continue
        n = net.N
        ntrees = 0
        complete = True
        for ch in ref.all_trees(n):
            if dl.expired():
                complete = False
                break
            tree_cases(rep, net, ref.children_to_ssa(n, ch), cs, cls="alltrees")
            ntrees += 1
        if complete:
            need_n = ref.num_trees(n)
            if ntrees != need_n:
                rep.inconclusive_case(f"all_trees({n}) produced {ntrees} != {need_n}")
            rep.mon("all_trees_enumerated", ntrees)
            rep.count("all_trees_networks", n)

    lap('B_alltrees')
    # -- C: independently generated linear / ssa paths through the converters
    dl = Deadline(budget(tier, 5, 30))
    for k in range(budget(tier, 4000, 40000)):
        if dl.expired():
            break
        cs = f"{seed}/C10/{shard}/pair/{k}"
        rng = rng_for(cs)
        n = rng.randint(1, 14)
        complete = rng.random() < 0.6
        fmt = rng.choice(["linear", "ssa"])
        p1, p3 = rng.choice([(0.0, 0.0), (0.1, 0.2), (0.2, 0.4), (0.0, 0.5)])
        path = (random_linear_path if fmt == "linear" else random_ssa_path)(rng, n, complete, p1, p3)
        case = {"mode": "pair", "n": n, "path": [list(s) for s in path], "fmt": fmt, "complete": complete, "case_seed": cs}
        rep.count("pair_step_sizes", ",".join(map(str, sorted({len(s) for s in path}))))
        run_case(rep, case, ("pair", n, fmt, complete, tuple(path)), n >= 4, "pair:" + fmt, sample=case)

    lap('C_pair')
    # -- D: edge paths
    dl = Deadline(budget(tier, 10, 70))
    for k in range(budget(tier, 300, 3000)):
        if dl.expired():
            break
        cs = f"{seed}/C10/{shard}/edge/{k}"
        rng = rng_for(cs)
        if k % 2:
            # small networks with few indices: exhaustive permutations, many hyper indices
            net = gen.network(rng, 2, 6, cap=10**9, classes=("hyper", "perverse", "hadamard", "batch", "graph", "chain", "outer", "disconnected"))
        else:
            net = gen.network(rng, 2, 12, cap=10**9)
        edge_cases(rep, net, rng, cs, tier, dl)

    lap('D_edge')
    # -- E: from_path on mixed-arity / incomplete paths
    dl = Deadline(budget(tier, 8, 40))
    for k in range(budget(tier, 800, 8000)):
        if dl.expired():
            break
        cs = f"{seed}/C10/{shard}/mixed/{k}"
        rng = rng_for(cs)
        net = gen.network(rng, 2, 10, cap=10**9)
        complete = rng.random() < 0.5
        fmt = rng.choice(["linear", "ssa"])
        p1, p3 = rng.choice([(0.1, 0.2), (0.2, 0.3), (0.0, 0.0)])
        path = (random_linear_path if fmt == "linear" else random_ssa_path)(rng, net.N, complete, p1, p3)
        case = {"mode": "mixed", "net": net.to_json(), "path": [list(s) for s in path], "fmt": fmt, "case_seed": cs}
        run_case(rep, case, ("mixed", net.key(), fmt, tuple(path)), net.N >= 4, "mixed:" + net.cls, sample={"eq": net.eq(), "path": case["path"], "fmt": fmt})
    lap("E_mixed")
    # -- F: the other constructors / getters / format helpers
    dl = Deadline(budget(tier, 8, 50))
    for k in range(budget(tier, 1500, 15000)):
        if dl.expired():
            break
        format_cases(rep, f"{seed}/C10/{shard}/formats/{k}", k)
    lap("F_formats")


def replay(rep, v):
    case = v["witness"]
    f = execute(rep, case)
    if f is not None:
        rep.violation(f.kind, case, f"[{case['mode']}] {describe(case)}: {f.msg}")


def finalize(rep, tier):
    return {"order_kinds": list(ORDER_KINDS)}
