"""C05 - every pathfinder returns a complete, well-formed contraction of its network.

Oracle: ref.check_tree_struct (each input consumed exactly once, one final tensor) on every
returned tree and ref.check_linear_path (positions exist at that step, no repeats, ends in one
tensor) on every returned linear path.  Workloads:
  presets   array_contract_tree / array_contract_path with every preset reachable offline
  methods   the registered hyper methods called DIRECTLY (so ComputeScore cannot swallow an
            exception) with hyper-parameters drawn from the registered space by an independent
            sampler, partition methods forced through their edge cases (tiny cutoff/groupsize,
            parts >= nodes)
  hyper     HyperOptimizer(on_trial_error='raise', parallel=False) over optlibs
  explicit  linear / SSA / edge paths, complete and incomplete (autocomplete)
"""

import traceback
import warnings

import cotengra as ctg
from cotengra.core import ContractionTree
from cotengra.hyperoptimizers import hyper as _hyper

from .. import ct, gen, ref
from ..common import Deadline, OpTimeout, budget, rng_for, time_limit

PID = "C05"
LEVEL = "exploration"
RULE = (
    "networks from 9 classes incl. disconnected / scalars / repeated indices, 1-40 tensors (size range per "
    "method), x presets x registered exact hyper methods with sampled hyper-parameters x optlibs x explicit "
    "paths; distinct = distinct (entry, method, network); non-trivial = >=3 tensors or a 1-/2-tensor or "
    "disconnected edge case"
)
ASSUMPTIONS = [
    "methods needing absent dependencies (igraph: betweenness/walktrap/spinglass/labelprop, quickbb, flowcutter, optuna, cotengrust) are unobserved",
]
PRESETS_FAST = ["greedy", "eager", "opportunistic", "random", "random-greedy", "auto", "auto-hq"]
PRESETS_OPT = ["optimal", "dp", "dynamic-programming", "optimal-outer"]
PRESETS_SLOW = ["random-greedy-128", "hyper", "hyper-256", "hyper-greedy", "hyper-labels", "hyper-kahypar", "hyper-balanced"]
METHODS = ["greedy", "random-greedy", "labels", "labels-agglom", "kahypar", "kahypar-balanced", "kahypar-agglom", "random"]
OPTLIBS = ["random", "cmaes", "nevergrad", "skopt", "baytune"]
REQUIRED_MONITORS = (
    ["preset:" + p for p in PRESETS_FAST + PRESETS_OPT]
    + ["method:" + m for m in METHODS]
    + ["optlib:random", "explicit:linear", "explicit:ssa", "explicit:edge", "explicit:incomplete", "explicit_via_path_interface", "one_tensor", "two_tensor"]
)
SHARD_TIMEOUT = {"quick": 500, "thorough": 5400}
CALL_LIMIT = 120


def nshards(tier):
    return 16


def classify(v):
    """K-C05-1: score based optimizers on a ONE tensor network take the log of a zero cost
    (flops = write = 0, size = -inf): HyperOptimizer / hyper-* presets / random-greedy."""
    w = v["witness"]
    if v["kind"] != "raises" or len(w["net"]["inputs"]) != 1:
        return None
    msg = v["message"]
    scored = (
        w["entry"] == "hyper"
        or (w["entry"] in ("preset_path", "preset_tree") and (w["method"].startswith("hyper") or w["method"].startswith("random-greedy")))
        or (w["entry"] == "method" and w["method"] == "random-greedy")
    )
    if scored and ("math domain error" in msg or "KeyError: 'tree'" in msg):
        return "one-tensor-zero-cost-log"
    return None


def sample_params(rng, method, n):
    """independent sampler over the registered space of ``method``"""
    space = _hyper._HYPER_SEARCH_SPACE[method]
    params = {}
    for name, spec in space.items():
        t = spec["type"]
        if t == "BOOL":
            params[name] = rng.random() < 0.5
        elif t == "STRING":
            params[name] = rng.choice(list(spec["options"]))
        elif t == "INT":
            params[name] = rng.choice([spec["min"], spec["max"], rng.randint(spec["min"], spec["max"])])
        elif t == "FLOAT":
            params[name] = rng.choice([spec["min"], spec["max"], rng.uniform(spec["min"], spec["max"])])
        elif t == "FLOAT_EXP":
            import math

            params[name] = math.exp(rng.uniform(math.log(spec["min"]), math.log(spec["max"])))
        else:
            raise ValueError(t)
    # force the edge cases of the partition based builders
    if "cutoff" in params and rng.random() < 0.6:
        params["cutoff"] = rng.choice([1, 2, 3, max(1, n - 1)])
    if "parts" in params and rng.random() < 0.4:
        params["parts"] = rng.choice([2, n, n + 1, 2 * n + 1])
    if "groupsize" in params and rng.random() < 0.6:
        params["groupsize"] = rng.choice([2, 3, max(2, n - 1)])
    if params.get("sub_optimize") == "greedy-compressed":
        # a compressed-contraction finder (C20's domain: connected ordinary networks), not one of the
        # exact finders this property is about
        params["sub_optimize"] = "greedy"
    params.update(_hyper._HYPER_CONSTANTS[method])
    return params


def check_tree(net, tree):
    if not isinstance(tree, ContractionTree):
        return f"returned {type(tree).__name__}, not a tree"
    if tree.N != net.N:
        return f"tree over {tree.N} tensors for a network of {net.N}"
    msg = ref.check_tree_struct(net.N, ct.children_of(tree))
    if msg:
        return msg
    try:
        if not tree.is_complete():
            return "is_complete() is False"
    except Exception as e:
        return f"is_complete() raised {e!r}"
    return None


def do_case(rep, case):
    """-> None | (kind, msg)"""
    net = gen.Net.from_json(case["net"])
    entry = case["entry"]
    rng = rng_for(case["case_seed"], "run")
    import random

    random.seed(case["case_seed"])  # some finders use the global generator
    try:
        with time_limit(CALL_LIMIT):
            if entry == "preset_tree":
                tree = ctg.array_contract_tree(net.inputs, net.output, net.size_dict, optimize=case["method"])
                return _res("tree", check_tree(net, tree))
            if entry == "preset_path":
                path = ctg.array_contract_path(net.inputs, net.output, net.size_dict, optimize=case["method"], cache=False)
                return _res("path", ref.check_linear_path(net.N, path))
            if entry == "method":
                fn = _hyper._PATH_FNS[case["method"]]
                tree = fn(net.inputs, net.output, net.size_dict, **case["params"])
                return _res("tree", check_tree(net, tree))
            if entry == "hyper":
                opt = ctg.HyperOptimizer(
                    methods=case["methods"], max_repeats=case["max_repeats"], optlib=case["optlib"],
                    parallel=False, on_trial_error="raise", progbar=False,
                )
                if case.get("call"):
                    path = opt(net.inputs, net.output, net.size_dict)
                    return _res("path", ref.check_linear_path(net.N, path))
                tree = opt.search(net.inputs, net.output, net.size_dict)
                return _res("tree", check_tree(net, tree))
            if entry == "explicit":
                kw = {case["fmt"]: case["path"]}
                if case.get("via") == "interface_path" and case["fmt"] in ("path", "edge_path"):
                    # the path interface: an explicit path (possibly partial - an edge path cannot join
                    # disconnected parts) comes back as a LINEAR path whose positions exist at every step
                    # and which performs exactly the merges the tree interface builds for the same argument
                    rep.mon("explicit_via_path_interface")
                    opt = case["path"] if case["fmt"] == "edge_path" else [tuple(st) for st in case["path"]]
                    if not opt and case["fmt"] == "path":
                        opt = ()
                    path = ctg.array_contract_path(net.inputs, net.output, net.size_dict, optimize=opt, canonicalize=False, cache=False)
                    msg = ref.check_linear_path(net.N, path, allow_incomplete=True)
                    if msg:
                        return _res("path", f"array_contract_path(optimize=<explicit {case['fmt']}>) -> {list(map(tuple, path))!r:.200}: {msg}")
                    have = {frozenset(x) for x in ref.path_to_nodes(net.N, path)}
                    if case["fmt"] == "edge_path":
                        t0 = ContractionTree.from_path(net.inputs, net.output, net.size_dict, edge_path=case["path"], autocomplete=False)
                        want = {frozenset(nd) for nd in t0.children}
                    else:
                        want = {frozenset(nd) for nd in case.get("expect_nodes", ()) if len(nd) > 1}
                    have = {nd for nd in have if len(nd) > 1}

                    def tops(nodes):
                        return {x for x in nodes if not any(x < y for y in nodes)}

                    # (a step joining 3+ tensors is split into pairwise nodes by the tree builder)
                    if not have <= want or tops(have) != tops(want):
                        return _res("path", f"array_contract_path(optimize=<explicit {case['fmt']}>) merges {sorted(map(sorted, have))} but the argument dictates {sorted(map(sorted, want))}")
                    tree = ContractionTree.from_path(net.inputs, net.output, net.size_dict, path=path, autocomplete=True)
                elif case.get("via") == "interface" and case["fmt"] in ("path", "edge_path"):
                    tree = ctg.array_contract_tree(net.inputs, net.output, net.size_dict, optimize=case["path"], canonicalize=False)
                else:
                    tree = ContractionTree.from_path(net.inputs, net.output, net.size_dict, autocomplete=True, **kw)
                msg = check_tree(net, tree)
                if msg is None and case.get("expect_nodes"):
                    have = set(ct.children_of(tree))
                    for nd in case["expect_nodes"]:
                        if len(nd) > 1 and frozenset(nd) not in have:
                            msg = f"intermediate {sorted(nd)} dictated by the path is missing from the tree"
                            break
                return _res("tree", msg)
    except OpTimeout as e:
        rep.inconclusive_case(f"{entry}/{case.get('method')}: {e}")
        return None
    except ModuleNotFoundError as e:
        rep.count("unobserved_missing_dependency", str(e))
        return None
    except Exception as e:
        return ("raises", f"{type(e).__name__}: {e} | {traceback.format_exc()[-700:]}")
    raise ValueError(entry)


def _res(kind, msg):
    return (kind, msg) if msg else None


def size_range(method, tier):
    if method in PRESETS_OPT:
        return 1, 8
    if method in ("auto", "auto-hq"):
        return 1, budget(tier, 14, 24)
    if method in PRESETS_SLOW:
        return 1, 9
    return 1, budget(tier, 30, 40)


def make_net(rng, lo, hi):
    r = rng.random()
    if r < 0.08:
        n = 1
    elif r < 0.16:
        n = 2
    else:
        n = rng.randint(lo, hi)
    n = max(lo, min(hi, n))
    cls = rng.choice(gen.CLASSES)
    if n == 1:
        cls = rng.choice(["perverse", "graph", "outer"])
    net = gen.network(rng, n, n, cap=10**18, cls=cls)
    return net


def run_one(rep, case, net):
    entry, method = case["entry"], case.get("method") or case.get("fmt") or "hyper"
    nontrivial = net.N >= 3 or net.N <= 2 or net.cls == "disconnected"
    rep.case((entry, method, net.key(), repr(case.get("params")), repr(case.get("path"))), nontrivial, net.cls,
             sample={"entry": entry, "method": method, "eq": net.eq() if net.N < 12 else f"{net.N} tensors ({net.cls})", "params": case.get("params")})
    rep.count("matrix", f"{method}|{net.cls}|{'1' if net.N == 1 else '2' if net.N == 2 else '<=10' if net.N <= 10 else '>10'}")
    res = do_case(rep, case)
    if net.N == 1:
        rep.mon("one_tensor")
    if net.N == 2:
        rep.mon("two_tensor")
    if res:
        rep.violation(res[0], case, f"{entry} {method} on {net.eq() if net.N < 14 else str(net.N) + ' tensors'} ({net.cls}): {res[1]}")


def random_linear_path(rng, n, incomplete=False, multi=True):
    cur = n
    path = []
    while cur > 1:
        if incomplete and rng.random() < 0.25:
            break
        k = 2 if (not multi or rng.random() < 0.8) else rng.randint(2, min(4, cur))
        step = tuple(rng.sample(range(cur), k))
        path.append(step)
        cur = cur - k + 1
    return path


def run_shard(rep, tier, seed, shard, nshards):
    warnings.filterwarnings("ignore")
    dl = Deadline(budget(tier, 70, 1200))
    k = -1
    while not dl.expired() and k < budget(tier, 700, 20000):
        k += 1
        cs = f"{seed}/C05/{shard}/{k}"
        rng = rng_for(cs)
        r = rng.random()
        if r < 0.30:
            pool = PRESETS_FAST * 3 + PRESETS_OPT * 2 + (PRESETS_SLOW if (k % budget(tier, 40, 8) == 0) else [])
            method = rng.choice(pool)
            net = make_net(rng, *size_range(method, tier))
            case = {"entry": rng.choice(["preset_tree", "preset_path"]), "method": method, "net": net.to_json(), "case_seed": cs}
            run_one(rep, case, net)
            rep.mon("preset:" + method)
        elif r < 0.65:
            method = rng.choice(METHODS)
            net = make_net(rng, 1, budget(tier, 30, 40))
            case = {"entry": "method", "method": method, "params": sample_params(rng, method, net.N), "net": net.to_json(), "case_seed": cs}
            run_one(rep, case, net)
            rep.mon("method:" + method)
        elif r < 0.75:
            # 'kahypar-agglom' samples sub_optimize='greedy-compressed' (a compressed finder) from its space,
            # so inside the hyper-optimizer it is left to C20; it is still called directly above
            methods = rng.sample([m for m in METHODS if m != "kahypar-agglom"], rng.randint(1, 3))
            optlib = rng.choice(OPTLIBS if tier == "thorough" or k % 4 == 0 else ["random", "random", "cmaes"])
            if optlib in ("nevergrad", "skopt", "baytune"):
                # these libraries cannot be given an empty search space; the optimizer library is not
                # part of the property's quantifier, so such combinations are not generated
                methods = [m for m in methods if _hyper._HYPER_SEARCH_SPACE[m]] or ["greedy"]
            net = make_net(rng, 1, 16)
            case = {"entry": "hyper", "methods": methods, "optlib": optlib, "max_repeats": rng.randint(1, 6), "call": rng.random() < 0.4,
                    "net": net.to_json(), "case_seed": cs}
            run_one(rep, case, net)
            rep.mon("optlib:" + optlib)
        else:
            net = make_net(rng, 1, 14)
            n = net.N
            which = rng.choice(["linear", "ssa", "edge", "incomplete"])
            via = rng.choice(["from_path", "interface", "interface_path"])
            if which == "linear":
                path = random_linear_path(rng, n)
                case = {"entry": "explicit", "fmt": "path", "path": path, "expect_nodes": [sorted(x) for x in ref.path_to_nodes(n, path)], "via": via}
            elif which == "ssa":
                lin = random_linear_path(rng, n)
                ssa = ref.linear_to_ssa_model(lin, n)
                case = {"entry": "explicit", "fmt": "ssa_path", "path": ssa, "expect_nodes": [sorted(x) for x in ref.path_to_nodes(n, lin)], "via": "from_path"}
            elif which == "edge":
                inds = list(net.size_dict)
                rng.shuffle(inds)
                if rng.random() < 0.3:
                    inds = inds[: rng.randint(0, len(inds))]
                inds = [ix for ix in inds if any(ix in t for t in net.inputs)]
                if not inds:
                    continue
                case = {"entry": "explicit", "fmt": "edge_path", "path": inds, "via": via}
            else:
                path = random_linear_path(rng, n, incomplete=True)
                case = {"entry": "explicit", "fmt": "path", "path": path, "expect_nodes": [sorted(x) for x in ref.path_to_nodes(n, path)], "via": "from_path"}
            if n == 1 and case["fmt"] != "edge_path" and not case["path"] and case["via"] in ("interface", "interface_path"):
                case["via"] = "from_path"  # an empty explicit path cannot be recognised as a path by the interface
            case.update(net=net.to_json(), case_seed=cs)
            run_one(rep, case, net)
            rep.mon("explicit:" + which)


def replay(rep, v):
    res = do_case(rep, v["witness"])
    if res:
        rep.violation(res[0], v["witness"], res[1])
