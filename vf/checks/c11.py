"""C11 - cotengra.contract.einsum / tensordot (transpose, reshape, matmul, sum) agree with
the reference einsum on every one- and two-operand equation.

Executors observed
    einsum2    cotengra.contract.einsum(eq, a, b)
    einsum1    cotengra.contract.einsum(eq, a)               (numpy backend: dispatches to numpy.einsum)
    plan1      _parse_einsum_single(eq, shape) -> (diag_sels, sum_axes, perm) applied by the harness
               with exactly the three steps _einsum_single applies after its do("einsum") attempt
    tensordot  cotengra.contract.tensordot(a, b, axes)        axes: python int | numpy int | (axes_a, axes_b)

Oracle: E1 (ref.dense_einsum) and numpy.einsum / numpy.tensordot must agree with each other first
(otherwise the case is inconclusive); then the library's array must have the reference shape and
value - exactly for small-integer data, within ref.compare's sound bound for float / complex data.
Every (equation, shapes) key is executed twice (first = planner cold, integer data; second = planner
warm, float or complex data), the second executions of a block of keys happening after the first
executions of all the other keys of the block, so a plan cached under a wrong key would be used on
other data.

Operand identity and memory layout (witness field ``operands``, honoured by replay): besides
independent C-contiguous operands, every two-operand key with equal operand shapes is executed with
the SAME array object as both operands (monitor aliased_operands), and a seeded fraction of all keys
with operands that are strided views / views of each other (monitor view_operands).  The oracle is
unchanged: shape and value of numpy / E1 on the very same operand objects.

Spaces (equations are enumerated over the literal alphabet, no quotient by relabelling)
    S2   alphabet 'ab',  operand rank 0..3 : enumerated completely in both tiers
    S3   alphabet 'abc', operand rank 0..3 : seeded ~10 % sample in quick, complete in thorough
    TD   tensordot, operand rank 0..3      : enumerated completely in both tiers
    RND  4-5 symbols, operand rank up to 4 : seeded random cases in both tiers
    RNDSQ  two operands of equal shape, rank 1..4 (einsum and tensordot) : seeded random cases

Found on the snapshot (both repaired in /repo, so classify() knows no finding):
    * einsum('a,aca->c', x, y): transpose-only shortcut of _parse_eq_to_batch_matmul taken for a term with
      a repeated index -> ValueError in the transpose (49 296 of the 446 365 keys of S3; exactly the keys
      for which _shortcut_mechanism() is true)                                         [fix 0e93552]
    * tensordot(a, b, <python int>): `axes[0]` raises TypeError, only IndexError was caught  [fix a2466a2]
"""

import importlib
import itertools
import re
import traceback

import numpy as np

from .. import ref
from ..common import Deadline, budget, rng_for

PID = "C11"
LEVEL = "exploration"
SIZES = (1, 2, 3)
RULE = (
    "case = (executor, equation, operand shapes). S2: every pair of terms (and every single term) of "
    "length 0..3 over 'ab' x every output that is a permutation of a subset of the indices present x every "
    "assignment of sizes {1,2,3} to the indices present, enumerated completely (case index modulo "
    "nshards). S3: the same over 'abc' - a seeded ~10% sample in quick, complete in thorough. TD: every "
    "pair of shapes from {1,2,3}^r, r=0..3, x every int axes n (python int and numpy int) whose last-n / "
    "first-n sizes match x every pair of equally long tuples of distinct axes with matching sizes, "
    "enumerated completely. RND: seeded random one-/two-operand equations over 4-5 symbols with rank up "
    "to 4, and random tensordot calls of rank up to 4; RNDSQ: seeded random two-operand einsum / tensordot "
    "calls with EQUAL operand shapes of rank 1..4. One label never has two sizes. Each key is run "
    "twice (integer data / planner cold, then float or complex data / planner warm, other keys in "
    "between). Every two-operand key (of every space) whose operand shapes are equal is ALSO run, with "
    "integer and with float / complex data, passing one and the same array object as both operands "
    "(witness field operands=same_object; the reference is evaluated on the same aliased call); a seeded "
    "12 % of all keys get one more execution whose operands are non-contiguous views (transposed / "
    "permuted base, step-2 slice, negative stride, Fortran order) or views of each other (b = a[::1], "
    "b = a.T). distinct = distinct (executor family, equation or axes, shapes); non-trivial = has a "
    "repeated index within an operand, a batch index (both operands and output), a dimension of size 1, "
    "or no contracted index"
)
ASSUMPTIONS = [
    "numpy.einsum / numpy.tensordot and the harness's gather-based evaluator agree (checked on every case; "
    "a disagreement makes the case inconclusive)",
    "numpy backend only (cotengra's einsum of a single operand therefore dispatches to numpy.einsum; the "
    "matmul-free plan of _parse_einsum_single is executed by a harness copy of the three application steps "
    "of _einsum_single)",
    "size-1 broadcasting of one label against a larger size is outside the property's domain and is not "
    "generated; negative tensordot axes are legal numpy axes and are decided (monitor negative_axes) since the repair of "
    "the second-operand case in /repo",
]
REQUIRED_MONITORS = [
    "einsum2_value",
    "einsum1_value",
    "plan1_value",
    "tensordot_value",
    "negative_axes",
    "exact_int",
    "ref_vs_numpy",
    "planner_cold",
    "planner_warm",
    "aliased_operands",
    "view_operands",
]
SHARD_TIMEOUT = {"quick": 400, "thorough": 3600}
BLOCK = 6  # keys whose first and second executions are interleaved
VIEW_FRACTION = 0.12  # keys that get one more execution with strided / mutually-viewing operands



def EXHAUSTIVE(tier):
    s2 = (
        "einsum: all one- and two-operand equations with terms of length 0..3 over the alphabet 'ab', every "
        "output = permutation of a subset of the indices present, every size assignment from {1,2,3}; "
        "tensordot: all pairs of operand shapes from {1,2,3}^r (r = 0..3), every admissible int axes and "
        "every pair of equally long tuples of distinct non-negative axes with matching sizes; every "
        "two-operand key with equal operand shapes additionally with one array object as both operands"
    )
    if tier == "thorough":
        return s2.replace("alphabet 'ab'", "alphabets 'ab' and 'abc'")
    return s2


def nshards(tier):
    return 16


def _cc():
    # ``cotengra.contract`` the attribute is the function; the module lives in sys.modules
    return importlib.import_module("cotengra.contract")


# --------------------------------------------------------------------------- #
#                                   spaces                                    #
# --------------------------------------------------------------------------- #


def all_terms(alpha, maxrank):
    out = []
    for r in range(maxrank + 1):
        out.extend("".join(t) for t in itertools.product(alpha, repeat=r))
    return out


def all_outputs(present):
    outs = []
    for k in range(len(present) + 1):
        for sub in itertools.combinations(present, k):
            outs.extend("".join(p) for p in itertools.permutations(sub))
    return outs


def space_einsum2(alpha, maxrank):
    """yield (eq, (shape_a, shape_b)) in a fixed order"""
    terms = all_terms(alpha, maxrank)
    for ta in terms:
        for tb in terms:
            present = sorted(set(ta + tb))
            outs = all_outputs(present)
            for sz in itertools.product(SIZES, repeat=len(present)):
                sd = dict(zip(present, sz))
                sa = tuple(sd[ix] for ix in ta)
                sb = tuple(sd[ix] for ix in tb)
                for out in outs:
                    yield f"{ta},{tb}->{out}", (sa, sb)


def space_einsum1(alpha, maxrank):
    for t in all_terms(alpha, maxrank):
        present = sorted(set(t))
        outs = all_outputs(present)
        for sz in itertools.product(SIZES, repeat=len(present)):
            sd = dict(zip(present, sz))
            s = tuple(sd[ix] for ix in t)
            for out in outs:
                yield f"{t}->{out}", (s,)


def space_tensordot(maxrank):
    """yield (axes_form, axes, (shape_a, shape_b)); axes_form in int | npint | tuple"""
    shapes = []
    for r in range(maxrank + 1):
        shapes.extend(itertools.product(SIZES, repeat=r))
    for sa in shapes:
        for sb in shapes:
            ra, rb = len(sa), len(sb)
            for n in range(min(ra, rb) + 1):
                if tuple(sa[ra - n :]) == tuple(sb[:n]):
                    yield "int", n, (sa, sb)
                    yield "npint", n, (sa, sb)
                for axa in itertools.permutations(range(ra), n):
                    for axb in itertools.permutations(range(rb), n):
                        if all(sa[i] == sb[j] for i, j in zip(axa, axb)):
                            yield "tuple", (axa, axb), (sa, sb)


# --------------------------------------------------------------------------- #
#                              case descriptions                              #
# --------------------------------------------------------------------------- #


def features_einsum(eq, shapes):
    lhs, out = eq.split("->")
    terms = lhs.split(",")
    f = set()
    if any(len(set(t)) != len(t) for t in terms):
        f.add("repeated")
    if any(d == 1 for s in shapes for d in s):
        f.add("size1")
    if len(terms) == 2:
        a, b = terms
        if any(ix in b and ix in out for ix in a):
            f.add("batch")
        if not any(ix in b and ix not in out for ix in a):
            f.add("nocontract")
            if set(a) == set(b) == set(out) and a:
                f.add("hadamard")
            if not (set(a) & set(b)):
                f.add("outer")
        if not a or not b:
            f.add("rank0")
    else:
        if all(ix in out for ix in terms[0]):
            f.add("nocontract")
        if not terms[0]:
            f.add("rank0")
    return f


def features_tensordot(axes_form, axes, shapes):
    f = set()
    if any(d == 1 for s in shapes for d in s):
        f.add("size1")
    n = axes if axes_form != "tuple" else len(axes[0])
    if n == 0:
        f.add("nocontract")
    if not shapes[0] or not shapes[1]:
        f.add("rank0")
    return f


NONTRIVIAL = {"repeated", "batch", "size1", "nocontract"}


# how the operands of one execution are laid out in memory (witness field "operands")
#   independent   every operand a fresh C-contiguous array (the default; field absent)
#   same_object   two operands of equal shape: THE SAME array object is passed twice (b is a)
#   view_slice    two operands of equal shape: b = a[::1], another object on the same memory
#   view_T        shape_b == reversed(shape_a): b = a.T, a transposed view of a
#   noncontig     every operand of rank >= 1 is a non-contiguous view of a larger / permuted base
#                 (transposed base, step-2 slice, negative stride, Fortran order), chosen per
#                 operand from the case seed
# The reference (E1 and numpy) is always evaluated on the very same operand objects.
OPERAND_MODES = ("independent", "same_object", "view_slice", "view_T", "noncontig")
LAYOUTS = ("T", "perm", "step2", "rev", "F")


def _fresh(nprng, shp, kind):
    shp = tuple(int(d) for d in shp)
    if kind == "int":
        # non-zero small integers: exact in float64, and no operand can hide an error by being 0
        a = nprng.integers(1, 6, size=shp).astype(np.float64)
        a = a * nprng.choice(np.array([1.0, 1.0, -1.0]), size=shp)
    elif kind == "complex":
        a = nprng.normal(size=shp) + 1j * nprng.normal(size=shp)
    else:
        a = nprng.normal(size=shp)
    return np.asarray(a)


def _noncontig(nprng, rng, shp, kind):
    """An array of shape ``shp`` that is a strided view of some base (rank 0: nothing to do)."""
    shp = tuple(int(d) for d in shp)
    r = len(shp)
    if r == 0:
        return _fresh(nprng, shp, kind), "c"
    lay = rng.choice(LAYOUTS)
    if r == 1 and lay in ("T", "perm", "F"):
        lay = rng.choice(["step2", "rev"])
    if lay == "T":
        a = _fresh(nprng, shp[::-1], kind).T
    elif lay == "perm":
        perm = list(range(r))
        rng.shuffle(perm)
        base = _fresh(nprng, tuple(shp[perm.index(i)] for i in range(r)), kind)
        a = base.transpose(perm)
    elif lay == "step2":
        ax = rng.randrange(r)
        big = list(shp)
        big[ax] *= 2
        a = _fresh(nprng, big, kind)[(slice(None),) * ax + (slice(rng.randrange(2), None, 2),)]
    elif lay == "rev":
        ax = rng.randrange(r)
        a = _fresh(nprng, shp, kind)[(slice(None),) * ax + (slice(None, None, -1),)]
    else:
        a = np.asfortranarray(_fresh(nprng, shp, kind))
    assert a.shape == shp, (lay, a.shape, shp)
    return a, lay


def mode_applicable(mode, shapes):
    shapes = [tuple(s) for s in shapes]
    if mode in (None, "independent", "noncontig"):
        return True
    if len(shapes) != 2:
        return False
    if mode in ("same_object", "view_slice"):
        return shapes[0] == shapes[1]
    if mode == "view_T":
        return shapes[1] == shapes[0][::-1]
    return False


def make_arrays(case_seed, shapes, kind, operands=None):
    """Deterministic operands from (case_seed, shapes, kind, operands mode)."""
    mode = operands or "independent"
    if mode not in OPERAND_MODES or not mode_applicable(mode, shapes):
        raise ValueError(f"operand mode {mode!r} not applicable to shapes {shapes}")
    nprng = np.random.default_rng(rng_for(case_seed, "arrays", kind).getrandbits(64))
    if mode == "independent":
        return [_fresh(nprng, shp, kind) for shp in shapes]
    if mode == "noncontig":
        rng = rng_for(case_seed, "layout", kind)
        return [_noncontig(nprng, rng, shp, kind)[0] for shp in shapes]
    a = _fresh(nprng, shapes[0], kind)
    if mode == "same_object":
        b = a
    elif mode == "view_slice":
        b = a[::1] if a.ndim else a[...]
        assert b is not a
    else:
        b = a.T
        if b is a:  # rank < 2: numpy may hand back the same object
            b = a[...]
    assert b.shape == tuple(shapes[1]) and (a.size == 0 or np.shares_memory(a, b))
    return [a, b]


def operand_info(arrays):
    """Diagnostic only (stored in the witness next to the replayable fields)."""
    info = [
        {"shape": list(a.shape), "strides": list(a.strides), "c_contiguous": bool(a.flags.c_contiguous)}
        for a in arrays
    ]
    if len(arrays) == 2:
        info.append({"same_object": arrays[0] is arrays[1], "shares_memory": bool(np.shares_memory(*arrays))})
    return info


def tensordot_equation(axes_form, axes, shapes):
    """The harness's own translation of an axes specification to an einsum (numpy's documented
    meaning: int n = last n axes of a with the first n of b, in order)."""
    sa, sb = shapes
    ra, rb = len(sa), len(sb)
    if axes_form == "tuple":
        axa, axb = (tuple(int(i) for i in axes[0]), tuple(int(i) for i in axes[1]))
    else:
        n = int(axes)
        axa, axb = tuple(range(ra - n, ra)), tuple(range(n))
    axa = tuple(i % ra if ra else i for i in axa)
    axb = tuple(i % rb if rb else i for i in axb)
    la = [chr(ord("a") + i) for i in range(ra)]
    lb = [chr(ord("A") + j) for j in range(rb)]
    for i, j in zip(axa, axb):
        lb[j] = la[i]
    out = [l for i, l in enumerate(la) if i not in axa] + [l for j, l in enumerate(lb) if j not in axb]
    return la, lb, out, (axa, axb)


# --------------------------------------------------------------------------- #
#                                  executors                                  #
# --------------------------------------------------------------------------- #


def apply_single_plan(plan, x):
    """The application part of cotengra.contract._einsum_single (everything after the
    ``do("einsum")`` attempt), copied: diagonal selection, summation, transposition."""
    from autoray import do

    diag_sels, sum_axes, perm = plan
    backend = None

    if diag_sels is not None:
        for selector in diag_sels:
            x = x[selector]

    if sum_axes is not None:
        x = do("sum", x, sum_axes, like=backend)

    if perm is not None:
        x = do("transpose", x, perm, like=backend)

    return x


def _planner_for(ex):
    cc = _cc()
    return {
        "einsum2": cc._parse_eq_to_batch_matmul,
        "plan1": cc._parse_einsum_single,
        "tensordot": cc._parse_tensordot_axes_to_matmul,
    }.get(ex)


def _axes_arg(case):
    form = case["axes_form"]
    if form == "int":
        return int(case["axes"])
    if form == "npint":
        return np.int64(case["axes"])
    axa = [int(i) for i in case["axes"][0]]
    axb = [int(i) for i in case["axes"][1]]
    neg = case.get("neg")
    if neg:
        # the same axes, some of them spelt negative (counted from the end) as numpy allows
        ra, rb = len(case["shapes"][0]), len(case["shapes"][1])
        axa = [i - ra if f else i for i, f in zip(axa, neg[0])]
        axb = [i - rb if f else i for i, f in zip(axb, neg[1])]
    return (tuple(axa), tuple(axb))


def reference(rep, case, arrays):
    """(want, bound, nsum) or None (inconclusive / outside numpy's domain)."""
    ex = case["ex"]
    shapes = [tuple(s) for s in case["shapes"]]
    try:
        if ex == "tensordot":
            la, lb, lo, _ = tensordot_equation(case["axes_form"], case["axes"], shapes)
            want, bound, nsum = ref.dense_einsum([la, lb], lo, arrays, with_bound=True)
        else:
            lhs, out = case["eq"].split("->")
            want, bound, nsum = ref.dense_einsum(lhs.split(","), out, arrays, with_bound=True)
    except Exception as e:  # generator bug, not the library's
        rep.inconclusive_case(f"reference failed on {case}: {e!r}")
        return None
    try:
        if ex == "tensordot":
            npv = np.tensordot(arrays[0], arrays[1], _axes_arg(case))
        else:
            npv = np.einsum(case["eq"], *arrays)
    except Exception as e:
        # not in the domain (numpy is the domain's definition)
        rep.count("numpy_rejects", f"{ex}: {type(e).__name__}")
        return None
    msg = ref.compare(npv, want, bound, nsum, len(arrays))
    if msg is None and case["kind"] == "int" and not np.array_equal(npv, want):
        msg = "integer data not exact"
    if msg is not None:
        rep.inconclusive_case(f"E1 disagrees with numpy on {case}: {msg}")
        return None
    rep.mon("ref_vs_numpy")
    return want, bound, nsum


def execute(rep, case):
    """Run one execution of one case through the oracle.  None or (kind, message, extra)."""
    cc = _cc()
    ex = case["ex"]
    shapes = [tuple(int(d) for d in s) for s in case["shapes"]]
    mode = case.get("operands") or "independent"
    arrays = make_arrays(case["case_seed"], shapes, case["kind"], mode)
    if mode == "same_object":
        assert arrays[0] is arrays[1]
    r = reference(rep, case, arrays)
    if r is None:
        return None
    want, bound, nsum = r

    planner = _planner_for(ex)
    before = planner.cache_info() if planner is not None else None
    try:
        if ex == "einsum2":
            got = cc.einsum(case["eq"], arrays[0], arrays[1])
        elif ex == "einsum1":
            got = cc.einsum(case["eq"], arrays[0])
        elif ex == "plan1":
            plan = cc._parse_einsum_single(case["eq"], shapes[0])
            got = apply_single_plan(plan, arrays[0])
        elif ex == "tensordot":
            got = cc.tensordot(arrays[0], arrays[1], _axes_arg(case))
        else:
            raise AssertionError(ex)
    except Exception as e:
        tb = traceback.extract_tb(e.__traceback__)
        where = next(
            (f"{f.name}:{f.line}" for f in reversed(tb) if "cotengra" in f.filename),
            "?",
        )
        return ("raises", f"{type(e).__name__}: {e} [at {where}]", _diag(case, shapes, arrays))
    finally:
        if before is not None:
            after = planner.cache_info()
            if after.misses > before.misses:
                rep.mon("planner_cold")
                rep.count("planner_cold", ex)
            elif after.hits > before.hits:
                rep.mon("planner_warm")
                rep.count("planner_warm", ex)

    rep.mon(f"{ex}_value")
    if case.get("neg"):
        rep.mon("negative_axes")
    if mode == "same_object":
        rep.mon("aliased_operands")
    elif mode != "independent":
        rep.mon("view_operands")
    got = np.asarray(got)
    if got.shape != want.shape:
        return ("shape", f"shape {got.shape} != expected {want.shape}", _diag(case, shapes, arrays))
    if case["kind"] == "int":
        if not np.array_equal(got, want):
            return (
                "value",
                f"exact integer data: got {got.tolist()!r:.200} expected {want.tolist()!r:.200}",
                _diag(case, shapes, arrays),
            )
        rep.mon("exact_int")
    else:
        msg = ref.compare(got, want, bound, nsum, len(arrays))
        if msg:
            return ("value", msg, _diag(case, shapes, arrays))
    return None


def _diag(case, shapes, arrays):
    """Diagnostic part of a witness (never read by replay): the library's plan for the key and
    the memory layout / identity of the operands actually passed."""
    return {"plan": _plan_of(case, shapes), "operand_info": operand_info(arrays)}


def _plan_of(case, shapes):
    """Diagnostic only: the plan the library's cached planner returns for the failing key."""
    cc = _cc()
    try:
        if case["ex"] == "einsum2":
            return list(cc._parse_eq_to_batch_matmul(case["eq"], shapes[0], shapes[1]))
        if case["ex"] == "tensordot":
            return list(cc._parse_tensordot_axes_to_matmul(_axes_arg(case), shapes[0], shapes[1]))
        if case["ex"] == "plan1":
            d, s, p = cc._parse_einsum_single(case["eq"], shapes[0])
            return [repr(d), s, p]
    except Exception as e:
        return f"planner raises {type(e).__name__}: {e}"
    return None


# --------------------------------------------------------------------------- #
#                       violations: in-shard de-duplication                   #
# --------------------------------------------------------------------------- #


class Sink:
    """One defect fires on hundreds of keys; keep a few witnesses per symptom signature so
    that a *different* mechanism can never be crowded out of the report's bounded violation
    list.  Every failing (key, executor) is counted."""

    PER_SIG = 3

    def __init__(self, rep):
        self.rep = rep
        self.n = {}

    def add(self, case, res):
        kind, msg, diag = res
        witness = dict(case)
        witness.update(diag)
        mode = case.get("operands") or "independent"
        v = {"kind": kind, "message": msg, "witness": witness}
        key = diagnose(v)
        skel = re.sub(r"[-+]?\d[\d.e+-]*", "#", msg)[:60] if kind == "raises" else ""
        # the operand mode is part of the signature: a defect that needs aliased / strided
        # operands is never crowded out by one that fires on every call
        sig = (key, case["ex"], kind, skel, mode)
        self.rep.count("failing_keys_by_symptom", f"{case['ex']}|{kind}|{key or skel}|operands={mode}")
        if key:
            msg = f"{msg} [diagnosis: {key}]"
        self.n[sig] = self.n.get(sig, 0) + 1
        if self.n[sig] <= self.PER_SIG:
            label = case.get("eq") or f"axes={case.get('axes')}({case.get('axes_form')})"
            self.rep.violation(
                kind, witness, f"{case['ex']} {label} shapes={case['shapes']} {case['kind']} operands={mode}: {msg}"
            )


# --------------------------------------------------------------------------- #
#                                   driver                                    #
# --------------------------------------------------------------------------- #


def _key_cases(space, desc, case_seed, second_kind):
    """the executions of one key: [(pass 1 cases), (pass 2 cases)]"""
    if space == "einsum2":
        eq, shapes = desc
        base = [{"ex": "einsum2", "eq": eq, "shapes": [list(s) for s in shapes]}]
    elif space == "einsum1":
        eq, shapes = desc
        base = [
            {"ex": "plan1", "eq": eq, "shapes": [list(s) for s in shapes]},
            {"ex": "einsum1", "eq": eq, "shapes": [list(s) for s in shapes]},
        ]
    else:
        form, axes, shapes = desc
        base = [
            {
                "ex": "tensordot",
                "axes_form": form,
                "axes": axes if form != "tuple" else [list(axes[0]), list(axes[1])],
                "shapes": [list(s) for s in shapes],
            }
        ]
    first = [dict(b, kind="int", case_seed=case_seed) for b in base]
    second = [dict(b, kind=second_kind, case_seed=case_seed) for b in base]
    rng = rng_for(case_seed, "operand-modes")
    if len(shapes) == 2 and mode_applicable("same_object", shapes):
        # equal operand shapes: the same call with ONE array object as both operands, integer and
        # float / complex data; on half of the keys the aliased call is the one that meets the cold planner
        al1 = [dict(c, operands="same_object") for c in first]
        al2 = [dict(c, operands="same_object") for c in second]
        first = al1 + first if rng.random() < 0.5 else first + al1
        second = second + al2
    if space == "tensordot" and form == "tuple" and len(axes[0]) >= 1:
        # "for every axes specification": one more execution with a seeded subset of the axes (of either
        # operand, at least one) spelt negative
        n = len(axes[0])
        while True:
            neg = [[rng.random() < 0.5 for _ in range(n)], [rng.random() < 0.5 for _ in range(n)]]
            if any(neg[0]) or any(neg[1]):
                break
        second = second + [dict(b, kind=rng.choice(["int", second_kind]), case_seed=case_seed, neg=neg) for b in base]
    if rng.random() < VIEW_FRACTION:
        modes = ["noncontig"] if any(len(s) for s in shapes) else []
        if len(shapes) == 2:
            # operands that are views of each other are rarer: prefer them where they exist
            modes += [m for m in ("view_slice", "view_T") if mode_applicable(m, shapes)] * 2
        if modes:
            m = rng.choice(modes)
            k = rng.choice(["int", second_kind])
            second = second + [dict(b, kind=k, case_seed=case_seed, operands=m) for b in base]
    return first, second


def _register(rep, space, desc, cls):
    if space == "tensordot":
        form, axes, shapes = desc
        f = features_tensordot(form, axes, shapes)
        key = ("td", form, axes, shapes)
        sample = {"axes": axes, "axes_form": form, "shapes": shapes}
    else:
        eq, shapes = desc
        f = features_einsum(eq, shapes)
        key = (space, eq, shapes)
        sample = {"eq": eq, "shapes": shapes, "space": cls}
    rep.case(key, bool(f & NONTRIVIAL), cls, sample=sample)
    for x in f:
        rep.count("features", x)
    if not f:
        rep.count("features", "plain")


def run_block(rep, sink, block):
    """block: list of (space, desc, cls, case_seed, second_kind)."""
    passes = []
    for space, desc, cls, cs, k2 in block:
        _register(rep, space, desc, cls)
        passes.append(_key_cases(space, desc, cs, k2))
    failed = set()
    for which in (0, 1):
        for i, p in enumerate(passes):
            for case in p[which]:
                mode = case.get("operands") or "independent"
                tag = (i, case["ex"], mode)
                if tag in failed:
                    continue  # one witness per key, executor and operand mode
                if mode != "independent":
                    rep.count("operand_modes", f"{case['ex']}|{mode}")
                res = execute(rep, case)
                if res:
                    failed.add(tag)
                    sink.add(case, res)


def run_space(rep, sink, name, space, items, shard, nshards, seed, select=None):
    """items: iterable of descs; the i-th selected desc belongs to shard i % nshards."""
    total = 0
    chosen = 0
    done = 0
    block = []
    for idx, desc in enumerate(items):
        total += 1
        if select is not None and not select(idx):
            continue
        mine = chosen % nshards == shard
        chosen += 1
        if not mine:
            continue
        cs = f"{seed}/{PID}/{name}/{idx}"
        k2 = "float" if idx % 2 == 0 else "complex"
        block.append((space, desc, name, cs, k2))
        done += 1
        if len(block) >= BLOCK:
            run_block(rep, sink, block)
            block = []
    if block:
        run_block(rep, sink, block)
    if shard == 0:
        rep.count("space_size", name, total)
        rep.count("space_selected", name, chosen)
    rep.count("space_done", name, done)


def sampler(seed, name, frac):
    rng = rng_for(seed, PID, "sample", name)
    state = {"next": 0}

    def select(idx):
        # called with idx = 0, 1, 2, ... in order by every shard: same decisions everywhere
        assert idx == state["next"]
        state["next"] += 1
        return rng.random() < frac

    return select


def run_shard(rep, tier, seed, shard, nshards):
    sink = Sink(rep)
    # -- complete spaces -----------------------------------------------------
    run_space(rep, sink, "S2-einsum2", "einsum2", space_einsum2("ab", 3), shard, nshards, seed)
    run_space(rep, sink, "S2-einsum1", "einsum1", space_einsum1("ab", 3), shard, nshards, seed)
    run_space(rep, sink, "TD-rank3", "tensordot", space_tensordot(3), shard, nshards, seed)
    # single operand: cheap enough to enumerate the 3-symbol space up to rank 4 in both tiers
    run_space(rep, sink, "S3-einsum1-rank4", "einsum1", space_einsum1("abc", 4), shard, nshards, seed)
    # -- the 3-symbol two-operand space ---------------------------------------
    if tier == "thorough":
        run_space(rep, sink, "S3-einsum2", "einsum2", space_einsum2("abc", 3), shard, nshards, seed)
    else:
        run_space(
            rep, sink, "S3-einsum2-sample", "einsum2", space_einsum2("abc", 3), shard, nshards, seed,
            select=sampler(seed, "S3", 0.10),
        )
    # -- random larger cases --------------------------------------------------
    run_random(rep, sink, tier, seed, shard)
    run_random_square(rep, sink, tier, seed, shard)
    run_random_empty(rep, sink, tier, seed, shard)
    if shard == 0:
        probe_negative_axes(rep)


# ------------------------------ random cases -------------------------------- #

LETTERS = "abcdefghxyzABXY"


def rand_desc(rng, SIZES=SIZES, nsyms=(4, 5)):
    what = rng.random()
    nsym = rng.choice(nsyms)
    alpha = rng.sample(LETTERS, nsym)
    sd = {ix: rng.choice(SIZES) for ix in alpha}
    if what < 0.6:
        ra = rng.choice([1, 2, 3, 4, 4])
        rb = rng.choice([0, 1, 2, 3, 4, 4]) if ra == 4 else 4
        if rng.random() < 0.5:
            ra, rb = rb, ra
        # bias: share symbols between the operands
        ta = "".join(rng.choice(alpha) for _ in range(ra))
        pool = list(alpha) + list(ta) * 2
        tb = "".join(rng.choice(pool) for _ in range(rb))
        present = sorted(set(ta + tb))
        out = [ix for ix in present if rng.random() < 0.55]
        rng.shuffle(out)
        shapes = (tuple(sd[ix] for ix in ta), tuple(sd[ix] for ix in tb))
        return "einsum2", (f"{ta},{tb}->{''.join(out)}", shapes)
    if what < 0.8:
        r = rng.choice([4, 4, 5])
        t = "".join(rng.choice(alpha) for _ in range(r))
        present = sorted(set(t))
        out = [ix for ix in present if rng.random() < 0.6]
        rng.shuffle(out)
        return "einsum1", (f"{t}->{''.join(out)}", (tuple(sd[ix] for ix in t),))
    # tensordot, at least one operand of rank 4
    ra = rng.choice([2, 3, 4, 4])
    rb = 4 if ra < 4 else rng.choice([1, 2, 3, 4])
    if rng.random() < 0.5:
        ra, rb = rb, ra
    n = rng.randint(0, min(ra, rb))
    sa = [rng.choice(SIZES) for _ in range(ra)]
    sb = [rng.choice(SIZES) for _ in range(rb)]
    if rng.random() < 0.3:
        for k in range(n):
            sb[k] = sa[ra - n + k]
        form = rng.choice(["int", "npint"])
        return "tensordot", (form, n, (tuple(sa), tuple(sb)))
    axa = tuple(rng.sample(range(ra), n))
    axb = tuple(rng.sample(range(rb), n))
    for i, j in zip(axa, axb):
        sb[j] = sa[i]
    return "tensordot", ("tuple", (axa, axb), (tuple(sa), tuple(sb)))


def rand_square_desc(rng):
    """Two operands of EQUAL shape (rank 1..4), so that the aliased / mutually-viewing operand modes
    apply; half of the einsum cases keep every index (pure multiplication: outer, Hadamard, batch)."""
    nsym = rng.choice([3, 4, 5])
    alpha = rng.sample(LETTERS, nsym)
    few = rng.sample(SIZES, rng.choice([1, 2, 2]))  # few distinct sizes: many labels are interchangeable
    sd = {ix: rng.choice(few) for ix in alpha}
    r = rng.choice([1, 2, 2, 3, 3, 4, 4])
    if rng.random() < 0.65:
        ta = [rng.choice(alpha) for _ in range(r)]
        mode = rng.random()
        if mode < 0.2:
            tb = list(ta)
        elif mode < 0.4:
            tb = list(ta)
            rng.shuffle(tb)
            if [sd[x] for x in tb] != [sd[x] for x in ta]:
                tb = list(ta)
        else:
            tb = [rng.choice([x for x in alpha if sd[x] == sd[c]]) for c in ta]
        present = sorted(set(ta + tb))
        if rng.random() < 0.5:
            out = list(present)
        else:
            out = [ix for ix in present if rng.random() < 0.55]
        rng.shuffle(out)
        shp = tuple(sd[ix] for ix in ta)
        return "einsum2", (f"{''.join(ta)},{''.join(tb)}->{''.join(out)}", (shp, shp))
    sa = tuple(rng.choice(few) for _ in range(r))
    n = rng.choice([0, 0, rng.randint(0, r)])
    if rng.random() < 0.3 and tuple(sa[r - n :]) == tuple(sa[:n]):
        return "tensordot", (rng.choice(["int", "npint"]), n, (sa, sa))
    axa = tuple(rng.sample(range(r), n))
    axb = axa
    for _ in range(8):
        cand = tuple(rng.sample(range(r), n))
        if all(sa[i] == sa[j] for i, j in zip(axa, cand)):
            axb = cand
            break
    return "tensordot", ("tuple", (axa, axb), (sa, sa))


def run_random_square(rep, sink, tier, seed, shard):
    dl = Deadline(budget(tier, 100, 1200))
    n = budget(tier, 300, 7500)
    block = []
    done = 0
    for k in range(n):
        if dl.expired():
            rep.note(f"random equal-shape workload stopped by its deadline after {k} cases")
            break
        cs = f"{seed}/{PID}/RNDSQ/{shard}/{k}"
        rng = rng_for(cs)
        space, desc = rand_square_desc(rng)
        block.append((space, desc, f"RNDSQ-{space}", cs, rng.choice(["float", "complex"])))
        done += 1
        if len(block) >= BLOCK:
            run_block(rep, sink, block)
            block = []
    if block:
        run_block(rep, sink, block)
    rep.count("space_done", "RNDSQ", done)


def run_random(rep, sink, tier, seed, shard):
    # sized by case count; the deadline is only a guard far above the unloaded time (quick ~3 s,
    # thorough ~60 s per shard) so that coverage does not collapse on a loaded machine
    dl = Deadline(budget(tier, 200, 2400))
    n = budget(tier, 2400, 60000)
    block = []
    done = 0
    for k in range(n):
        if dl.expired():
            rep.note(f"random workload stopped by its deadline after {k} cases")
            break
        cs = f"{seed}/{PID}/RND/{shard}/{k}"
        rng = rng_for(cs)
        space, desc = rand_desc(rng)
        block.append((space, desc, f"RND-{space}", cs, rng.choice(["float", "complex"])))
        done += 1
        if len(block) >= BLOCK:
            run_block(rep, sink, block)
            block = []
    if block:
        run_block(rep, sink, block)
    rep.count("space_done", "RND", done)


ZERO_SIZES = (0, 0, 1, 2, 3)


def run_random_empty(rep, sink, tier, seed, shard):
    """EMPTY: operands with a dimension of size 0 (an empty batch, an empty bond): the reference value
    is well defined (an empty array, or zeros where the empty index is summed) and numpy returns it."""
    dl = Deadline(budget(tier, 100, 1200))
    n = budget(tier, 700, 12000)
    block = []
    done = 0
    for k in range(n):
        if dl.expired():
            rep.note(f"empty-dimension workload stopped by its deadline after {k} cases")
            break
        cs = f"{seed}/{PID}/EMPTY/{shard}/{k}"
        rng = rng_for(cs)
        space, desc = rand_desc(rng, ZERO_SIZES, nsyms=(2, 3, 3, 4))
        shapes = desc[-1]
        if not any(0 in shp for shp in shapes):
            continue
        block.append((space, desc, f"EMPTY-{space}", cs, rng.choice(["float", "complex"])))
        done += 1
        rep.mon("empty_dimension")
        if len(block) >= BLOCK:
            run_block(rep, sink, block)
            block = []
    if block:
        run_block(rep, sink, block)
    rep.count("space_done", "EMPTY", done)


def probe_negative_axes(rep):
    """Information only (numpy accepts negative axes; the library documents ints without saying
    which): counted, never a verdict."""
    cc = _cc()
    a = np.arange(6.0).reshape(2, 3)
    b = np.arange(12.0).reshape(3, 4)
    for axes in (((-1,), (0,)), ((1,), (-2,)), ((-1,), (-2,))):
        try:
            got = cc.tensordot(a, b, axes)
            want = np.tensordot(a, b, axes)
            ok = np.shape(got) == want.shape and np.array_equal(got, want)
            rep.count("negative_axes_probe", f"{axes}: {'agrees' if ok else 'DIFFERS from numpy'}")
        except Exception as e:
            rep.count("negative_axes_probe", f"{axes}: raises {type(e).__name__}")


# --------------------------------------------------------------------------- #
#                          classification / replay                            #
# --------------------------------------------------------------------------- #


def _shortcut_mechanism(eq, shapes):
    """Diagnosis only (repaired defect F6, commit 0e93552): True iff, for this two-operand key,
    the planner's old 'only need to transpose' test (set(term) == set(desired)) holds for an
    operand that has a repeated index, on the batched-matmul path (at least one contracted
    index of size > 1).  Derived from the witness alone.  On the unrepaired tree the failing
    two-operand keys of the complete 'abc' rank<=3 space were exactly the keys with this
    predicate (49 296 of 446 365)."""
    try:
        lhs, out = eq.split("->")
        ta, tb = lhs.split(",")
        sa, sb = shapes
    except ValueError:
        return False
    if len(ta) != len(sa) or len(tb) != len(sb):
        return False
    size = {}
    for t, s in ((ta, sa), (tb, sb)):
        for ix, d in zip(t, s):
            if size.setdefault(ix, d) != d:
                return False  # outside the domain
    live = lambda ix: size[ix] != 1  # noqa: E731
    if not any(live(ix) and ix in tb and ix not in out for ix in ta):
        return False  # pure multiplication path: the shortcut is not involved
    for term, other in ((ta, tb), (tb, ta)):
        if len(set(term)) == len(term):
            continue
        desired = {ix for ix in term if live(ix) and (ix in other or ix in out)}
        if desired == set(term):
            return True
    return False


def diagnose(v):
    """A short mechanism label for the message / in-shard grouping; never a known-finding key."""
    w = v.get("witness", {})
    msg = v.get("message", "")
    if (
        w.get("ex") == "einsum2"
        and v.get("kind") == "raises"
        and "ValueError" in msg
        and "[at _do_contraction_via_bmm:" in msg
        and 'do("transpose"' in msg
        and _shortcut_mechanism(w.get("eq", ""), w.get("shapes", [[], []]))
    ):
        plan = w.get("plan")
        if isinstance(plan, (list, tuple)) and len(plan) >= 2:
            for prep, shp in zip(plan[:2], w["shapes"]):
                if isinstance(prep, (list, tuple)) and len(prep) < len(shp):
                    return "transpose-only preparation shorter than the operand rank (repeated index)"
    return None


def classify(v):
    # no known finding remains for C11 (both defects found on the snapshot are repaired in /repo)
    return None


def replay(rep, v):
    # "operands" (same_object / view_* / noncontig) is part of the case and is honoured by execute()
    case = {k: x for k, x in v["witness"].items() if k not in ("plan", "operand_info")}
    for _ in (0, 1):  # cold, then warm
        res = execute(rep, case)
        if res:
            w = dict(case)
            w.update(res[2])
            rep.violation(
                res[0],
                w,
                f"{case['ex']} {case.get('eq', case.get('axes'))} shapes={case['shapes']} "
                f"operands={case.get('operands') or 'independent'}: {res[1]}",
            )
            return


def finalize(rep, tier):
    size = rep.extra.get("space_selected", {})
    done = rep.extra.get("space_done", {})
    incomplete = {k: (done.get(k, 0), n) for k, n in size.items() if done.get(k, 0) != n}
    out = {"spaces_complete": not incomplete}
    if incomplete:
        out["exhaustive"] = False
        out["spaces_incomplete"] = {k: f"{a}/{b}" for k, (a, b) in incomplete.items()}
    return out
