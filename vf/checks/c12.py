"""C12 - the einsum front end accepts what numpy.einsum accepts and means the same.

Oracle: ``numpy.einsum(*args)`` IS the specification.  A grammar-based generator produces call
forms (explicit / implicit output, ``...`` anywhere with 0-3 right-aligned broadcast dimensions
per operand, interleaved operand/sublist form, single-operand fast paths, scalars, repeated
indices, spaces); whenever numpy accepts a call, ``cotengra.einsum(*same args)`` must return an
array of the same shape and value (sound rounding bound from numpy.einsum on the absolute
values; a third of the cases carry small-integer data and must match exactly).  numpy raising
discards the case (counted).  ``array_contract`` (arbitrary hashable labels, output given or
``None`` = indices appearing once, in order of first appearance) and ``ncon`` (negative labels
-1, -2, ... give the output order) are compared with numpy.einsum on the equivalent
single-character equation built by the harness.

Many labels (monitor many_labels): one contraction in every 64 cases has 27-70 distinct labels (20-55
small tensors, sizes 1-3, product of all sizes < 2e5, labels appearing exactly once spread over the
appearance ranks 1-26, 27-52 and > 52 - the canonical symbols of these three ranges are a-z, A-Z and
chr(192).., whose sorted order is NOT the order of first appearance).  ``array_contract`` (and, with the
same arguments, ``array_contract_expression`` / ``array_contract_tree(...).contract`` /
``array_contract_path`` fed back as ``optimize``; output None in 85 %) is compared in shape and value with
numpy.einsum in integer-sublist form, the documented first-appearance output spelled out (<= 52 labels),
or, beyond numpy's 52 labels, with E1 on the call with the size-1 labels squeezed away (cross-checked
against numpy.einsum on the same squeezed call).  ``cotengra.einsum`` gets string / interleaved calls with
27-52 distinct symbols over numpy's whole alphabet a-zA-Z (implicit output: sorted, upper case first).

Front-end routes (monitors fe_* and the option monitors; one extra case per 4 ordinary ones, own seed stream):
a call produced by the same grammars (no size-1 broadcasting) is sent through ANOTHER entry point of
cotengra/interface.py and / or with arguments that must not change the value, and is still compared with
numpy.einsum over the FULL operand list in the original positions:

  routes     einsum_expression / array_contract_expression built from shapes (given as tuples, lists, numpy
             integers, or size_dict), with ``constants=`` naming 0, some, all-but-one or ALL operands (list / tuple /
             set of positions resp. {position: array}); the expression object is then called 1-3 times, every
             call with NEW variable arrays (monitor expr_recall_new_arrays; constants folded when the
             expression is built, by partial contraction whenever the tree joins two constants);
             einsum_tree / array_contract_tree from shapes only, then tree.contract(arrays);
             array_contract_path from shapes only: the path must be a valid linear path (path_route_valid) and is
             fed back as ``optimize``; einsum / array_contract / ncon called directly with the options below
  optimize   built-in presets (also 'dp', 'opt_einsum:greedy'), user presets registered with register_preset
             (path function only / path and tree function / tree function only), explicit paths (tuple, list,
             list of lists), edge paths, a ContractionTree of the same call (plain or sliced - the latter reaches
             the Variadic wrapper), optimizer objects (GreedyOptimizer: .search; a plain function)
  options    via=(x -> s_in * x, y -> s_out * y) with the reference computed through the same conversions
             (constants are converted when the expression is built, variables at every call, the result once),
             backend='numpy' (WithBackend / backend_like), implementation in {cotengra, autoray, a user pair},
             prefer_einsum, autojit, sort_contraction_indices, strip_exponent (value = mantissa * 10**exponent;
             float data only), cache / cache_expression=False, canonicalize=True / False (False with
             single-letter labels: normalize_input without canonicalisation, implicit output in order of first
             appearance, sizes from shapes)

A user-registered preset must behave like the function registered under its name: on the path and tree
routes the intermediates of the returned path / tree must be those of the path the function returns
(user_preset_model; the three functions return fixed path families that depend on the number of operands only),
and whenever no cache can stand in and the front end does not pre-empt the choice the function must really
have been called (user_preset_consulted).  The four classes the library used to fail on (FINDINGS_widen-c.md
F1-F4, repaired in cf6fb6b / df9c948 / f2a0970) are generated and counted by their own monitors: ALL operands
constant - the expression is called without arguments, 1-3 times (expr_all_constants); a one-operand call that
returns its operand unchanged, built with an EMPTY constants set (identity_empty_constants); one-operand calls
through einsum_tree / array_contract_tree + tree.contract (one_operand_tree); the empty explicit path () / [] as
``optimize`` of a one-operand call (empty_explicit_path) and the empty path that array_contract_path returns
(one operand; an edge path that joins nothing) fed back as ``optimize`` (empty_path_fed_back).

``classify`` recognises mechanisms by *differential confirmation*: a violation gets a key only if
exactly one "repair" of the call is applicable and makes the very same oracle pass:

  ellipsis-size1-broadcast (K1)       every size-1 broadcast ('...') dimension that meets a size
                                      n > 1 on another operand is physically repeated n times
  equation-whitespace                 the same equation without blanks
  output-only-ellipsis                '...' in the output although no input has one (numpy: zero
                                      broadcast dims) -> the same output without it
  interleaved-implicit-output-order   interleaved call without output sublist -> numpy's implicit
                                      output (labels appearing once, sorted by label) written out

(if none suffices alone but all applicable ones together do, the key is their '+'-join).  Anything
else is None.  The K1 pattern is only ever produced by the tagged class 'k1-size1-broadcast',
which is kept free of the other three mechanisms; all other classes give every broadcast
dimension one size on all operands.
"""

import math
import traceback

import numpy as np

from .. import ref
from ..common import Deadline, Report, budget, rng_for

PID = "C12"
LEVEL = "exploration"
RULE = (
    "grammar-based generator of call forms: 1-4 operands; alphabets chosen to collide with the "
    "symbols the ellipsis expansion picks first (a, b, c), upper case, mixed; explicit / implicit "
    "output; spaces; '...' at start / middle / end on some or all operands with 0-3 right-aligned "
    "broadcast dims per operand; '...' anywhere in (or omitted from) explicit outputs; interleaved "
    "(op, sublist, ..., [out]) form with int sublists and Ellipsis; single-operand fast paths; "
    "repeated indices; rank-0 operands; sizes 1-4; optimize in {greedy, optimal, auto}; plus a "
    "tagged class with size-1 broadcasting of ellipsis dims (K1); array_contract with int / tuple / "
    "str / frozenset / mixed labels, output given or None, size_dict given or not; ncon networks; "
    "plus, once per 64 cases, a contraction with many labels: array_contract / array_contract_expression "
    "/ array_contract_tree / array_contract_path with 27-70 distinct labels of the same kinds (20-55 "
    "tensors of rank 1-5, sizes 1-3, 2-8 labels appearing once spread over appearance ranks <=26, 27-52 "
    "and >52, output None in 85 %), or cotengra.einsum (string / interleaved, implicit / explicit output) "
    "with 27-52 distinct symbols from a-zA-Z; "
    "plus, once per 4 cases (own seed stream), a call of the same grammars (without size-1 broadcasting) sent through a "
    "front-end route: einsum_expression / array_contract_expression from shapes with constants = none / empty / some / "
    "all-but-one / all operands and 1-3 calls with new variable arrays (none to pass when all are constant), einsum_tree / array_contract_tree from shapes + "
    "tree.contract, array_contract_path fed back as optimize, or the direct call; optimize drawn from built-in presets, "
    "3 user-registered presets, explicit / edge paths, a (sliced) ContractionTree of the same call, optimizer objects; "
    "options via (scaling conversions), backend, implementation, prefer_einsum, autojit, sort_contraction_indices, "
    "strip_exponent, cache off, canonicalize on / off; shapes as tuples / lists / numpy ints / size_dict. "
    "distinct = distinct (form, equation skeleton [symbols replaced by their sorted rank], rank "
    "pattern); non-trivial = has an ellipsis or an implicit output, or (front-end "
    "routes) another entry point than the plain call, constants, a non-preset optimize or any option"
)
ASSUMPTIONS = [
    "numpy.einsum (2.x, optimize=False, C implementation) is the specification; it is cross-checked per "
    "case against the harness's own gather-based evaluator on the harness's expansion of the call "
    "(monitor numpy_vs_E1; a disagreement is reported as inconclusive, never as a violation)",
    "numpy backend only",
    "contractions with more than 52 labels cannot be written as one numpy.einsum call: the reference is the "
    "harness's gather-based evaluator E1 applied after removing every size-1 label (a size-1 label selects "
    "element 0 and contributes one summand), cross-checked against numpy.einsum on the same reduced call",
    "front-end routes: the conversion functions given as via=, the user supplied implementation pair (numpy.einsum / "
    "numpy.tensordot behind a counter) and the three registered preset functions are the harness's own; a ContractionTree "
    "passed as optimize is obtained from the library's own einsum_tree / array_contract_tree for the same call; "
    "strip_exponent results are judged as mantissa * 10**exponent within the same sound bound",
    "witnesses kept per shard: 1 per (confirmed mechanism key, monitor), 2 per (monitor, raises|shape|value) for "
    "unexplained failures; every failure is counted in 'violations_by_signature'",
]
REQUIRED_MONITORS = [
    "einsum_vs_numpy",
    "array_contract_vs_numpy",
    "ncon_vs_numpy",
    "interleaved_vs_numpy",
    "single_operand_vs_numpy",
    "many_labels",
    "fe_direct_options",
    "fe_einsum_expression",
    "fe_einsum_tree",
    "fe_array_contract_expression",
    "fe_array_contract_tree",
    "fe_array_contract_path",
    "path_route_valid",
    "expr_constants",
    "expr_recall_new_arrays",
    "via_conversion",
    "backend_kwarg",
    "strip_exponent",
    "no_canonicalize",
    "no_canonicalize_raw_labels",
    "user_preset",
    "user_preset_model",
    "user_preset_consulted",
    "optimize_object",
    "sliced_tree_as_optimize",
    "explicit_path",
    "expr_all_constants",
    "identity_empty_constants",
    "one_operand_tree",
    "empty_explicit_path",
    "empty_path_fed_back",
]
SHARD_TIMEOUT = {"quick": 400, "thorough": 3600}

MANY_EVERY = 64  # one many-label contraction per this many ordinary cases
K1_KEY = "ellipsis-size1-broadcast"
ELL = "..."
OPTIMIZE = ("greedy", "greedy", "optimal", "auto")

POOLS = {
    "low": "abcdefg",  # exactly what the ellipsis expansion would pick first
    "low2": "acebd",
    "upper": "ABCDEFG",
    "mixed": "aBcDZzAb",
    "late": "ijklmnxyz",
    "edge": "azAZbYc",
}


def nshards(tier):
    return 16


# --------------------------------------------------------------------------- #
#                           label (de)serialisation                           #
# --------------------------------------------------------------------------- #


def enc_label(x):
    if isinstance(x, bool):
        raise TypeError("bool labels not generated")
    if isinstance(x, int):
        return ["i", x]
    if isinstance(x, str):
        return ["s", x]
    if isinstance(x, tuple):
        return ["t", [enc_label(v) for v in x]]
    if isinstance(x, frozenset):
        return ["f", sorted((enc_label(v) for v in x), key=repr)]
    raise TypeError(type(x))


def dec_label(e):
    t = e[0]
    if t == "i":
        return int(e[1])
    if t == "s":
        return str(e[1])
    if t == "t":
        return tuple(dec_label(v) for v in e[1])
    if t == "f":
        return frozenset(dec_label(v) for v in e[1])
    raise ValueError(e)


# --------------------------------------------------------------------------- #
#                                    data                                     #
# --------------------------------------------------------------------------- #


def make_arrays(case):
    """Deterministic operand data from (case_seed, shapes, kind); then the optional physical
    widening used by the differential confirmation."""
    nprng = np.random.default_rng(rng_for(case["case_seed"], "arrays").getrandbits(64))
    kind = case["kind"]
    out = []
    for shp in case["shapes"]:
        shp = tuple(int(d) for d in shp)
        if kind == "int":
            a = nprng.integers(-3, 4, size=shp).astype(np.float64)
        elif kind == "smallint":
            # many-operand products: non-zero (no operand can hide an error by being 0) and mostly
            # +-1, so that every partial sum stays an exactly representable integer
            a = nprng.choice(np.array([1.0, 1.0, 1.0, -1.0, -1.0, 2.0, -2.0]), size=shp)
        elif kind == "int64":
            a = nprng.integers(-3, 4, size=shp).astype(np.int64)
        elif kind == "complex":
            a = nprng.normal(size=shp) + 1j * nprng.normal(size=shp)
        else:
            a = nprng.normal(size=shp)
        out.append(a)
    for op, axis, n in case.get("widen") or []:
        out[op] = np.repeat(out[op], n, axis=axis)
    return out


def exact_kind(kind):
    return kind in ("int", "int64", "smallint")


# --------------------------------------------------------------------------- #
#                       structure of an einsum-type call                      #
# --------------------------------------------------------------------------- #


def split_terms(case):
    """-> (ins, out) where ins = [(named tuple, ellpos|None)], out = same or None (implicit).
    Works from the witness alone (string with spaces removed, or interleaved sublists)."""

    def one(tokens):
        tokens = list(tokens)
        if ELL in tokens:
            p = tokens.index(ELL)
            return tuple(tokens[:p] + tokens[p + 1 :]), p
        return tuple(tokens), None

    def tok(term):
        res = []
        i = 0
        while i < len(term):
            if term.startswith(ELL, i):
                res.append(ELL)
                i += 3
            else:
                res.append(term[i])
                i += 1
        return res

    if case["entry"] == "einsum":
        eq = case["eq"].replace(" ", "")
        lhs, *rhs = eq.split("->")
        ins = [one(tok(t)) for t in lhs.split(",")]
        out = one(tok(rhs[0])) if rhs else None
        return ins, out
    ins = [one(s) for s in case["sublists"]]
    out = one(case["out"]) if case.get("out") is not None else None
    return ins, out


def size1_broadcast_pattern(case):
    """The K1 pattern, read off the witness: list of (operand, axis, n) where the operand has
    size 1 on a broadcast (ellipsis) dimension on which, after right-alignment, another operand
    has size n > 1.  Empty list = pattern absent."""
    if case["entry"] not in ("einsum", "interleaved"):
        return []
    try:
        ins, _out = split_terms(case)
    except Exception:
        return []
    if len(ins) != len(case["shapes"]):
        return []
    per_op = []
    for (named, ellpos), shp in zip(ins, case["shapes"]):
        if ellpos is None:
            per_op.append(None)
            continue
        nb = len(shp) - len(named)
        if nb < 0:
            return []
        per_op.append((ellpos, nb, [int(d) for d in shp[ellpos : ellpos + nb]]))
    L = max([p[1] for p in per_op if p is not None], default=0)
    widen = []
    for r in range(1, L + 1):
        have = [(i, p) for i, p in enumerate(per_op) if p is not None and p[1] >= r]
        sizes = {p[2][-r] for _i, p in have}
        if len(sizes) == 2 and 1 in sizes:
            n = max(sizes)
            for i, p in have:
                if p[2][-r] == 1:
                    widen.append([i, p[0] + p[1] - r, n])
    # already widened dims no longer show the pattern: physical arrays are what matters
    done = {(w[0], w[1]) for w in case.get("widen") or []}
    return [w for w in widen if (w[0], w[1]) not in done]


def has_ellipsis(case):
    if case["entry"] == "einsum":
        return "." in case["eq"]
    if case["entry"] == "interleaved":
        return any(ELL in s for s in case["sublists"]) or ELL in (case.get("out") or [])
    return False


# --------------------------------------------------------------------------- #
#                         building the actual arguments                       #
# --------------------------------------------------------------------------- #


def _sub(s):
    return [Ellipsis if t == ELL else int(t) for t in s]


def einsum_args(case, arrays):
    if case["entry"] == "einsum":
        return [case["eq"], *arrays]
    args = []
    for a, s in zip(arrays, case["sublists"]):
        args += [a, _sub(s)]
    if case.get("out") is not None:
        args.append(_sub(case["out"]))
    return args


def equivalent_eq(case):
    """For array_contract / ncon: the harness's own single-character explicit equation."""
    if case["entry"] == "array_contract":
        m = {}
        terms = []
        for term in case["inputs"]:
            terms.append([m.setdefault(repr(e), _sym(len(m))) for e in term])
        if case["output"] is None:
            flat = [c for t in terms for c in t]
            out = []
            for c in flat:  # appearing once, in order of first appearance
                if flat.count(c) == 1 and c not in out:
                    out.append(c)
        else:
            out = [m[repr(e)] for e in case["output"]]
        return ",".join("".join(t) for t in terms) + "->" + "".join(out)
    # ncon
    m = {}
    terms = [[m.setdefault(int(l), _sym(len(m))) for l in term] for term in case["indices"]]
    neg = sorted((l for l in m if l < 0), reverse=True)  # -1, -2, ...
    return ",".join("".join(t) for t in terms) + "->" + "".join(m[l] for l in neg)


def _sym(i):
    return "abcdefghijklmnopqrstuvwxyzABCDEFGHIJKLMNOPQRSTUVWXYZ"[i]


NP_MAX_LABELS = 52  # numpy.einsum: 52 letters, integer sublist labels 0..51
NP_MAX_OPERANDS = 60  # below numpy's operand limit (NPY_MAXARGS = 64)


def numbered(case):
    """array_contract: labels -> 0, 1, 2, ... in order of first appearance; (terms, output) with the
    documented implicit output (labels appearing exactly once, in order of first appearance)."""
    num = {}
    terms = [[num.setdefault(repr(e), len(num)) for e in term] for term in case["inputs"]]
    if case["output"] is None:
        flat = [k for t in terms for k in t]
        cnt = {}
        for k in flat:
            cnt[k] = cnt.get(k, 0) + 1
        out = [k for k in dict.fromkeys(flat) if cnt[k] == 1]
    else:
        out = [num[repr(e)] for e in case["output"]]
    return terms, out


def many_reference(rep, case, arrays):
    """The specification for an array_contract call with many (27-70) distinct labels, where no
    single-character equation exists.  Returns (want, bound, nsum) or None (inconclusive).

    <= 52 labels: numpy.einsum in integer-sublist form, the documented output spelled out, cross-checked
    against E1.  More labels: numpy cannot express the call; E1 (label-agnostic) on the call with all
    size-1 labels squeezed away (numpy arrays have at most 64 dims; a size-1 label contributes a factor
    x[..., 0, ...] and one summand) is the reference, cross-checked against numpy.einsum on the same
    squeezed call."""
    terms, out = numbered(case)
    n = len(arrays)
    sizes = {}
    for t, a in zip(terms, arrays):
        for k, d in zip(t, a.shape):
            sizes[k] = int(d)
    nsum = math.prod(d for k, d in sizes.items() if k not in out)
    keep = sorted(k for k, d in sizes.items() if d != 1)
    re = {k: i for i, k in enumerate(keep)}
    sq_terms = [[re[k] for k in t if k in re] for t in terms]
    sq_arrays = [a.reshape([d for d in a.shape if d != 1]) for a in arrays]
    sq_out = [re[k] for k in out if k in re]
    full_shape = [sizes[k] for k in out]
    e1, b1, n1 = ref.dense_einsum(sq_terms, sq_out, sq_arrays, with_bound=True)
    e1 = np.asarray(e1).reshape(full_shape)
    b1 = np.asarray(b1).reshape(full_shape)

    def np_call(ts, o, arrs):
        args = []
        for a, t in zip(arrs, ts):
            args += [a, list(t)]
        args.append(list(o))
        return np.einsum(*args)

    if len(sizes) <= NP_MAX_LABELS and n <= NP_MAX_OPERANDS:
        want = np_call(terms, out, arrays)
        bound = np_call(terms, out, [np.abs(a) for a in arrays])
        rep.count("many_labels_reference", "numpy interleaved, explicit first-appearance output (<= 52 labels)")
        other, what = e1, "numpy disagrees with E1"
    else:
        want, bound = e1, b1
        rep.count("many_labels_reference", "E1 on the squeezed call (> 52 labels)")
        if len(keep) > NP_MAX_LABELS or n > NP_MAX_OPERANDS:
            return want, bound, nsum  # numpy cannot express even the squeezed call: E1 alone
        other, what = np_call(sq_terms, sq_out, sq_arrays).reshape(full_shape), "numpy (squeezed call) disagrees with E1"
    rep.mon("numpy_vs_E1")
    msg = ref.compare(other, want, b1, n1, n)
    if msg is None and exact_kind(case["kind"]) and float(np.max(b1, initial=0.0)) < 2.0**52:
        if not np.array_equal(other, want):
            msg = "integer data not exact"
    if msg is not None:
        rep.inconclusive_case(f"{what} on {describe(case)}: {msg}")
        return None
    return want, bound, nsum


# --------------------------------------------------------------------------- #
#                                   oracle                                    #
# --------------------------------------------------------------------------- #


def monitors_of(case):
    if case.get("fe"):
        return fe_monitors(case)
    e = case["entry"]
    many = ["many_labels"] if case.get("many") else []
    if e == "array_contract":
        return ["array_contract_vs_numpy"] + many
    if e == "ncon":
        return ["ncon_vs_numpy"]
    mons = []
    if e == "interleaved":
        mons.append("interleaved_vs_numpy")
    if len(case["shapes"]) == 1:
        mons.append("single_operand_vs_numpy")
    if e == "einsum" and len(case["shapes"]) > 1:
        mons.append("einsum_vs_numpy")
    return mons + many


def _short(e):
    s = f"{type(e).__name__}: {e}"
    s = "".join("#" if c.isdigit() else c for c in s)
    return s[:70]


def execute(rep, case):
    """Run one case through the oracle.  Returns None (held / discarded / inconclusive) or
    (kind, message).  ``rep`` receives monitor and discard counts."""
    import cotengra as ctg

    if case.get("fe"):
        return execute_fe(rep, case)
    arrays = make_arrays(case)
    entry = case["entry"]
    mon = monitors_of(case)[0]
    n = len(arrays)

    # ---- the specification -------------------------------------------------
    np_args = None
    if entry in ("einsum", "interleaved"):
        np_args = einsum_args(case, arrays)
        abs_args = einsum_args(case, [np.abs(a) for a in arrays])
    elif entry == "array_contract" and case.get("many"):
        try:
            r = many_reference(rep, case, arrays)
        except Exception as e:
            rep.inconclusive_case(f"harness could not evaluate the many-label reference: {e!r} on {describe(case)}")
            return None
        if r is None:
            return None
        want, bound, nsum_many = r
    else:
        try:
            eq = equivalent_eq(case)
        except Exception as e:
            rep.inconclusive_case(f"harness could not build the equivalent equation: {e!r}")
            return None
        np_args = [eq, *arrays]
        abs_args = [eq, *[np.abs(a) for a in arrays]]
    if np_args is not None:
        try:
            want = np.einsum(*np_args)
            bound = np.einsum(*abs_args)
        except Exception as e:
            rep.count("discarded", _short(e))
            rep.count("discarded_by_form", case.get("form", entry))
            return None
    nsum = int(case.get("space") or 1) if np_args is not None else nsum_many
    for w in case.get("widen") or []:
        nsum *= int(w[2])

    # ---- assumption check: numpy against the definition (E1) ----------------
    exp = case.get("expanded")
    if exp is not None and not case.get("widen"):
        try:
            e1, b1, n1 = ref.dense_einsum(exp["inputs"], exp["output"], arrays, with_bound=True)
            rep.mon("numpy_vs_E1")
            if ref.compare(want, e1, b1, n1, n) is not None:
                rep.inconclusive_case(f"numpy disagrees with E1 on the harness's expansion of {describe(case)}")
                return None
        except Exception as e:
            rep.inconclusive_case(f"E1 failed on the harness's expansion of {describe(case)}: {e!r}")
            return None

    # ---- cotengra ---------------------------------------------------------
    kw = {}
    if case.get("optimize") and case["optimize"] != "auto":
        kw["optimize"] = case["optimize"]
    try:
        if entry in ("einsum", "interleaved"):
            got = ctg.einsum(*einsum_args(case, arrays), **kw)
        elif entry == "array_contract":
            inputs = [tuple(dec_label(e) for e in term) for term in case["inputs"]]
            output = None if case["output"] is None else tuple(dec_label(e) for e in case["output"])
            if case.get("inputs_as_lists"):
                inputs = [list(t) for t in inputs]
            if case.get("size_dict"):
                sd = {}
                for term, shp in zip(inputs, case["shapes"]):
                    for ix, d in zip(term, shp):
                        sd[ix] = int(d)
                kw["size_dict"] = sd
            via = case.get("via") or "array_contract"
            if via == "array_contract":
                got = ctg.array_contract(arrays, inputs, output, **kw)
            else:
                # the other entry points of the same interface (same labels, same implicit output)
                how = dict(kw)
                if "size_dict" not in how:
                    how["shapes"] = [tuple(int(d) for d in shp) for shp in case["shapes"]]
                if via == "expression":
                    got = ctg.array_contract_expression(inputs, output, **how)(*arrays)
                elif via == "tree":
                    got = ctg.array_contract_tree(inputs, output, **how).contract(arrays)
                elif via == "path":
                    path = ctg.array_contract_path(inputs, output, **how)
                    got = ctg.array_contract(arrays, inputs, output, optimize=path)
                else:
                    raise AssertionError(via)
        else:
            conv = tuple if case.get("indices_as_tuples") else list
            got = ctg.ncon(arrays, [conv(int(l) for l in term) for term in case["indices"]], **kw)
    except Exception as e:
        for m in monitors_of(case):
            rep.mon(m)
        tb = traceback.format_exc()
        return (f"{mon}:raises:{type(e).__name__}", f"{type(e).__name__}: {str(e)[:300]} | {tb[-500:]}")
    for m in monitors_of(case):
        rep.mon(m)
    try:
        got = np.asarray(got)
    except Exception as e:
        return (f"{mon}:type", f"result not array-like: {e!r}")
    want = np.asarray(want)
    if got.shape != want.shape:
        return (f"{mon}:shape", f"shape {got.shape} != numpy's {want.shape}")
    if exact_kind(case["kind"]) and float(np.max(np.abs(bound), initial=0.0)) < 2.0**52:
        rep.mon("exact_int")
        if not np.array_equal(got, want):
            return (f"{mon}:value", f"exact integer data: got {got.tolist()!r:.200} numpy {want.tolist()!r:.200}")
    else:
        msg = ref.compare(got, want, bound, nsum, n)
        if msg:
            return (f"{mon}:value", msg)
    return None


def describe(case):
    if case.get("fe"):
        fe = case["fe"]
        plain = {k: v for k, v in case.items() if k != "fe"}
        opt = fe["opt"] if fe["opt"][0] != "edge" else ["edge", [dec_label(x) for x in fe["opt"][1]], fe["opt"][2]]
        return (f"route={fe['route']} constants={fe['constants']} optimize={opt} options={fe['kw']} backend={fe['backend']} "
                f"canonicalize={fe['canonicalize']} shapes_as={fe.get('shapes_as')} calls={fe['ncalls']} kind={case['kind']} of " + describe(plain))
    e = case["entry"]
    if e == "einsum":
        return f"einsum({case['eq']!r}, shapes={case['shapes']}, optimize={case.get('optimize')})"
    if e == "interleaved":
        return f"einsum(interleaved {case['sublists']} out={case.get('out')}, shapes={case['shapes']}, optimize={case.get('optimize')})"
    if e == "array_contract":
        ins = [[dec_label(x) for x in t] for t in case["inputs"]]
        out = None if case["output"] is None else [dec_label(x) for x in case["output"]]
        extra = ""
        if case.get("many"):
            extra = f", via={case.get('via')}, nlabels={case.get('nlabels')}, once_only_ranks={case.get('once_ranks')}"
        return f"array_contract(inputs={ins!r}, output={out!r}, shapes={case['shapes']}, size_dict={bool(case.get('size_dict'))}{extra})"
    return f"ncon(indices={case['indices']}, shapes={case['shapes']})"


# --------------------------------------------------------------------------- #
#            mechanisms: applicable repairs + differential confirmation        #
# --------------------------------------------------------------------------- #


def _repair_size1(case):
    w = size1_broadcast_pattern(case)
    if not w or not has_ellipsis(case):
        return None
    c = dict(case)
    c["widen"] = list(case.get("widen") or []) + w
    c.pop("expanded", None)
    return c


def _repair_whitespace(case):
    if case["entry"] != "einsum" or " " not in case["eq"]:
        return None
    c = dict(case)
    c["eq"] = case["eq"].replace(" ", "")
    return c


def _repair_output_only_ellipsis(case):
    """'ab->...ab': an ellipsis in the output that no input has (zero broadcast dims)."""
    if case["entry"] == "einsum":
        eq = case["eq"]
        lhs, *rhs = eq.split("->")
        if not rhs or "." in lhs or ELL not in rhs[0].replace(" ", ""):
            return None
        c = dict(case)
        c["eq"] = lhs + "->" + rhs[0].replace(".", "")
        return c
    if case["entry"] == "interleaved":
        out = case.get("out")
        if out is None or ELL not in out or any(ELL in s for s in case["sublists"]):
            return None
        c = dict(case)
        c["out"] = [t for t in out if t != ELL]
        return c
    return None


def _repair_interleaved_implicit(case):
    """interleaved call without output sublist -> the same call with numpy's implicit output
    (broadcast dims first, then the labels appearing once in sorted order) written out."""
    if case["entry"] != "interleaved" or case.get("out") is not None:
        return None
    flat = [t for s in case["sublists"] for t in s if t != ELL]
    once = sorted({t for t in flat if flat.count(t) == 1})
    c = dict(case)
    c["out"] = ([ELL] if any(ELL in s for s in case["sublists"]) else []) + once
    return c


REPAIRS = [
    (K1_KEY, _repair_size1),
    ("equation-whitespace", _repair_whitespace),
    ("output-only-ellipsis", _repair_output_only_ellipsis),
    ("interleaved-implicit-output-order", _repair_interleaved_implicit),
]


def diagnose(case):
    """Which single repairs are applicable to the call and which of them make the oracle
    pass.  Pure function of the witness (re-executes numpy and cotengra)."""
    applicable, passing = [], []
    for key, fn in REPAIRS:
        try:
            c = fn(case)
        except Exception:
            c = None
        if c is None:
            continue
        applicable.append(key)
        scratch = Report(PID, "classify", 0)
        try:
            res = execute(scratch, c)
        except Exception:
            continue
        ran = any(scratch.monitors.get(m, 0) for m in monitors_of(c))
        if res is None and ran and not scratch.inconclusive:
            passing.append(key)
    return applicable, passing


def composite_key(case, applicable):
    """No single repair suffices but several are applicable: all of them together.  The key is
    the '+'-joined list, so a composite is never mistaken for one of its parts."""
    c = case
    for key, fn in REPAIRS:
        if key in applicable:
            c2 = fn(c)
            if c2 is None:
                return None
            c = c2
    scratch = Report(PID, "classify", 0)
    try:
        res = execute(scratch, c)
    except Exception:
        return None
    ran = any(scratch.monitors.get(m, 0) for m in monitors_of(c))
    if res is None and ran and not scratch.inconclusive:
        return "+".join(applicable)
    return None


def classify(v):
    """Mechanism key, or None.  A key is returned only if the witness shows the pattern AND
    exactly one repair, applied alone, makes the same oracle pass (differential confirmation,
    re-run here from the JSON witness)."""
    case = v.get("witness")
    if not isinstance(case, dict) or "entry" not in case:
        return None
    if case.get("widen"):
        return None
    applicable, passing = diagnose(case)
    if not passing and len(applicable) >= 2:
        return composite_key(case, applicable)
    if len(passing) != 1:
        return None
    key = passing[0]
    if key == K1_KEY:
        # belt and braces: ellipsis present and some broadcast dim really has sizes {1, n>1}
        if not has_ellipsis(case) or not size1_broadcast_pattern(case):
            return None
    return key


# --------------------------------------------------------------------------- #
#                                 generators                                  #
# --------------------------------------------------------------------------- #


def _wchoice(rng, pairs):
    tot = sum(w for _x, w in pairs)
    r = rng.random() * tot
    for x, w in pairs:
        r -= w
        if r <= 0:
            return x
    return pairs[-1][0]


def gen_struct(rng, nops=None, k1=False, single=False):
    """Abstract call: symbols with sizes, L global broadcast dims, per operand (named symbols,
    ellipsis position or None, number of broadcast dims), output (None = implicit)."""
    pool = POOLS[rng.choice(sorted(POOLS))]
    if nops is None:
        nops = _wchoice(rng, [(1, 2), (2, 5), (3, 3), (4, 2)])
    nsym = rng.randint(0 if nops <= 2 else 1, min(6, len(pool)))
    syms = rng.sample(pool, nsym)
    sizes = {s: _wchoice(rng, [(1, 1), (2, 4), (3, 4), (4, 2)]) for s in syms}
    ell_mode = _wchoice(rng, [("none", 4), ("all", 3), ("some", 3)])
    if k1:
        ell_mode = rng.choice(["all", "all", "some"])
    L = rng.randint(0, 3) if ell_mode != "none" else 0
    if k1:
        L = rng.randint(1, 3)
    ell_sizes = [_wchoice(rng, [(1, 1), (2, 4), (3, 4), (4, 2)]) for _ in range(L)]
    if k1:
        ell_sizes = [rng.randint(2, 4) for _ in range(L)]
    ops = []
    for i in range(nops):
        rank = _wchoice(rng, [(0, 1), (1, 3), (2, 4), (3, 2)]) if syms else 0
        if rng.random() < 0.2:  # allow repeated indices inside the operand
            named = [rng.choice(syms) for _ in range(rank)]
        else:
            named = rng.sample(syms, min(rank, len(syms)))
        with_ell = ell_mode == "all" or (ell_mode == "some" and rng.random() < 0.55)
        if k1 and i < 2:
            with_ell = True
        if with_ell:
            pos = rng.choice(["start", "middle", "end"])
            if pos == "start" or not named:
                ellpos = 0
            elif pos == "end" or len(named) < 2:
                ellpos = len(named)
            else:
                ellpos = rng.randint(1, len(named) - 1)
            nb = rng.randint(0, L)
            if k1 and i < 2:
                nb = rng.randint(1, L)
        else:
            ellpos, nb = None, 0
        ops.append({"named": named, "ellpos": ellpos, "nb": nb, "one": []})
    used = [s for s in syms if any(s in o["named"] for o in ops)]
    any_ell = any(o["ellpos"] is not None for o in ops)
    # output
    r = rng.random()
    if r < 0.45:
        out = None
    else:
        keep = [s for s in used if rng.random() < 0.55]
        rng.shuffle(keep)
        r2 = rng.random()
        if any_ell:
            oell = rng.randint(0, len(keep)) if r2 < 0.88 else None
        else:
            oell = rng.randint(0, len(keep)) if r2 < 0.04 else None
        r3 = rng.random()
        if r3 < 0.015 and pool:
            keep.append(rng.choice(pool))  # maybe not an input symbol / a duplicate: numpy decides
        out = {"named": keep, "ellpos": oell}
    st = {"pool": pool, "sizes": sizes, "L": L, "ell_sizes": ell_sizes, "ops": ops, "out": out}
    _cap(st, 40000)
    if k1:
        if not _plant_size1(rng, st):
            return None
    return st


def _space(st):
    p = 1
    used = {s for o in st["ops"] for s in o["named"]}
    for s in used:
        p *= st["sizes"][s]
    for d in st["ell_sizes"]:
        p *= d
    return p


def _cap(st, cap):
    while _space(st) > cap:
        big = [(d, "s", s) for s, d in st["sizes"].items()] + [(d, "e", k) for k, d in enumerate(st["ell_sizes"])]
        d, what, k = max(big)
        if d <= 1:
            break
        if what == "s":
            st["sizes"][k] -= 1
        else:
            st["ell_sizes"][k] -= 1


def _plant_size1(rng, st):
    """K1: give some operand size 1 on a broadcast dim where another operand keeps n > 1."""
    L = st["L"]
    cands = []
    for g in range(L):  # g = global (right-aligned) dim id; operand covers g iff g >= L - nb
        if st["ell_sizes"][g] < 2:
            continue
        cover = [i for i, o in enumerate(st["ops"]) if o["ellpos"] is not None and g >= L - o["nb"]]
        if len(cover) >= 2:
            cands.append((g, cover))
    if not cands:
        return False
    planted = False
    for g, cover in rng.sample(cands, rng.randint(1, len(cands))):
        victims = rng.sample(cover, rng.randint(1, len(cover) - 1))
        for i in victims:
            st["ops"][i]["one"].append(g)
            planted = True
    return planted


def _shape(st, o):
    L = st["L"]
    named = [st["sizes"][s] for s in o["named"]]
    if o["ellpos"] is None:
        return named
    dims = [1 if g in o["one"] else st["ell_sizes"][g] for g in range(L - o["nb"], L)]
    return named[: o["ellpos"]] + dims + named[o["ellpos"] :]


def _expanded(st, order=None):
    """The harness's own reading of the call as plain (inputs, output) over hashable indices,
    or None when it is not a plain einsum (size-1 broadcasting / invalid output).  ``order`` maps
    symbols to the interleaved form's integer labels (they decide the implicit output order)."""
    if any(o["one"] for o in st["ops"]):
        return None
    L = st["L"]
    Lmax = max([o["nb"] for o in st["ops"] if o["ellpos"] is not None], default=0)
    inputs = []
    for o in st["ops"]:
        t = list(o["named"])
        if o["ellpos"] is not None:
            t = t[: o["ellpos"]] + [f"E{g}" for g in range(L - o["nb"], L)] + t[o["ellpos"] :]
        inputs.append(t)
    ell_out = [f"E{g}" for g in range(L - Lmax, L)]
    flat = [s for o in st["ops"] for s in o["named"]]
    if st["out"] is None:
        output = ell_out + sorted((s for s in set(flat) if flat.count(s) == 1), key=(order or {}).get if order else None)
    else:
        t = list(st["out"]["named"])
        if len(set(t)) != len(t) or any(s not in flat for s in t):
            return None
        if st["out"]["ellpos"] is not None:
            p = st["out"]["ellpos"]
            output = t[:p] + ell_out + t[p:]
        elif Lmax == 0:
            output = t
        else:
            return None
    return {"inputs": inputs, "output": output}


def _placement(st):
    ps = set()
    n_with = 0
    for o in st["ops"]:
        if o["ellpos"] is None:
            continue
        n_with += 1
        if not o["named"]:
            ps.add("alone")
        elif o["ellpos"] == 0:
            ps.add("start")
        elif o["ellpos"] == len(o["named"]):
            ps.add("end")
        else:
            ps.add("middle")
    if not ps:
        pin = "none"
    else:
        pin = (ps.pop() if len(ps) == 1 else "mixed") + ("/all" if n_with == len(st["ops"]) else "/some")
    out = st["out"]
    if out is None:
        pout = "implicit"
    elif out["ellpos"] is None:
        pout = "omitted" if n_with else "none"
    elif not out["named"]:
        pout = "alone"
    elif out["ellpos"] == 0:
        pout = "start"
    elif out["ellpos"] == len(out["named"]):
        pout = "end"
    else:
        pout = "middle"
    if out is not None and out["ellpos"] is not None and not n_with:
        pout += "(out-only)"
    return pin, pout


def _term_str(named, ellpos):
    t = list(named)
    if ellpos is not None:
        t = t[:ellpos] + [ELL] + t[ellpos:]
    return t


def render_string(rng, st, spaces):
    toks = []
    for k, o in enumerate(st["ops"]):
        if k:
            toks.append(",")
        toks += _term_str(o["named"], o["ellpos"])
    if st["out"] is not None:
        toks.append("->")
        toks += _term_str(st["out"]["named"], st["out"]["ellpos"])
    if spaces:
        res = []
        for t in [""] + toks:
            res.append(t)
            if rng.random() < 0.35:
                res.append(" " * rng.randint(1, 2))
        eq = "".join(res)
        if rng.random() < 0.08 and ELL in eq:
            eq = eq.replace(ELL, ". ..", 1)  # numpy decides
        return eq if " " in eq else eq + " "
    return "".join(toks)


def render_interleaved(rng, st):
    syms = sorted({s for o in st["ops"] for s in o["named"]} | set(st["out"]["named"] if st["out"] else ()))
    style = rng.choice(["random", "random", "reverse", "sorted", "small"])
    if style == "small":
        ints = rng.sample(range(0, max(len(syms), 1) + 2), len(syms))
    else:
        ints = rng.sample(range(52), len(syms))
        if style == "sorted":
            ints.sort()
        elif style == "reverse":
            ints.sort(reverse=True)
    m = dict(zip(syms, ints))
    subl = [[t if t == ELL else m[t] for t in _term_str(o["named"], o["ellpos"])] for o in st["ops"]]
    out = None
    if st["out"] is not None:
        out = [t if t == ELL else m[t] for t in _term_str(st["out"]["named"], st["out"]["ellpos"])]
    return subl, out, m


def skeleton(tokens_ins, tokens_out):
    """symbols replaced by their rank in the sorted symbol set (keeps the implicit-output
    semantics, forgets which letters were used)."""
    syms = sorted({t for term in tokens_ins for t in term if t != ELL} | {t for t in (tokens_out or []) if t != ELL})
    m = {s: f"{k}." for k, s in enumerate(syms)}
    f = lambda term: "".join(ELL if t == ELL else m[t] for t in term)
    s = ",".join(f(t) for t in tokens_ins)
    if tokens_out is not None:
        s += "->" + f(tokens_out)
    return s


SINGLE_TEMPLATES = [
    # (name, input tokens, output tokens|None); letters are placeholders replaced from a pool
    ("identity", "pq", "pq"),
    ("identity-implicit-sorted", "pq", None),
    ("identity3", "pqr", "pqr"),
    ("transpose", "pq", "qp"),
    ("transpose3", "pqr", "rpq"),
    ("transpose-implicit", "qp", None),
    ("trace", "pp", None),
    ("trace-explicit", "pp", ""),
    ("diagonal", "pp", "p"),
    ("sum-all", "pq", ""),
    ("sum-one", "pq", "q"),
    ("partial-trace", "pqp", "q"),
    ("diag-transpose", "pqp", "qp"),
    ("sum-lead-keep-ell", "p.", "."),
    ("ell-transpose", ".pq", ".qp"),
    ("ell-move", "p.", ".p"),
    ("ell-identity", ".", "."),
    ("ell-implicit", ".", None),
    ("ell-implicit-named", "q.p", None),
    ("ell-trace", "p.p", "."),
    ("ell-diag", ".pp", ".p"),
    ("scalar", "", ""),
    ("scalar-implicit", "", None),
]


def gen_single(rng):
    name, tin, tout = rng.choice(SINGLE_TEMPLATES)
    pool = POOLS[rng.choice(sorted(POOLS))]
    letters = rng.sample(pool, 3)
    if rng.random() < 0.5:
        letters.sort()
    m = dict(zip("pqr", letters))
    sizes = {s: rng.randint(1, 4) for s in letters}
    L = rng.randint(0, 3) if "." in tin else 0

    def conv(t):
        if t is None:
            return None
        named = [m[c] for c in t if c != "."]
        return {"named": named, "ellpos": t.index(".") if "." in t else None}

    o = conv(tin)
    o.update(nb=L, one=[])
    st = {
        "pool": pool,
        "sizes": sizes,
        "L": L,
        "ell_sizes": [rng.randint(1, 4) for _ in range(L)],
        "ops": [o],
        "out": conv(tout),
    }
    return st, name


def gen_einsum_case(rng, cs, tier, allow_k1=True):
    r = rng.random()
    k1 = allow_k1 and r < 0.05
    single_name = None
    st = None
    if k1:
        for _ in range(30):
            st = gen_struct(rng, nops=rng.choice([2, 2, 3, 4]), k1=True)
            if st is not None:
                break
        if st is None:
            k1 = False
    if st is None:
        if r < 0.20:
            st, single_name = gen_single(rng)
        else:
            st = gen_struct(rng)
    interleaved = rng.random() < 0.3
    spaces = (not interleaved) and (not k1) and rng.random() < 0.10
    if k1 and interleaved and st["out"] is None:
        interleaved = False  # keep the K1 class free of every other mechanism
    shapes = [_shape(st, o) for o in st["ops"]]
    case = {
        "shapes": shapes,
        "kind": _wchoice(rng, [("float", 4), ("complex", 2), ("int", 2), ("int64", 1)]),
        "optimize": rng.choice(OPTIMIZE),
        "case_seed": cs,
        "space": _space(st),
        "expanded": _expanded(st),
    }
    pin, pout = _placement(st)
    if interleaved:
        subl, out, m = render_interleaved(rng, st)
        case.update(entry="interleaved", sublists=subl, out=out, expanded=_expanded(st, m))
        form = "interleaved-" + ("implicit" if out is None else "explicit")
    else:
        case.update(entry="einsum", eq=render_string(rng, st, spaces))
        form = "string-" + ("implicit" if st["out"] is None else "explicit")
    if len(shapes) == 1:
        form += "/single"
    if spaces:
        form += "/spaces"
    case.update(form=form, ell_in=pin, ell_out=pout, k1=bool(k1), single=single_name)
    return case


LABEL_KINDS = ("int", "tuple", "str", "frozenset", "mixed")


def _rand_label(rng, kind, depth=0):
    if kind == "mixed":
        kind = rng.choice(["int", "tuple", "str", "frozenset", "char"])
    if kind == "int":
        return rng.choice([rng.randint(-6, 6), rng.randint(-1000, 1000), rng.randint(0, 60), -1, -2, 0])
    if kind == "char":
        return rng.choice("abcABC")
    if kind == "str":
        return rng.choice(
            ["ab", "bc", "foo", "bar", "idx0", "idx1", "a,b", "->", "...", "aa", "k12", "Ab", " a", "", "é", "ind_10", "ind_1"]
        ) + rng.choice(["", "", str(rng.randint(0, 9))])
    if kind == "tuple":
        n = rng.randint(0, 3)
        return tuple(
            _rand_label(rng, rng.choice(["int", "str", "char"] + (["tuple"] if depth < 1 else [])), depth + 1) for _ in range(n)
        )
    if kind == "frozenset":
        n = rng.randint(0, 3)
        return frozenset(_rand_label(rng, rng.choice(["int", "str", "char"]), depth + 1) for _ in range(n))
    raise ValueError(kind)


def gen_array_contract_case(rng, cs, tier):
    nops = _wchoice(rng, [(1, 2), (2, 4), (3, 3), (4, 2)])
    nidx = rng.randint(0 if nops < 3 else 1, 6)
    sizes = [rng.randint(1, 4) for _ in range(nidx)]
    terms = []
    for _ in range(nops):
        rank = _wchoice(rng, [(0, 1), (1, 3), (2, 4), (3, 3), (4, 1)]) if nidx else 0
        if rng.random() < 0.15:
            t = [rng.randrange(nidx) for _ in range(rank)]
        else:
            t = rng.sample(range(nidx), min(rank, nidx))
        terms.append(t)
    used = []
    for t in terms:
        for k in t:
            if k not in used:
                used.append(k)
    # cap the space
    while math.prod(sizes[k] for k in used) > 40000:
        k = max(used, key=lambda j: sizes[j])
        sizes[k] -= 1
    if rng.random() < 0.5:
        output = None
    else:
        output = [k for k in used if rng.random() < 0.5]
        rng.shuffle(output)
    kind = rng.choice(LABEL_KINDS)
    labels = {}
    taken = set()
    for k in used:
        for _ in range(200):
            lab = _rand_label(rng, kind)
            if lab not in taken:
                break
        else:
            lab = ("fallback", k)
        taken.add(lab)
        labels[k] = lab
    case = {
        "entry": "array_contract",
        "inputs": [[enc_label(labels[k]) for k in t] for t in terms],
        "output": None if output is None else [enc_label(labels[k]) for k in output],
        "shapes": [[sizes[k] for k in t] for t in terms],
        "size_dict": rng.random() < 0.3,
        "inputs_as_lists": rng.random() < 0.3,
        "label_kind": kind,
        "kind": _wchoice(rng, [("float", 4), ("complex", 2), ("int", 3)]),
        "optimize": rng.choice(OPTIMIZE),
        "case_seed": cs,
        "space": math.prod(sizes[k] for k in used),
        "form": "array_contract-" + ("implicit" if output is None else "explicit") + ("/single" if nops == 1 else ""),
    }
    return case


# ------------------------- contractions with many labels ------------------------- #
# canonicalisation hands out 'a'-'z' to the first 26 labels, 'A'-'Z' to the 27th-52nd and unicode
# symbols from chr(192) on afterwards; 'A' < 'a' < chr(192), so order of first appearance and sorted
# order of the canonical symbols differ as soon as there are more than 26 labels.

MANY_OPTIMIZE = ("greedy", "greedy", "greedy", "eager", "opportunistic")  # cheap presets only: 20-55 tensors rule out "optimal"; "auto" starts a hyper-optimizer (~0.1 s per call + a 2 s import)
MANY_VIA = ("array_contract", "array_contract", "array_contract", "expression", "tree", "path")
MANY_SPACE_CAP = 2.0**17.5  # < 2e5: product of ALL index sizes (E1 and numpy.einsum walk the full space)


def gen_many_skeleton(rng, nlab):
    """A network over labels 0..nlab-1 numbered in order of first appearance, made of many small
    tensors: a few labels appear exactly once (spread over the appearance ranks < 26, 26..51, >= 52),
    the others two or (10 %) three times.  -> (terms, sorted once-only labels)"""
    once = set()
    for lo, hi, nmin, nmax in ((0, 26, 1, 3), (26, 52, 1, 3), (52, nlab, 1, 2)):
        hi = min(hi, nlab)
        if hi > lo:
            once.update(rng.sample(range(lo, hi), min(rng.randint(nmin, nmax), hi - lo)))
    mult = {k: 1 if k in once else (3 if rng.random() < 0.1 else 2) for k in range(nlab)}
    ranks = [1, 2, 2, 3, 3, 4] if nlab <= 52 else [2, 3, 3, 4, 4, 5]  # keeps the number of tensors < 60
    terms = []
    pending = {}
    nxt = 0
    while nxt < nlab or pending:
        t = []
        for _ in range(rng.choice(ranks)):
            cands = [k for k in pending if k not in t or rng.random() < 0.04]  # rarely: a trace inside a tensor
            if nxt < nlab and (not cands or rng.random() < 0.55):
                k = nxt
                nxt += 1
                if mult[k] > 1:
                    pending[k] = mult[k] - 1
            elif cands:
                k = rng.choice(cands)
                pending[k] -= 1
                if not pending[k]:
                    del pending[k]
            else:
                break
            t.append(k)
        terms.append(t)
    return terms, sorted(once)


def many_sizes(rng, nlab, once):
    """sizes 1-3; most labels get size 1 so that the product of all sizes stays below the cap; the
    once-only (output) labels are mostly larger than 1, at least one in each of the rank ranges present."""
    sizes = {k: 1 for k in range(nlab)}
    for k in once:
        sizes[k] = rng.choice([2, 2, 3, 3, 1])
    for lo, hi in ((0, 26), (26, 52), (52, nlab)):
        grp = [k for k in once if lo <= k < hi]
        if grp and all(sizes[k] == 1 for k in grp):
            sizes[rng.choice(grp)] = rng.choice([2, 3])
    cap = max(2.0 ** rng.uniform(5, 17.5), math.prod(sizes.values()))
    others = [k for k in range(nlab) if k not in once]
    rng.shuffle(others)
    misses = 0
    for k in others:
        d = rng.choice([2, 2, 2, 3])
        if math.prod(sizes.values()) * d > min(cap, MANY_SPACE_CAP):
            misses += 1
            if misses > 3:
                break
            continue
        sizes[k] = d
    return sizes


def unique_labels(rng, kind, n):
    labels = []
    taken = set()
    for k in range(n):
        for _ in range(200):
            lab = _rand_label(rng, kind)
            if lab not in taken:
                break
        else:
            lab = ("fallback", k)
        taken.add(lab)
        labels.append(lab)
    return labels


def gen_many_array_contract_case(rng, cs, tier):
    nlab = _wchoice(rng, [((27, 34), 3), ((35, 52), 4), ((53, 70), 4)])
    nlab = rng.randint(*nlab)
    terms, once = gen_many_skeleton(rng, nlab)
    sizes = many_sizes(rng, nlab, once)
    if rng.random() < 0.85:
        output = None
    else:
        output = list(once) + [k for k in range(nlab) if k not in once and rng.random() < 0.04]
        rng.shuffle(output)
    kind = rng.choice(LABEL_KINDS)
    labels = unique_labels(rng, kind, nlab)
    return {
        "entry": "array_contract",
        "many": True,
        "via": rng.choice(MANY_VIA),
        "nlabels": nlab,
        "once_ranks": list(once),
        "inputs": [[enc_label(labels[k]) for k in t] for t in terms],
        "output": None if output is None else [enc_label(labels[k]) for k in output],
        "shapes": [[sizes[k] for k in t] for t in terms],
        "size_dict": rng.random() < 0.3,
        "inputs_as_lists": rng.random() < 0.3,
        "label_kind": kind,
        "kind": _wchoice(rng, [("float", 4), ("complex", 2), ("smallint", 4)]),
        "optimize": rng.choice(MANY_OPTIMIZE),
        "case_seed": cs,
        "space": math.prod(sizes.values()),
        "form": "array_contract-many-" + ("implicit" if output is None else "explicit") + ("/gt52" if nlab > 52 else "/le52"),
    }


LETTERS52 = "abcdefghijklmnopqrstuvwxyzABCDEFGHIJKLMNOPQRSTUVWXYZ"


def gen_many_einsum_case(rng, cs, tier):
    """cotengra.einsum with 27-52 distinct symbols (numpy's whole alphabet, both cases), string or
    interleaved form, implicit (numpy: sorted, upper case first) or explicit output."""
    nlab = rng.randint(27, 52)
    terms, once = gen_many_skeleton(rng, nlab)
    sizes = many_sizes(rng, nlab, once)
    interleaved = rng.random() < 0.3
    style = rng.choice(["shuffled", "shuffled", "appearance", "reverse"])
    pool = list(range(52)) if interleaved else list(LETTERS52)
    if style == "shuffled":
        names = rng.sample(pool, nlab)
    elif style == "appearance":
        names = pool[:nlab]  # a-z then A-Z in order of first appearance: sorted order differs
    else:
        names = pool[:nlab][::-1]
    if rng.random() < 0.5:
        out = None
        out_exp = sorted(names[k] for k in once)
    else:
        out = list(once) + [k for k in range(nlab) if k not in once and rng.random() < 0.04]
        rng.shuffle(out)
        out = out_exp = [names[k] for k in out]
    case = {
        "many": True,
        "nlabels": nlab,
        "shapes": [[sizes[k] for k in t] for t in terms],
        "kind": _wchoice(rng, [("float", 4), ("complex", 2), ("smallint", 4)]),
        "optimize": rng.choice(MANY_OPTIMIZE),
        "case_seed": cs,
        "space": math.prod(sizes.values()),
        "expanded": {"inputs": [[names[k] for k in t] for t in terms], "output": list(out_exp)},
        "ell_in": "none",
        "ell_out": "implicit" if out is None else "none",
        "k1": False,
        "single": None,
    }
    if interleaved:
        case.update(entry="interleaved", sublists=[[names[k] for k in t] for t in terms], out=out)
        form = "interleaved-" + ("implicit" if out is None else "explicit")
    else:
        eq = ",".join("".join(names[k] for k in t) for t in terms)
        if out is not None:
            eq += "->" + "".join(out)
        case.update(entry="einsum", eq=eq)
        form = "string-" + ("implicit" if out is None else "explicit")
    case["form"] = form + "/many-symbols"
    return case


def gen_ncon_case(rng, cs, tier):
    nops = _wchoice(rng, [(1, 1), (2, 4), (3, 3), (4, 2)])
    slots = [[] for _ in range(nops)]
    sizes = {}
    nbonds = rng.randint(0, 5)
    pos_labels = rng.sample(range(1, 12), nbonds) if rng.random() < 0.4 else list(range(1, nbonds + 1))
    trace = False
    for lab in pos_labels:
        if nops >= 2 and rng.random() > 0.08:
            a, b = rng.sample(range(nops), 2)
        else:
            a = b = rng.randrange(nops)  # a trace inside one tensor (supported by the ncon convention)
            trace = True
        if len(slots[a]) >= 4 or len(slots[b]) >= 4 or (a == b and len(slots[a]) >= 3):
            continue
        slots[a].append(lab)
        slots[b].append(lab)
        sizes[lab] = rng.randint(1, 4)
    nout = rng.randint(0, 4)
    k = 0
    for _ in range(nout):
        a = rng.randrange(nops)
        if len(slots[a]) >= 4:
            continue
        k += 1
        slots[a].append(-k)
        sizes[-k] = rng.randint(1, 4)
    # output labels must be handed out in random order over the tensors
    perm = list(range(1, k + 1))
    rng.shuffle(perm)
    remap = {-(i + 1): -perm[i] for i in range(k)}
    slots = [[remap.get(l, l) for l in s] for s in slots]
    sizes = {remap.get(l, l): d for l, d in sizes.items()}
    for s in slots:
        rng.shuffle(s)
    while math.prod(sizes.values()) > 40000:
        l = max(sizes, key=lambda j: sizes[j])
        sizes[l] -= 1
    case = {
        "entry": "ncon",
        "indices": slots,
        "shapes": [[sizes[l] for l in s] for s in slots],
        "indices_as_tuples": rng.random() < 0.5,
        "kind": _wchoice(rng, [("float", 4), ("complex", 2), ("int", 3)]),
        "optimize": rng.choice(OPTIMIZE),
        "case_seed": cs,
        "space": math.prod(sizes.values()) if sizes else 1,
        "form": "ncon" + ("/single" if nops == 1 else "") + ("/trace" if trace else ""),
    }
    return case


# --------------------------------------------------------------------------- #
#   front-end routes ("fe" cases): expressions with constants, trees built    #
#   from shapes, the optimize dispatch, via / backend / other options         #
# --------------------------------------------------------------------------- #
# On top of the workload above (own seed stream): one case in FE_EVERY takes a call generated by the
# same grammars and sends it through another entry point of the front end and / or with options that
# must not change the value.  The specification stays numpy.einsum on the FULL operand list.

FE_EVERY = 4
FE_PRESETS = ("greedy", "greedy", "optimal", "auto", "eager", "opportunistic", "dp", "opt_einsum:greedy")
FE_TREE_BASE = ("greedy", "optimal", "eager")
# name -> (shape of the path it always returns, which functions are registered)
USER_PRESETS = {"vf12-left": ("left", "path"), "vf12-right": ("right", "both"), "vf12-comb": ("comb", "tree")}
PRESET_CALLS = {}
_PRESETS_DONE = []
FE_ROUTE_MON = {
    "einsum": "fe_direct_options",
    "array_contract": "fe_direct_options",
    "ncon": "fe_direct_options",
    "einsum_expression": "fe_einsum_expression",
    "einsum_tree": "fe_einsum_tree",
    "expression": "fe_array_contract_expression",
    "tree": "fe_array_contract_tree",
    "path": "fe_array_contract_path",
}
FE_EXPR_ROUTES = ("einsum_expression", "expression")
CUSTOM_IMPL_CALLS = {"n": 0}


def model_path(shape, n):
    """Three fixed families of linear paths (functions of the number of operands only): what the
    user-registered presets return, and the harness's model of them."""
    if shape == "left":  # always the two oldest tensors
        return tuple((0, 1) for _ in range(n - 1))
    if shape == "right":  # always the two newest
        return tuple((n - 2 - k, n - 1 - k) for k in range(n - 1))
    if shape == "comb":  # the oldest with the newest
        return tuple((0, n - 1 - k) for k in range(n - 1))
    raise ValueError(shape)


def _path_fn(shape, name):
    def fn(inputs, output, size_dict, memory_limit=None, **kw):
        PRESET_CALLS[name] = PRESET_CALLS.get(name, 0) + 1
        return model_path(shape, len(inputs))

    return fn


def _tree_fn(shape, name):
    def fn(inputs, output, size_dict, **kw):
        from cotengra.core import ContractionTree

        PRESET_CALLS[name] = PRESET_CALLS.get(name, 0) + 1
        return ContractionTree.from_path(inputs, output, size_dict, path=model_path(shape, len(inputs)))

    return fn


def ensure_presets(ctg):
    """register the harness's presets once per process (a name is never registered twice)"""
    if _PRESETS_DONE:
        return
    for name, (shape, what) in USER_PRESETS.items():
        ctg.register_preset(
            name,
            _path_fn(shape, name) if what in ("path", "both") else None,
            optimizer_tree=_tree_fn(shape, name) if what in ("tree", "both") else None,
        )
    _PRESETS_DONE.append(True)


def _custom_einsum(eq, *arrays):
    CUSTOM_IMPL_CALLS["n"] += 1
    return np.einsum(eq, *arrays)


def _custom_tensordot(a, b, axes=2):
    CUSTOM_IMPL_CALLS["n"] += 1
    return np.tensordot(a, b, axes)


def fe_monitors(case):
    fe = case["fe"]
    mons = [FE_ROUTE_MON[fe["route"]]]
    if fe.get("constants") is not None:
        mons.append("expr_constants")
        if len(fe["constants"]) == len(case["shapes"]):
            mons.append("expr_all_constants")
        if fe.get("identity_empty_constants"):
            mons.append("identity_empty_constants")
    if fe["route"] in ("einsum_tree", "tree") and len(case["shapes"]) == 1:
        mons.append("one_operand_tree")
    kw = fe.get("kw") or {}
    if kw.get("via"):
        mons.append("via_conversion")
    if fe.get("backend"):
        mons.append("backend_kwarg")
    if kw.get("strip_exponent"):
        mons.append("strip_exponent")
    if fe.get("canonicalize") is False or (fe["route"] == "einsum_tree" and fe.get("canonicalize") is None):
        mons.append("no_canonicalize")
    if fe.get("raw_labels"):
        mons.append("no_canonicalize_raw_labels")
    k = fe["opt"][0]
    if k == "user":
        mons.append("user_preset")
    elif k in ("tree", "sliced", "object"):
        mons.append("optimize_object")
    elif k in ("explicit", "edge"):
        mons.append("explicit_path")
        if k == "explicit" and len(fe["opt"][1]) == 0:
            mons.append("empty_explicit_path")
    return mons


def _shape_form(shp, form):
    shp = [int(d) for d in shp]
    if form == "list":
        return list(shp)
    if form == "npint":
        return tuple(np.int64(d) for d in shp)
    if form == "npint_later":
        return tuple(d if k == 0 else np.int64(d) for k, d in enumerate(shp))
    return tuple(shp)


def fe_shape_args(case, arrays, constants, form=None):
    """the arguments of einsum_expression / einsum_tree: the call with every operand replaced by its
    shape, except the constant positions, which carry the array itself"""
    form = form or case["fe"].get("shapes_as") or "tuple"
    ops = [
        arrays[i] if (constants is not None and i in constants) else _shape_form(shp, form)
        for i, shp in enumerate(case["shapes"])
    ]
    return einsum_args(case, ops)


def _ac_terms(case):
    """(inputs, output) of an array_contract / ncon case as the library is given them"""
    if case["entry"] == "ncon":
        inputs = [tuple(int(l) for l in term) for term in case["indices"]]
        output = tuple(sorted({l for t in inputs for l in t if l < 0}, reverse=True))
        return inputs, output
    inputs = [tuple(dec_label(e) for e in term) for term in case["inputs"]]
    output = None if case["output"] is None else tuple(dec_label(e) for e in case["output"])
    if case.get("inputs_as_lists"):
        inputs = [list(t) for t in inputs]
    return inputs, output


def _ac_sizes(case, inputs):
    """size information: shapes=... or (30 %) size_dict=..."""
    shapes = [tuple(int(d) for d in shp) for shp in case["shapes"]]
    if case.get("size_dict"):
        sd = {}
        for term, shp in zip(inputs, shapes):
            for ix, d in zip(term, shp):
                sd[ix] = d
        return {"size_dict": sd}
    return {"shapes": shapes}


def fe_optimize(ctg, case, arrays, obs):
    """the ``optimize`` argument of the case (built afresh for every execution)"""
    opt = case["fe"]["opt"]
    kind = opt[0]
    if kind in ("preset", "user"):
        return opt[1]
    if kind == "explicit":
        form = opt[2]
        if form == "tuple":
            return tuple(tuple(p) for p in opt[1])
        if form == "list":
            return [tuple(p) for p in opt[1]]
        return [list(p) for p in opt[1]]
    if kind == "edge":
        labels = [dec_label(e) for e in opt[1]]
        return tuple(labels) if opt[2] == "tuple" else labels
    if kind in ("tree", "sliced"):
        # a ContractionTree for the very same call, obtained from the library's own front end
        if case["entry"] in ("einsum", "interleaved"):
            tree = ctg.einsum_tree(*fe_shape_args(case, arrays, None, form="tuple"), optimize=opt[1])
        else:
            inputs, output = _ac_terms(case)
            tree = ctg.array_contract_tree(inputs, output, shapes=[tuple(int(d) for d in s) for s in case["shapes"]], optimize=opt[1])
        if kind == "sliced":
            try:
                tree.slice_(target_slices=2, max_repeats=2, seed=0)
            except Exception:
                pass
            obs["sliced"] = bool(tree.sliced_inds)
        return tree
    if kind == "object":
        if opt[1] == "GreedyOptimizer":
            return ctg.GreedyOptimizer()
        return _path_fn(opt[2], "anonymous-fn")
    raise ValueError(kind)


def fe_kwargs(case):
    """library keyword arguments from the JSON-able option dict"""
    kw = dict(case["fe"].get("kw") or {})
    if kw.get("via"):
        s_in, s_out = kw["via"]
        kw["via"] = ((lambda x, s=float(s_in): x * s), (lambda y, s=float(s_out): (y[0] * s, y[1]) if isinstance(y, tuple) else y * s))
    if kw.get("implementation") == "custom":
        kw["implementation"] = (_custom_einsum, _custom_tensordot)
    return kw


def fe_build(ctg, case, arrays, obs):
    """Build whatever the route builds ONCE (expression / tree / path) from the shapes (and constants);
    -> run(arrays) giving the route's result for a full operand list."""
    fe = case["fe"]
    route = fe["route"]
    consts = fe.get("constants")
    kw = fe_kwargs(case)
    cache = kw.pop("cache", True)
    opt = fe_optimize(ctg, case, arrays, obs)
    okw = {} if (isinstance(opt, str) and opt == "auto") else {"optimize": opt}
    canon = {} if fe.get("canonicalize") is None else {"canonicalize": bool(fe["canonicalize"])}
    call_kw = {"backend": fe["backend"]} if fe.get("backend") else {}

    def variables(arrs):
        return [a for i, a in enumerate(arrs) if consts is None or i not in consts]

    if route in ("einsum", "array_contract", "ncon"):
        direct = dict(kw, **okw, **canon, **call_kw)
        if not cache:
            direct["cache_expression"] = False
        if route == "einsum":
            return lambda arrs: ctg.einsum(*einsum_args(case, arrs), **direct)
        inputs, output = _ac_terms(case)
        if route == "ncon":
            conv = tuple if case.get("indices_as_tuples") else list
            return lambda arrs: ctg.ncon(arrs, [conv(t) for t in inputs], **direct)
        return lambda arrs: ctg.array_contract(arrs, inputs, output, **direct)

    if route == "einsum_expression":
        ekw = dict(kw, **okw, **canon)
        if consts is not None:
            ekw["constants"] = {"list": list, "tuple": tuple, "set": set}[fe.get("const_container") or "list"](consts)
        expr = ctg.einsum_expression(*fe_shape_args(case, arrays, consts), cache=cache, **ekw)
        return lambda arrs: expr(*variables(arrs), **call_kw)

    if route == "einsum_tree":
        tkw = dict(okw, **canon)
        if kw.get("sort_contraction_indices"):
            tkw["sort_contraction_indices"] = True
        tree = ctg.einsum_tree(*fe_shape_args(case, arrays, None), **tkw)
        obs["tree"] = tree
        return lambda arrs: tree.contract(arrs)

    inputs, output = _ac_terms(case)
    how = _ac_sizes(case, inputs)
    if route == "expression":
        ekw = dict(kw, **okw, **canon, **how)
        if consts is not None:
            ekw["constants"] = {int(i): arrays[i] for i in consts}
        expr = ctg.array_contract_expression(inputs, output, cache=cache, **ekw)
        return lambda arrs: expr(*variables(arrs), **call_kw)
    if route == "tree":
        tkw = dict(okw, **canon, **how)
        if kw.get("sort_contraction_indices"):
            tkw["sort_contraction_indices"] = True
        tree = ctg.array_contract_tree(inputs, output, **tkw)
        obs["tree"] = tree
        return lambda arrs: tree.contract(arrs)
    if route == "path":
        path = ctg.array_contract_path(inputs, output, cache=cache, **dict(okw, **canon, **how))
        obs["path"] = path
        # (also the EMPTY path - one operand; an edge path that joins nothing - is fed back: FINDINGS_widen-c.md F4)
        obs["empty_path_fed_back"] = len(path) == 0
        return lambda arrs: ctg.array_contract(arrs, inputs, output, optimize=path)
    raise ValueError(route)


def fe_call_arrays(case, base, j):
    """operands of the j-th call: the constants stay, every variable operand is new"""
    if j == 0:
        return base
    fresh = make_arrays(dict(case, case_seed=f"{case['case_seed']}/call{j}"))
    consts = case["fe"].get("constants") or []
    return [base[i] if i in consts else fresh[i] for i in range(len(base))]


def fe_spec(case, arrays):
    """numpy.einsum on the full operand list (through the via conversions when given)
    -> (want, bound); raises whatever numpy raises"""
    via = (case["fe"].get("kw") or {}).get("via")
    if via:
        arrays = [a * float(via[0]) for a in arrays]
    if case["entry"] in ("einsum", "interleaved"):
        np_args = einsum_args(case, arrays)
        abs_args = einsum_args(case, [np.abs(a) for a in arrays])
    else:
        eq = equivalent_eq(case)
        np_args = [eq, *arrays]
        abs_args = [eq, *[np.abs(a) for a in arrays]]
    want = np.einsum(*np_args)
    bound = np.einsum(*abs_args)
    if via:
        want = want * float(via[1])
        bound = bound * abs(float(via[1]))
    return np.asarray(want), np.asarray(bound)


def fe_judge(rep, mon, case, got, want, bound, n):
    strip = bool((case["fe"].get("kw") or {}).get("strip_exponent"))
    if strip:
        try:
            mant, ex = got
            got = np.asarray(mant) * 10.0 ** float(ex)
        except Exception as e:
            return (f"{mon}:type", f"strip_exponent=True did not give (mantissa, exponent): {e!r}")
    try:
        got = np.asarray(got)
    except Exception as e:
        return (f"{mon}:type", f"result not array-like: {e!r}")
    if got.dtype == object:
        return (f"{mon}:type", f"result is not a numeric array: {got!r:.200}")
    if got.shape != want.shape:
        return (f"{mon}:shape", f"shape {got.shape} != numpy's {want.shape}")
    if not strip and exact_kind(case["kind"]) and float(np.max(np.abs(bound), initial=0.0)) < 2.0**50:
        rep.mon("exact_int")
        if not np.array_equal(got, want):
            return (f"{mon}:value", f"exact integer data: got {got.tolist()!r:.200} numpy {want.tolist()!r:.200}")
        return None
    msg = ref.compare(got, want, bound, int(case.get("space") or 1), n)
    return (f"{mon}:value", msg) if msg else None


def execute_fe(rep, case):
    """The oracle for a front-end-route case; same contract as ``execute``."""
    import warnings

    import cotengra as ctg

    ensure_presets(ctg)
    fe = case["fe"]
    mons = fe_monitors(case)
    mon = "+".join(mons)
    n = len(case["shapes"])
    base = make_arrays(case)
    try:
        if case["entry"] not in ("einsum", "interleaved"):
            equivalent_eq(case)
    except Exception as e:
        rep.inconclusive_case(f"harness could not build the equivalent equation: {e!r}")
        return None
    try:
        want, bound = fe_spec(case, base)
    except Exception as e:
        rep.count("discarded", _short(e))
        rep.count("discarded_by_form", case.get("form", case["entry"]) + "/fe")
        return None
    obs = {}
    ncalls = int(fe.get("ncalls") or 1)
    with warnings.catch_warnings():
        warnings.simplefilter("ignore")
        consulted = PRESET_CALLS.get(fe["opt"][1], 0) if fe["opt"][0] == "user" else None
        try:
            run = fe_build(ctg, case, base, obs)
            got = run(base)
        except Exception as e:
            for m in mons:
                rep.mon(m)
            tb = traceback.format_exc()
            return (f"{mon}:raises:{type(e).__name__}", f"{type(e).__name__}: {str(e)[:300]} | {tb[-600:]}")
        for m in mons:
            rep.mon(m)
        if obs.get("sliced"):
            rep.mon("sliced_tree_as_optimize")
        if obs.get("empty_path_fed_back"):
            rep.mon("empty_path_fed_back")
        res = fe_judge(rep, mon, case, got, want, bound, n)
        if res:
            return res
        # ---- structure: what came back through a path / tree route -----------------------
        if "path" in obs:
            given = fe["opt"][0] in ("explicit", "edge")
            rep.mon("path_route_valid")
            try:
                msg = ref.check_linear_path(n, obs["path"], allow_incomplete=given)
            except Exception as e:
                msg = f"not a path: {e!r}"
            if msg:
                return (f"{mon}:path_invalid", f"array_contract_path returned {obs['path']!r}: {msg}")
        if fe["opt"][0] == "user" and ("path" in obs or "tree" in obs):
            # a registered preset must behave like the function registered under its name
            shape = USER_PRESETS[fe["opt"][1]][0]
            model = set(ref.path_to_nodes(n, model_path(shape, n)))
            if "path" in obs:
                nodes = set(ref.path_to_nodes(n, [tuple(int(i) for i in p) for p in obs["path"]]))
            else:
                nodes = {frozenset(p) for p in obs["tree"].children}
            rep.mon("user_preset_model")
            if nodes != model:
                return (
                    f"{mon}+user_preset_model:structure",
                    f"preset {fe['opt'][1]!r} is registered to return the path {model_path(shape, n)} but the {fe['route']} "
                    f"route produced the intermediates {sorted(sorted(x) for x in nodes)}",
                )
        # ---- a registered preset is really consulted (whenever nothing cached could stand in for it and the
        # front end does not pre-empt the choice: three or more operands, or the path route) ----------------
        uncached = fe["route"] in ("einsum_tree", "tree") or fe["kw"].get("cache") is False
        if consulted is not None and uncached and (n >= 3 or fe["route"] == "path"):
            rep.mon("user_preset_consulted")
            if PRESET_CALLS.get(fe["opt"][1], 0) == consulted:
                return (f"{mon}+user_preset_consulted:ignored", f"the function registered as preset {fe['opt'][1]!r} was never called")
        # ---- the same expression object on new variable arrays ----------------------------
        for j in range(1, ncalls):
            arrays = fe_call_arrays(case, base, j)
            want, bound = fe_spec(case, arrays)
            rmon = mon + "+expr_recall_new_arrays"
            rep.mon("expr_recall_new_arrays")
            try:
                got = run(arrays)
            except Exception as e:
                return (f"{rmon}:raises:{type(e).__name__}", f"call {j + 1} of the same expression: {type(e).__name__}: {str(e)[:300]}")
            res = fe_judge(rep, rmon, case, got, want, bound, n)
            if res:
                return (res[0], f"call {j + 1} of the same expression (new variable arrays): {res[1]}")
    return None


def random_linear_path(rng, n):
    path = []
    cur = n
    while cur > 1:
        path.append(sorted(rng.sample(range(cur), 2)))
        cur -= 1
    return path


def _relabel_chars(rng, case):
    """array_contract labels -> distinct single letters (what canonicalize=False is given)"""
    pool = list(LETTERS52)
    rng.shuffle(pool)
    labs = {}

    def m(e):
        return labs.setdefault(repr(e), ["s", pool[len(labs)]])

    case["inputs"] = [[m(e) for e in t] for t in case["inputs"]]
    if case["output"] is not None:
        case["output"] = [m(e) for e in case["output"]]
    case["label_kind"] = "char1"


def _edge_labels(case):
    """all index labels of the call if an 'edge path' (a sequence of int / str labels) can name them"""
    if case["entry"] == "einsum":
        eq = case["eq"].replace(" ", "")
        if "." in eq:
            return None
        return [["s", c] for c in dict.fromkeys(eq.split("->")[0].replace(",", ""))]
    if case["entry"] == "array_contract":
        labs = list({repr(e): e for t in case["inputs"] for e in t}.values())
        if all(e[0] in ("i", "s") for e in labs):
            return labs
    return None


def _maybe_identity(case):
    """one-operand call whose output term equals its input term (or the harness cannot tell)"""
    if case["entry"] in ("einsum", "interleaved"):
        exp = case.get("expanded")
        return exp is None or list(exp["inputs"][0]) == list(exp["output"])
    if case["entry"] == "array_contract":
        terms, out = numbered(case)
        return list(terms[0]) == list(out)
    return False


# label kinds that keep working when the front end is told not to relabel (orderable, hashable): what the
# unchanged library handles with canonicalize=False through array_contract / array_contract_expression
RAW_LABEL_KINDS = ("int", "str", "tuple")


def gen_fe_case(rng, cs, tier):
    base = _wchoice(rng, [("einsum", 11), ("array_contract", 8), ("ncon", 1)])
    if base == "einsum":
        case = gen_einsum_case(rng, cs, tier, allow_k1=False)
        route = _wchoice(rng, [("einsum_expression", 6), ("einsum_tree", 2), ("einsum", 3)])
    elif base == "array_contract":
        case = gen_array_contract_case(rng, cs, tier)
        route = _wchoice(rng, [("expression", 6), ("tree", 2), ("path", 2), ("array_contract", 2)])
    else:
        case = gen_ncon_case(rng, cs, tier)
        route = "ncon"
    n = len(case["shapes"])
    identity = n == 1 and _maybe_identity(case)
    case["expanded"] = None
    fe = {"route": route, "constants": None, "ncalls": 1, "kw": {}, "backend": None, "canonicalize": None}
    floaty = not exact_kind(case["kind"])

    # ---- constants ---------------------------------------------------------------------
    ccls = "n/a"
    if route in FE_EXPR_ROUTES:
        ccls = _wchoice(rng, [("none", 2), ("empty", 1), ("some", 4), ("all-but-one", 3), ("all", 1)])
        if ccls == "all" or (ccls == "some" and n == 1):
            # every operand constant: the expression is called without arguments (FINDINGS_widen-c.md F1)
            consts, ccls = list(range(n)), "all"
        elif ccls == "empty" or (ccls == "all-but-one" and n == 1):
            # (for one operand returned unchanged this was FINDINGS_widen-c.md F2)
            consts, ccls = [], "empty"
        elif ccls == "some":
            consts = sorted(rng.sample(range(n), rng.randint(1, n - 1)))
        elif ccls == "all-but-one":
            consts = sorted(set(range(n)) - {rng.randrange(n)})
        else:
            consts = None
        fe["constants"] = consts
        fe["const_container"] = rng.choice(["list", "list", "tuple", "set"])
        fe["ncalls"] = _wchoice(rng, [(1, 2), (2, 4), (3, 2)])
    fe["const_class"] = ccls
    fe["identity_empty_constants"] = bool(identity and fe["constants"] == [])

    # ---- canonicalize --------------------------------------------------------------------
    if route == "einsum_tree":
        fe["canonicalize"] = rng.choice([None, None, True, False])
    elif fe["constants"] is None and rng.random() < 0.25:
        # (with constants the keyword is not part of the signature)
        if base == "array_contract":
            if route in ("array_contract", "expression") and n >= 2 and case.get("label_kind") in RAW_LABEL_KINDS and rng.random() < 0.6:
                # the labels stay what they are (ints, tuples, words, ...): "arbitrary hashable index labels"
                # holds with canonicalize=False too on these routes (the expression builder relabels internally)
                fe["raw_labels"] = True
            else:
                _relabel_chars(rng, case)
            fe["canonicalize"] = False
        elif base == "einsum":
            fe["canonicalize"] = False
    elif fe["constants"] is None and rng.random() < 0.1:
        fe["canonicalize"] = True

    # ---- optimize ------------------------------------------------------------------------
    kinds = [("preset", 8), ("user", 5), ("explicit", 2), ("tree", 2), ("sliced", 2), ("object", 2)]
    if fe.get("raw_labels"):
        kinds = [("preset", 1)]  # paths / trees / optimizer objects are given single-letter labels (see _relabel_chars)
    edge = _edge_labels(case)
    if edge:
        kinds.append(("edge", 2))
    kind = _wchoice(rng, kinds)
    if kind == "preset":
        opt = ["preset", rng.choice(FE_PRESETS)]
    elif kind == "user":
        names = [k for k, (_s, what) in sorted(USER_PRESETS.items()) if what != "tree" or route != "path"]
        opt = ["user", rng.choice(names)]
    elif kind == "explicit":
        opt = ["explicit", random_linear_path(rng, n), rng.choice(["tuple", "list", "list_of_lists"])]
    elif kind == "edge":
        rng.shuffle(edge)
        opt = ["edge", edge, rng.choice(["list", "tuple"])]
    elif kind in ("tree", "sliced"):
        opt = [kind, rng.choice(FE_TREE_BASE)]
    else:
        opt = ["object", rng.choice(["GreedyOptimizer", "path_fn"]), rng.choice(["left", "right", "comb"])]
    fe["opt"] = opt

    # ---- options that must not change the value -----------------------------------------
    kw = {}
    full = route in ("einsum", "array_contract", "ncon") or route in FE_EXPR_ROUTES
    if full:
        if rng.random() < 0.2:
            kw["via"] = [rng.choice([2.0, -1.0, 3.0]), rng.choice([3.0, -2.0, 0.5])]
        if rng.random() < 0.2:
            fe["backend"] = "numpy"
        if rng.random() < 0.2:
            # (user supplied functions are handed lazy arrays while constants are folded: plain numpy functions
            # cannot take part in that, so the custom pair only goes with expressions without constants)
            kw["implementation"] = rng.choice(["cotengra", "autoray", "custom"] if fe["constants"] is None else ["cotengra", "autoray"])
        if rng.random() < 0.12:
            kw["prefer_einsum"] = True
        if rng.random() < 0.04 and kw.get("implementation") != "custom":
            # (autojit traces the contraction with lazy arrays too: not with the plain numpy pair)
            kw["autojit"] = True
        if floaty and fe["constants"] is None and rng.random() < 0.15:
            # (not with constants: strip_exponent is not part of that signature)
            kw["strip_exponent"] = True
    if route != "path" and rng.random() < 0.1:
        kw["sort_contraction_indices"] = True
    if route not in ("einsum_tree", "tree") and rng.random() < 0.25:
        kw["cache"] = False
    fe["kw"] = kw
    if route in ("einsum_expression", "einsum_tree"):
        # (documented: tuples of int.  Lists / numpy integers are converted by the parser when ALL shapes have that
        # form; next to constant ARRAYS the forms are mixed, which the documentation does not promise: tuples there)
        fe["shapes_as"] = _wchoice(rng, [("tuple", 5), ("list", 2), ("npint", 1.5), ("npint_later", 1)]) if not fe["constants"] else "tuple"
    case["fe"] = fe
    case["form"] = case["form"] + "/fe:" + route
    return case


def fe_counts(rep, case):
    fe = case["fe"]
    rep.count("fe_route", fe["route"])
    rep.count("fe_constants", f"{fe['route']} | {fe['const_class']}" if fe["route"] in FE_EXPR_ROUTES else "n/a")
    rep.count("fe_optimize_kind", fe["opt"][0] + (":" + str(fe["opt"][1]) if fe["opt"][0] in ("preset", "user", "object") else ""))
    for k in sorted(fe["kw"]):
        rep.count("fe_options", k + ("=" + str(fe["kw"][k]) if k == "implementation" else ""))
    rep.count("fe_options", "canonicalize=" + str(fe["canonicalize"]))
    if fe.get("backend"):
        rep.count("fe_options", "backend=" + fe["backend"])
    if fe.get("shapes_as"):
        rep.count("fe_shapes_given_as", fe["shapes_as"])
    if fe["route"] in FE_EXPR_ROUTES:
        rep.count("fe_calls_per_expression", fe["ncalls"])


# --------------------------------------------------------------------------- #
#                                   driver                                    #
# --------------------------------------------------------------------------- #


def case_key(case):
    if case.get("fe"):
        fe = case["fe"]
        plain = {k: v for k, v in case.items() if k != "fe"}
        return (case_key(plain), fe["route"], fe["const_class"], fe["opt"][0], tuple(sorted(fe["kw"])), fe["canonicalize"], fe["backend"])
    e = case["entry"]
    ranks = tuple(len(s) for s in case["shapes"])
    if e in ("einsum", "interleaved"):
        try:
            ins, out = split_terms(case)
            ti = [_term_str(n, p) for n, p in ins]
            to = None if out is None else _term_str(out[0], out[1])
            sk = skeleton(ti, to)
        except Exception:
            sk = repr(case.get("eq") or case.get("sublists"))
        form = case["form"].split("/")[0]
        return (form, sk, ranks)
    if e == "array_contract" and case.get("many"):
        terms, out = numbered(case)
        return ("array_contract-many", terms, out if case["output"] is not None else None, ranks)
    if e == "array_contract":
        return ("array_contract", equivalent_eq(case) if case["output"] is not None else equivalent_eq(case).split("->")[0], ranks)
    return ("ncon", equivalent_eq(case), ranks)


def nontrivial(case):
    if case.get("fe"):
        # goes through another entry point, or carries constants / a non-preset optimize / an option
        fe = case["fe"]
        if fe["route"] not in ("einsum", "array_contract", "ncon") or fe["opt"][0] != "preset" or fe["kw"] or fe["backend"]:
            return True
    e = case["entry"]
    if e in ("einsum", "interleaved"):
        implicit = (e == "einsum" and "->" not in case["eq"]) or (e == "interleaved" and case.get("out") is None)
        return has_ellipsis(case) or implicit
    if e == "array_contract":
        return case["output"] is None
    return True  # ncon: the output is always implied by the negative labels


def sample_of(case):
    return {k: v for k, v in case.items() if k not in ("expanded",)}


def run_case(rep, case, seen_sig):
    cls = "k1-size1-broadcast" if case.get("k1") else case["form"]
    rep.case(case_key(case), nontrivial(case), cls, sample=describe(case))
    e = case["entry"]
    if e in ("einsum", "interleaved"):
        rep.count("form_x_ellipsis_in", f"{case['form']} | {case['ell_in']}")
        rep.count("form_x_ellipsis_out", f"{case['form']} | {case['ell_out']}")
        if case.get("single"):
            rep.count("single_operand_template", case["single"])
        nbs = []
        try:
            for (named, ellpos), shp in zip(split_terms(case)[0], case["shapes"]):
                if ellpos is not None:
                    nbs.append(len(shp) - len(named))
        except Exception:
            pass
        if nbs:
            rep.count("broadcast_dims_per_operand", "differing" if len(set(nbs)) > 1 else f"all={nbs[0]}")
    elif e == "array_contract":
        if case.get("many"):
            rep.count("many_labels_via", case.get("via"))
            rep.count("many_labels_count", f"{case['nlabels'] // 10 * 10}-{case['nlabels'] // 10 * 10 + 9}")
            rk = case["once_ranks"]
            rep.count(
                "many_labels_once_only_rank_ranges",
                "+".join(n for n, lo, hi in (("early", 0, 26), ("middle", 26, 52), ("late", 52, 10**6)) if any(lo <= k < hi for k in rk)),
            )
        rep.count("array_contract_labels", f"{case['label_kind']} | output={'None' if case['output'] is None else 'given'} | size_dict={case['size_dict']}")
    if case.get("fe"):
        fe_counts(rep, case)
    else:
        rep.count("optimize", case.get("optimize"))
    rep.count("dtype_kind", case["kind"])
    rep.count("n_operands", len(case["shapes"]))
    before = rep.extra["discarded"].total() if "discarded" in rep.extra else 0
    try:
        res = execute(rep, case)
    except Exception:
        rep.inconclusive_case("harness error: " + traceback.format_exc()[-600:])
        return
    after = rep.extra["discarded"].total() if "discarded" in rep.extra else 0
    if after == before and res is None:
        rep.count("held_by_form", case["form"])
    if res:
        w = sample_of(case)
        try:
            applicable, passing = diagnose(case)
        except Exception:
            applicable, passing = [], []
        w["diag"] = {"applicable_repairs": applicable, "passing_repairs": passing}
        key = passing[0] if len(passing) == 1 else None
        if not passing and len(applicable) >= 2:
            key = composite_key(case, applicable)
        sig = f"{res[0]} | key={key} | applicable={','.join(applicable) or '-'}"
        rep.count("violations_by_signature", sig)
        # Report keeps at most 40 witnesses per shard: keep a few per mechanism so that a rare
        # mechanism is never crowded out by a frequent one (all of them are counted above)
        mon, coarse = res[0].split(":")[:2]
        dedup, cap = ((key, mon), 1) if key is not None else ((None, mon, coarse), 2)
        seen_sig[dedup] = seen_sig.get(dedup, 0) + 1
        if seen_sig[dedup] <= cap:
            rep.violation(res[0], w, f"{describe(case)}: {res[1]}")


def run_shard(rep, tier, seed, shard, nshards):
    dl = Deadline(budget(tier, 40, 400))
    ncases = budget(tier, 12000, 250000)
    seen_sig = {}
    for k in range(ncases):
        if dl.expired():
            rep.note(f"shard {shard}: deadline after {k} cases")
            break
        cs = f"{seed}/{PID}/{shard}/{k}"
        rng = rng_for(cs)
        r = k % 10
        if r < 6:
            case = gen_einsum_case(rng, cs, tier)
        elif r < 8:
            case = gen_array_contract_case(rng, cs, tier)
        else:
            case = gen_ncon_case(rng, cs, tier)
        run_case(rep, case, seen_sig)
        # on top of the workload above (its seeds are untouched): contractions with 27-70 labels
        if k % MANY_EVERY == 0:
            cs = f"{seed}/{PID}/{shard}/many/{k}"
            rng = rng_for(cs)
            if (k // MANY_EVERY) % 3 < 2:
                case = gen_many_array_contract_case(rng, cs, tier)
            else:
                case = gen_many_einsum_case(rng, cs, tier)
            run_case(rep, case, seen_sig)
        # on top again (own seed stream): front-end routes, constants, optimize dispatch, options
        if k % FE_EVERY == 2:
            cs = f"{seed}/{PID}/{shard}/fe/{k}"
            run_case(rep, gen_fe_case(rng_for(cs), cs, tier), seen_sig)


def replay(rep, v):
    case = v["witness"]
    res = execute(rep, case)
    if res:
        rep.violation(res[0], case, f"{describe(case)}: {res[1]}")
