"""C20 - compressed-contraction estimates equal the exact ones when nothing is truncated;
they never exceed the uncapped ones; compressed pathfinders return complete ordered trees.

What is compared (the reading of "coincide"):

* ``st = tree.compressed_contract_stats(chi, order, compress_late)`` with ``chi`` >= every
  bond that arises (``chi = 10**30`` and ``chi =`` exactly the largest bond):
    st.flops    == sum over the tree's contractions of prod(sizes of all indices involved)
                   (ref.Costs.total_flops() over ref.ssa_to_children - no cotengra; the tree's
                   own ``contract_stats()['flops']`` must agree too).  The tracker adds a QR
                   estimate only for bonds strictly larger than chi (hypergraph.
                   neighborhood_compress_cost: ``if da > chi``), so with chi >= every bond the
                   compression term is identically zero and the plain contraction count is what
                   remains - that is the reading under which the statement is checkable.
    st.max_size == max(size of every input tensor, size of every intermediate)  (the tracker
                   seeds max_size with the inputs: weaker reading)
    st.write    == sum(intermediate sizes) + sum(input sizes)
* a "bond" is a maximal group of non-output indices incident to the same set of current
  tensors (what HyperGraph.compress merges into one edge of size min(product, chi)); also a
  single index is a bond.  The boundary chi is the maximum over (i) every group met by a
  compression event of the simulation, obtained from the harness's own replay of the
  traversal on plain index sets, and (ii) every non-output index size.
* for chi in {1, 2, 4, 16, boundary}: max_size, peak_size, write <= the values of the
  chi = 10**30 run of the same (order, compress_late), and max_size / write <= the exact
  figures above.  (flops is NOT monotone: truncation adds QR work.)
* finders: the returned object describes a complete binary tree over the N inputs
  (ref.check_tree_struct) and ``list(tree.traverse())`` (its default = surface order)
  lists every internal node exactly once, children before parents.
* histories: the estimates are a function of the tree AS IT IS NOW.  The whole sweep above is
  run on a tree object (stage 0, possibly with only some of the orders), then the object is
  changed by 1-3 small ``subtree_reconfigure`` steps (subtree_size 3-6, maxiter 1-2, select
  min / random / max so that deep subtrees are touched and the root node usually survives),
  in place or as a non-inplace copy; after every step the same sweep, with the same settings,
  is run on the modified tree and - after a copy - on the source object again.  The exact
  figures are those of the independent model on the children map the object has at that moment
  (ct.children_of + ref.check_tree_struct + ref.children_to_ssa).  A step counts as "changed"
  only if the set of internal nodes differs (an ssa path can differ by child order alone).

Widening (round 4) - every route that REPORTS a compressed estimate must tell the story of
``compressed_contract_stats`` for the same (chi, order, compress_late), hence the exact figures of the
independent model when chi >= every bond and never more than the uncapped values:

* reporting methods ("api" cases): total_flops_compressed / contraction_cost_compressed /
  total_write_compressed / max_size_compressed / peak_size_compressed / contraction_width_compressed /
  combo_cost_compressed / total_cost_compressed on both tree classes, and on ContractionTreeCompressed the
  aliases total_flops / contraction_cost / total_write / max_size / peak_size / contraction_width /
  combo_cost / total_cost; arguments by keyword, positionally, or LEFT OUT.  What a left-out argument
  means is taken from the documentation: chi -> the chi of the default objective the tree was given
  (constructor ``objective=`` / ``set_default_objective``), else (largest dimension)**2 of this network;
  compress_late -> that objective's (False when it has none); order -> 'surface_order'; factor -> that
  objective's, else 64; log=b -> log_b of the figure, contraction_width -> log2.  combo = flops +
  factor * write.  Each value is compared (i) with the figure of compressed_contract_stats called with
  everything explicit, (ii) when chi >= the largest bond of that (order, compress_late) with the exact
  figure of ref.Costs, (iii) for write / max_size / peak_size / width with the chi = 10**30 value (<=).
* objectives: '<flops|write|size|max|peak|combo>-compressed' with and without '-<chi>', made from the string
  (get_score_fn), from the class (chi, compress_late, secondary_weight / factor) or as a copy of the shared
  string objective with compress_late switched on.  ``objective({"tree": tree})`` must leave
  trial["flops"] / ["write"] equal to the stats of its (chi, 'surface_order', compress_late), trial["size"]
  equal to max_size (size / max / flops / combo), peak_size (peak), any of write / max_size / peak_size
  (write: the weakest reading), the exact figures when nothing is truncated, and ``tree.get_score(obj)``
  must return the same number.  No score formula is assumed.
* trackers: ``get_compressed_stats_tracker`` as the path optimisers use it - WindowedOptimizer(inputs, output,
  size_dict, minimize, ssa_path).tracker for the path of a ContractionTreeCompressed must show the max_size /
  peak_size / write of compressed_contract_stats(chi, 'surface_order', compress_late) (flops too, and the
  exact figures, when nothing is truncated); describe() must print log2 of those sizes as S / P (and log10 of
  the exact flops / combo as F / C when nothing is truncated) to its two decimals; with the secondary weight
  set to 0 (and for combo) ``score`` must be a strictly increasing function of the objective's own figure over
  the same path at chi in {10**30, 1, 2, 4, 16, own}; after refine(...) / simulated_anneal(...) with a
  chi = 10**30 objective the tracker must equal the exact figures of the path the optimiser then holds
  (get_ssa_path; peak against compressed_contract_stats of that path).
* finders: HyperCompressedOptimizer with reconf_opts (CompressedReconfTrial -> windowed_reconfigure_) and with
  the cap given as ``chi=`` or inside the objective: complete ordered tree, and opt.best's flops / write /
  size are the figures of the tree that is returned; histories whose steps are compressed_reconfigure /
  compressed_reconfigure_ (objective with explicit chi, order_only, max_nodes 5 / 50 / 300 / 'auto' or
  max_time 0.25 s, exploration_power 0 / 0.5 / 2, in place or copy), possibly mixed with subtree_reconfigure steps: the
  search must return a complete ordered tree, and the full sweep is repeated on it (and on the source of a
  copy); a tree that carries a default objective with a numeric chi must use THAT chi as its default cap.
"""

import traceback

from .. import ct, gen, ref
from ..common import Deadline, OpTimeout, budget, rng_for, time_limit

PID = "C20"
LEVEL = "exploration"
RULE = (
    "seeded ordinary networks (gen.ordinary_net 2-14 tensors, 0-2 hyper-edges, 0-3 output indices, sizes "
    "2-4 or 2-6; lattices; chains without size-1 dims) x trees (uniform/caterpillar/balanced random ssa, "
    "random 'connected' ssa, trees returned by the compressed finders) built as ContractionTree or "
    "ContractionTreeCompressed x order in {dfs, surface_order, seeded memoised random callable} x "
    "compress_late in {F,T} x chi in {10^30, 1, 2, 4, 16, boundary}; finder workload: presets "
    "greedy-compressed / greedy-span, GreedyCompressed / GreedySpan with random hyper-parameters, "
    "HyperCompressedOptimizer over greedy-compressed / greedy-span / greedy-span-max / kahypar-agglom, "
    "ContractionTreeCompressed.from_path (ssa, linear, truncated+autocomplete), windowed_reconfigure, "
    "compressed simulated_anneal; histories: sweep, then 1-3 subtree_reconfigure steps (in place / copy, size 3-6, "
    "maxiter 1-2, select min/random/max, search bfs/dfs/random, minimize flops/size/write/combo) on the same "
    "ContractionTree / ContractionTreeCompressed object with the sweep repeated on the modified tree and on the "
    "source of every copy.  distinct = distinct (network, tree, tree class, order, compress_late); "
    "non-trivial = >= 4 tensors and at least one bond made of >= 2 indices arises in that run.  Widening: 'api' cases = "
    "same networks / trees x tree default objective (none, exact 'flops'/'size'/'combo[-f]', any compressed objective; via "
    "constructor or set_default_objective) x 2-4 argument combinations (chi in {left out, boundary, 10^30, 1, 2, 4, 16} x order "
    "in {left out, dfs, surface_order, rand} x compress_late in {left out, F, T} x log in {none, 2, 10} x factor in {left out, "
    "0, 1, 64, 256.0} x positional / keyword x dtype=None) over the 8 *_compressed methods and the 8 ContractionTreeCompressed "
    "aliases x 2 objectives (6 names x chi in {none, 1, 2, 4, 16, 64, 10^30} x compress_late x string / class / copy) x one "
    "WindowedOptimizer tracker (figures, describe, score order, refine / simulated_anneal at 10^30); 'finder2' cases = "
    "HyperCompressedOptimizer(reconf_opts=..., chi= / objective) and histories with compressed_reconfigure(_) steps "
    "(distinct api case = network, tree, class, tree objective, combinations)"
)
ASSUMPTIONS = [
    "pure-python HyperGraph (no rust accelerator is importable in this environment)",
    "exact figures: ref.Costs over ref.ssa_to_children (no cotengra); tree.contract_stats() must agree with it, "
    "a disagreement there is another property's (C03) and is reported as inconclusive here",
    "the traversal handed to the bond model is cotengra's own tree.traverse(order) (checked to be a valid "
    "children-first order of the reference children)",
    "flops at chi >= every bond = contraction ops only (the QR term is charged for bonds > chi only)",
    "presets 'greedy-compressed'/'greedy-span' take no seed: their tie-breaking rng is unseeded (C17's business)",
    "windowed_reconfigure is called with 2 <= window_size <= N (larger windows index outside the path)",
    "'ordinary' is read as: no index repeated inside a tensor AND every index is shared by >= 2 tensors or is an "
    "output index.  An index summed inside a single tensor is pre-processed away by the exact tree (not counted) "
    "but stays on the leaf in the compressed simulation, so flops differ by construction there ('ag,a->' with a=2, g=3: "
    "exact flops 2, compressed 6 at any chi); such networks are not generated",
    "widening: a left-out chi / compress_late / factor means what the documentation says (the default objective's value, "
    "else (largest dimension)**2 / False / 64); the default objective is installed through the documented API with an "
    "Objective instance or set_default_objective; plain ContractionTree objects are always given chi and compress_late "
    "(the base class defines no defaults for them: FINDINGS_widen-b.md O3)",
    "widening: flops at a truncating chi (the QR estimate) is outside the statement: it is compared between routes only "
    "where both go through compressed_contract_stats, never between the path optimisers' tracker and the tree (O2)",
    "widening: trial['size'] of the write objective may be write, max_size or peak_size; no score formula is assumed, only "
    "that a score with the secondary weight 0 orders by the objective's own figure",
    "widening: an exception inside WindowedOptimizer.refine / simulated_anneal called directly is tallied under 'excluded' "
    "(whether the optimisers return is the finder monitor's business through windowed_reconfigure / simulated_anneal)",
]
REQUIRED_MONITORS = [
    "uncapped_flops_exact",
    "uncapped_size_exact",
    "uncapped_write_exact",
    "boundary_chi",
    "default_chi",
    "monotone_in_chi",
    "compressed_finder_tree",
    "history_rechecks",
    "history_tree_changed",
    # widening (round 4)
    "estimate_methods_vs_stats",
    "estimate_methods_exact",
    "estimate_methods_monotone",
    "alias_default_chi",
    "alias_default_late",
    "default_late_from_objective",
    "objective_trial_figures",
    "objective_trial_exact",
    "tracker_vs_stats",
    "tracker_exact",
    "tracker_describe",
    "tracker_score_order",
    "refined_tracker_exact",
    "hyper_trial_figures",
    "hyper_reconf_tree",
    "compressed_reconfigure_tree",
    "compressed_reconfigure_estimates",
]
SHARD_TIMEOUT = {"quick": 400, "thorough": 3600}

HUGE = 10**30
CAPS = (1, 2, 4, 16)
ORDERS = ("dfs", "surface_order", "rand")
OP_LIMIT = 30


def nshards(tier):
    return 16


# --------------------------------------------------------------------------- #
#                     harness-side models (no cotengra)                       #
# --------------------------------------------------------------------------- #


def prod_sizes(sd, ixs):
    p = 1
    for ix in ixs:
        p *= sd[ix]
    return p


def bond_model(net, trav, compress_late):
    """Replay ``trav`` (list of (p, l, r) frozensets) on plain index sets with no cap and
    observe every group of non-output indices that a compression event would merge.

    early (compress_late False): after each contraction, the groups touching the new tensor;
    late: before each contraction, the groups touching either operand.
    -> dict(max_any, max_multi, n_multi)
    """
    out = set(net.output)
    sd = net.size_dict
    cur = {frozenset([i]): set(t) for i, t in enumerate(net.inputs)}
    where = {}
    for node, inds in cur.items():
        for ix in inds:
            where.setdefault(ix, set()).add(node)
    res = {"max_any": 1, "max_multi": 0, "n_multi": 0}

    def observe(nodes):
        g = {}
        for nd in nodes:
            for ix in cur[nd]:
                if ix not in out:
                    g.setdefault(frozenset(where[ix]), set()).add(ix)
        for es in g.values():
            s = prod_sizes(sd, es)
            res["max_any"] = max(res["max_any"], s)
            if len(es) > 1:
                res["n_multi"] += 1
                res["max_multi"] = max(res["max_multi"], s)

    for p, l, r in trav:
        if compress_late:
            observe((l, r))
        il, ir = cur.pop(l), cur.pop(r)
        both = il | ir
        for ix in both:
            where[ix].discard(l)
            where[ix].discard(r)
        ip = {ix for ix in both if where[ix] or ix in out}
        cur[p] = ip
        for ix in ip:
            where[ix].add(p)
        if not compress_late:
            observe((p,))
    return res


def valid_order(n, children, trav):
    """None if trav lists every internal node of ``children`` once, children first."""
    ready = {frozenset([i]) for i in range(n)}
    if len(trav) != len(children):
        return f"{len(trav)} steps for {len(children)} internal nodes"
    for p, l, r in trav:
        if p not in children:
            return f"step yields unknown node {sorted(p)}"
        if {l, r} != set(children[p]):
            return f"step {sorted(p)} lists children that are not the node's children"
        if p in ready:
            return f"node {sorted(p)} visited twice"
        if l not in ready or r not in ready:
            return f"node {sorted(p)} visited before one of its children"
        ready.add(p)
    return None


def has_outer_step(net, ssa):
    """does some contraction of the tree join two tensors that share no index?"""
    ch = ref.ssa_to_children(net.N, [tuple(s) for s in ssa])
    cs = ref.Costs(net.inputs, net.output, net.size_dict, ch)
    for p, (l, r) in ch.items():
        if not set(cs.legs(l)) & set(cs.legs(r)):
            return True
    return False


def lonely_indices(net):
    """indices carried by exactly one tensor and absent from the output (summed inside one tensor)"""
    app = {}
    for t in net.inputs:
        for ix in t:
            app[ix] = app.get(ix, 0) + 1
    return [ix for ix, c in app.items() if c == 1 and ix not in net.output]


def connected_ssa(rng, net):
    """a random ssa path in which every step contracts two tensors sharing an index"""
    ids = {i: set(t) for i, t in enumerate(net.inputs)}
    appear = {}
    for t in net.inputs:
        for ix in t:
            appear[ix] = appear.get(ix, 0) + 1
    nxt = net.N
    path = []
    while len(ids) > 1:
        keys = sorted(ids)
        pairs = [(a, b) for i, a in enumerate(keys) for b in keys[i + 1 :] if ids[a] & ids[b]]
        if not pairs:
            a, b = rng.sample(keys, 2)
        else:
            a, b = rng.choice(pairs)
        path.append((a, b))
        ids[nxt] = ids.pop(a) | ids.pop(b)
        nxt += 1
    return path


# --------------------------------------------------------------------------- #
#                               generators                                    #
# --------------------------------------------------------------------------- #


def gen_net(rng, nmin, nmax):
    r = rng.random()
    if r < 0.62:
        n = rng.randint(nmin, nmax)
        return gen.ordinary_net(rng, n, hyper=rng.randint(0, 2), n_out=rng.randint(0, 3))
    if r < 0.74:
        # larger single indices than the smallest multi-index bond
        n = rng.randint(nmin, nmax)
        return gen.ordinary_net(rng, n, hyper=rng.randint(0, 1), n_out=rng.randint(0, 2), dmin=2, dmax=6)
    if r < 0.87:
        lx = rng.randint(2, 3)
        ly = rng.randint(2, max(2, min(4, nmax // lx)))
        return gen.lattice_net(rng, lx, ly, cap=10**12)
    n = rng.randint(max(nmin, 3), nmax)
    net = gen.chain_net(rng, n, cap=10**12)
    sd = {k: max(2, v) for k, v in net.size_dict.items()}
    # an index carried by one tensor only must be an output index (see ASSUMPTIONS)
    output = list(net.output)
    for ix in lonely_indices(net):
        output.insert(rng.randint(0, len(output)), ix)
    return gen.Net(net.inputs, output, sd, "chain")


def build_tree(net, ssa, cls):
    ssa = [tuple(s) for s in ssa]
    if cls == "compressed":
        from cotengra.core import ContractionTreeCompressed

        return ContractionTreeCompressed.from_path(
            net.inputs, net.output, dict(net.size_dict), ssa_path=ssa
        )
    return ct.make_tree(gen.Net(net.inputs, net.output, dict(net.size_dict)), ssa)


def rand_order(seed):
    import random

    memo = {}

    def order(node):
        k = tuple(sorted(node))
        if k not in memo:
            memo[k] = random.Random(repr((seed, k))).random()
        return memo[k]

    return order


def make_order(kind, seed):
    return rand_order(seed) if kind == "rand" else kind


# --------------------------------------------------------------------------- #
#                          monitors 1-5: the estimates                        #
# --------------------------------------------------------------------------- #

FIELDS = ("flops", "max_size", "write")


def stats_case(rep, case, register=True, tree=None):
    """Run every (order, compress_late, chi) on one (network, tree).  Returns a list of
    (kind, detail dict, message).  ``tree``: a live tree object whose present structure is
    case["ssa"] (histories); built from the case when not given."""
    net = gen.Net.from_json(case["net"])
    pristine = gen.Net.from_json(case["net"])  # never handed to cotengra
    ssa = [tuple(s) for s in case["ssa"]]
    N = net.N
    children = ref.ssa_to_children(N, ssa)
    cs = ref.Costs(pristine.inputs, pristine.output, pristine.size_dict, children)
    insz = [prod_sizes(pristine.size_dict, t) for t in pristine.inputs]  # the raw input tensors
    want = {
        "flops": cs.total_flops(),
        "max_size": max(max(insz), cs.max_size()) if N > 1 else max(insz),
        "write": cs.total_write() + sum(insz),
    }
    nonout = [pristine.size_dict[ix] for t in pristine.inputs for ix in t if ix not in pristine.output]
    max_index = max(nonout) if nonout else 1
    out = []
    if lonely_indices(pristine) or pristine.has_repeat():
        rep.count("skipped", "not ordinary")  # outside the statement (see ASSUMPTIONS)
        return out
    if tree is None:
        try:
            tree = build_tree(net, ssa, case["cls"])
        except Exception as e:
            rep.inconclusive_case(f"could not build the tree: {e!r}")
            return out
    try:
        ex = tree.contract_stats()
        if ex["flops"] != want["flops"] or ex["write"] + sum(insz) != want["write"]:
            rep.inconclusive_case(
                f"tree.contract_stats() {ex} disagrees with the reference cost model "
                f"({want}) on {pristine.eq()} ssa={ssa}: C03's domain"
            )
            return out
        rep.mon("exact_vs_arbiter")
    except Exception as e:
        rep.inconclusive_case(f"contract_stats raised: {e!r}")
        return out

    for okind in case.get("orders", ORDERS):
        oseed = case["order_seed"]
        for cl in case.get("lates", (False, True)):
            order = make_order(okind, oseed)
            try:
                trav = ct.traversal(tree, order)
            except Exception as e:
                rep.inconclusive_case(f"traverse({okind}) raised: {e!r}")
                continue
            msg = valid_order(N, children, trav)
            if msg:
                rep.inconclusive_case(f"traverse({okind}) is not a valid order ({msg}): C07's domain")
                continue
            bm = bond_model(pristine, trav, cl)
            boundary = max(bm["max_any"], max_index)
            if register:
                key = (pristine.key(), tuple(ssa), case["cls"], okind, oseed if okind == "rand" else 0, cl)
                rep.case(
                    key,
                    N >= 4 and bm["n_multi"] > 0,
                    pristine.cls,
                    sample={"eq": pristine.eq(), "sizes": pristine.size_dict, "ssa": ssa, "cls": case["cls"],
                            "order": okind, "compress_late": cl, "boundary": boundary},
                )
                rep.count("tree_source", case.get("source", "?"))
                rep.count("tree_cls", case["cls"])
                rep.count("order", okind)
                rep.count("boundary_is", "multi_bond" if boundary == bm["max_multi"] else "single_index")
                if bm["n_multi"]:
                    rep.count("multi_bond_runs", cl)
            base = None
            for chi in (HUGE, *CAPS, boundary):
                def detail(field, got, wanted, _chi=chi, _ok=okind, _cl=cl):
                    return {"order": {"kind": _ok, "seed": oseed}, "compress_late": _cl, "chi": _chi,
                            "field": field, "got": got, "want": wanted, "boundary": boundary}

                try:
                    st = tree.compressed_contract_stats(chi=chi, order=make_order(okind, oseed), compress_late=cl)
                except Exception as e:
                    out.append(("stats_raises", detail("raises", repr(e), None),
                                f"compressed_contract_stats raised {type(e).__name__}: {e} | {traceback.format_exc()[-500:]}"))
                    continue
                got = {"flops": st.flops, "max_size": st.max_size, "write": st.write, "peak_size": st.peak_size}
                if chi == HUGE:
                    base = got
                if chi >= boundary:
                    which = "uncapped" if chi == HUGE else "boundary"
                    for f, monitor in zip(FIELDS, ("uncapped_flops_exact", "uncapped_size_exact", "uncapped_write_exact")):
                        rep.mon(monitor if which == "uncapped" else "boundary_chi")
                        if got[f] != want[f]:
                            out.append((f"{which}_{f}", detail(f, got[f], want[f]),
                                        f"{f}={got[f]} but the exact figure is {want[f]} (chi={chi}, largest bond {boundary})"))
                if chi != HUGE and base is not None:
                    for f in ("max_size", "peak_size", "write"):
                        rep.mon("monotone_in_chi")
                        if got[f] > base[f]:
                            out.append(("monotone", detail(f, got[f], base[f]),
                                        f"{f}={got[f]} at chi={chi} exceeds the uncapped value {base[f]}"))
                    for f in ("max_size", "write"):
                        rep.mon("monotone_vs_exact")
                        if got[f] > want[f]:
                            out.append(("monotone_exact", detail(f, got[f], want[f]),
                                        f"{f}={got[f]} at chi={chi} exceeds the exact (untruncated) figure {want[f]}"))
            # the DEFAULT cap (chi=None) of a compressed tree is documented as the square of the largest
            # dimension of THIS network; scoring the tree first goes through the default objective, which is
            # a process-wide shared object (get_score_fn is memoised) - what an earlier network did to it
            # must not show in this network's estimates
            # (a live tree that carries its own default objective - only the widened histories make such
            # trees - announces the cap that objective implies in case["default_chi"], or "skip")
            if type(tree).__name__ == "ContractionTreeCompressed" and case.get("default_chi") != "skip":
                dflt = case.get("default_chi") or max(pristine.size_dict.values()) ** 2
                try:
                    tree.get_score()
                    sd_ = tree.compressed_contract_stats(order=make_order(okind, oseed), compress_late=cl)
                    se_ = tree.compressed_contract_stats(chi=dflt, order=make_order(okind, oseed), compress_late=cl)
                except Exception as e:
                    out.append(("stats_raises", {"order": {"kind": okind, "seed": oseed}, "compress_late": cl, "chi": None, "field": "raises", "got": repr(e), "want": None, "boundary": boundary},
                                f"default-cap compressed_contract_stats raised {type(e).__name__}: {e}"))
                    continue
                rep.mon("default_chi")
                for f in ("flops", "max_size", "write", "peak_size"):
                    g, w_ = getattr(sd_, f), getattr(se_, f)
                    if g != w_:
                        out.append(("default_chi", {"order": {"kind": okind, "seed": oseed}, "compress_late": cl, "chi": None, "field": f, "got": g, "want": w_, "boundary": boundary},
                                    f"{f}={g} with the default cap but {w_} with chi={dflt} = (largest dimension)**2 given explicitly"))
                        break
    return out


def run_stats_case(rep, case):
    res = stats_case(rep, case)
    net = gen.Net.from_json(case["net"])
    seen = set()
    for kind, det, msg in res:
        # one violation per (kind, order, late): the rest of the chi sweep repeats it
        k = (kind, det["order"]["kind"], det["compress_late"])
        if k in seen:
            continue
        seen.add(k)
        w = dict(case)
        w.update(det)
        w["what"] = "stats"
        rep.violation(kind, w, f"{net.eq()} sizes={net.size_dict} ssa={case['ssa']} cls={case['cls']} "
                               f"order={det['order']} compress_late={det['compress_late']}: {msg}")
    return not res


# --------------------------------------------------------------------------- #
#                        monitor 6: the compressed finders                    #
# --------------------------------------------------------------------------- #

GC_SPACE = {
    "coeff_size_compressed": (0.5, 2.0),
    "coeff_size": (0.0, 1.0),
    "coeff_size_inputs": (-1.0, 1.0),
    "coeff_subgraph": (-1.0, 1.0),
    "coeff_centrality": (-10.0, 10.0),
    "temperature": (-0.1, 1.0),
}
MINIMIZE = ("peak-compressed", "size-compressed", "write-compressed", "flops-compressed", "combo-compressed", "max-compressed")
FINDERS = ("preset", "direct-gc", "direct-span", "hyper", "from_path", "windowed", "anneal")


def gen_finder_case(rng, cs, tier):
    net = gen_net(rng, 4, budget(tier, 12, 14))
    kind = rng.choice(FINDERS)
    p = {}
    n = net.N
    if kind == "preset":
        p["optimize"] = rng.choice(["greedy-compressed", "greedy-span"])
    elif kind == "direct-gc":
        p["chi"] = rng.choice([1, 2, 4, 16, 64])
        for k, (lo, hi) in GC_SPACE.items():
            if rng.random() < 0.6:
                p[k] = round(rng.uniform(lo, hi), 3)
        for k, opts in (("score_size_inputs", ["min", "max", "mean", "sum", "diff"]),
                        ("score_subgraph", ["min", "max", "mean", "sum", "diff"]),
                        ("centrality_combine", ["min", "max", "mean"]),
                        ("score_centrality", ["min", "max", "mean", "diff"])):
            if rng.random() < 0.5:
                p[k] = rng.choice(opts)
        p["seed"] = rng.randrange(10**6)
    elif kind == "direct-span":
        p["start"] = rng.choice(["max", "min"])
        p["coeff_connectivity"] = rng.randint(0, 1)
        p["coeff_ndim"] = rng.randint(-1, 1)
        p["coeff_distance"] = rng.randint(-1, 1)
        p["coeff_next_centrality"] = round(rng.uniform(-1, 1), 3)
        p["weight_bonds"] = rng.random() < 0.5
        p["temperature"] = round(rng.uniform(-1, 1), 3)
        p["distance_p"] = round(rng.uniform(-5, 5), 3)
        p["distance_steal"] = rng.choice(["", "abs", "rel"])
        p["score_perm"] = "C" + "".join(rng.sample("NDLI", 4)) + "T"
        p["seed"] = rng.randrange(10**6)
    elif kind == "hyper":
        k = rng.randint(1, 3)
        p["methods"] = sorted(rng.sample(["greedy-compressed", "greedy-span", "greedy-span-max", "kahypar-agglom"], k))
        p["chi"] = rng.choice([None, 2, 4, 16])
        p["minimize"] = rng.choice(MINIMIZE)
        p["seed"] = rng.randrange(10**6)
    elif kind == "from_path":
        p["form"] = rng.choice(["ssa", "linear", "truncated"])
        p["ssa"] = gen.random_ssa(rng, n) if rng.random() < 0.6 else connected_ssa(rng, net)
        if p["form"] == "truncated":
            p["keep"] = rng.randint(0, n - 2)
    else:
        src = rng.choice(["random", "connected", "connected", "greedy-compressed"])
        p["start"] = src
        if src == "random":
            p["ssa"] = gen.random_ssa(rng, n)
        elif src == "connected":
            p["ssa"] = connected_ssa(rng, net)
        p["minimize"] = rng.choice(MINIMIZE) + rng.choice(["", "-2", "-4", "-16"])
        p["compress_late"] = rng.random() < 0.3
        p["seed"] = rng.randrange(10**6)
        if kind == "windowed":
            p["window_size"] = rng.randint(2, n)
            p["max_iterations"] = rng.randint(1, 4)
            p["order_only"] = rng.random() < 0.4
            p["max_window_tries"] = rng.choice([5, 50, 1000])
            p["score_temperature"] = rng.choice([0.0, 0.01, 0.5])
        else:
            p["tsteps"] = rng.randint(1, 3)
            p["numiter"] = rng.randint(1, 3)
            p["select"] = rng.choice(["descend", "ascend", "random", "bounce"])
        p["inplace"] = rng.random() < 0.3
    return {"what": "finder", "net": net.to_json(), "method": kind, "params": p, "case_seed": cs}


def objective_for(p):
    from cotengra.scoring import get_score_fn

    if not p.get("compress_late"):
        return p["minimize"]
    import copy

    obj = copy.copy(get_score_fn(p["minimize"]))
    obj.compress_late = True
    return obj


def run_finder(case):
    """-> tree (whatever the finder returned)"""
    import cotengra as ctg
    from cotengra.core import ContractionTreeCompressed
    from cotengra.pathfinders.path_compressed_greedy import GreedyCompressed, GreedySpan

    net = gen.Net.from_json(case["net"])
    args = (net.inputs, net.output, dict(net.size_dict))
    p = dict(case["params"])
    m = case["method"]
    if m == "preset":
        return ctg.array_contract_tree(*args, optimize=p["optimize"])
    if m == "direct-gc":
        return GreedyCompressed(**p).search(*args)
    if m == "direct-span":
        return GreedySpan(**p).search(*args)
    if m == "hyper":
        opt = ctg.HyperCompressedOptimizer(
            chi=p["chi"], methods=p["methods"], minimize=p["minimize"], max_repeats=4,
            parallel=False, seed=p["seed"], on_trial_error="raise",
        )
        return opt.search(*args)
    if m == "from_path":
        ssa = [tuple(s) for s in p["ssa"]]
        if p["form"] == "ssa":
            return ContractionTreeCompressed.from_path(*args, ssa_path=ssa)
        if p["form"] == "linear":
            return ContractionTreeCompressed.from_path(*args, path=ref.ssa_to_linear_model(ssa, net.N))
        return ContractionTreeCompressed.from_path(*args, ssa_path=ssa[: p["keep"]], autocomplete=True)
    # windowed / anneal start from a tree
    if p["start"] == "greedy-compressed":
        start = ctg.array_contract_tree(*args, optimize="greedy-compressed")
    else:
        start = ContractionTreeCompressed.from_path(*args, ssa_path=[tuple(s) for s in p["ssa"]])
    minimize = objective_for(p)
    if m == "windowed":
        fn = start.windowed_reconfigure_ if p["inplace"] else start.windowed_reconfigure
        return fn(
            minimize=minimize, order_only=p["order_only"], window_size=p["window_size"],
            max_iterations=p["max_iterations"], max_window_tries=p["max_window_tries"],
            score_temperature=p["score_temperature"], seed=p["seed"],
        )
    fn = start.simulated_anneal_ if p["inplace"] else start.simulated_anneal
    return fn(minimize=minimize, tsteps=p["tsteps"], numiter=p["numiter"], select=p["select"], seed=p["seed"])


def check_finder_tree(net, tree):
    """None or (kind, message)"""
    N = net.N
    try:
        children = ct.children_of(tree)
    except Exception as e:
        return ("finder_not_a_tree", f"result {type(tree).__name__} has no usable children map: {e!r}")
    if getattr(tree, "N", None) != N:
        return ("finder_incomplete", f"tree.N={getattr(tree, 'N', None)} for {N} inputs")
    msg = ref.check_tree_struct(N, children)
    if msg:
        return ("finder_incomplete", msg)
    try:
        trav = [(frozenset(p), frozenset(l), frozenset(r)) for p, l, r in tree.traverse()]
    except Exception as e:
        return ("finder_order", f"default traversal raised {type(e).__name__}: {e}")
    msg = valid_order(N, children, trav)
    if msg:
        return ("finder_order", f"default traversal (order={tree.get_default_order()!r}): {msg}")
    return None


_MECH = {}


def run_finder_case(rep, case, follow_up=True):
    net = gen.Net.from_json(case["net"])
    rep.count("finder", case["method"])
    label = f"{net.eq()} sizes={net.size_dict} {case['method']} {case['params']}"
    try:
        with time_limit(OP_LIMIT):
            tree = run_finder(case)
    except OpTimeout as e:
        rep.inconclusive_case(f"{label}: {e}")
        return
    except Exception as e:
        rep.mon("compressed_finder_tree")
        msg = f"{label}: {type(e).__name__}: {e} | {traceback.format_exc()[-700:]}"
        # the report keeps 40 violations per shard: after 3 witnesses of one classified mechanism
        # the repeats are tallied instead, so that they cannot crowd out anything new
        key = classify({"kind": "finder_raises", "witness": case, "message": msg})
        if key is not None:
            _MECH[key] = _MECH.get(key, 0) + 1
            rep.count("mechanism_occurrences", key)
            if _MECH[key] > 3:
                return
        rep.violation("finder_raises", case, msg)
        return
    rep.mon("compressed_finder_tree")
    res = check_finder_tree(net, tree)
    if res:
        rep.violation(res[0], case, f"{label}: {res[1]}")
        return
    rep.count("finder_ok", case["method"] + ":" + type(tree).__name__)
    if follow_up:
        # the estimates on the finder's own tree
        ssa = [tuple(s) for s in tree.get_ssa_path()]
        run_stats_case(rep, {
            "net": case["net"], "ssa": ssa, "cls": "compressed", "order_seed": 7,
            "source": "finder:" + case["method"], "orders": ("surface_order", "rand"),
        })


# --------------------------------------------------------------------------- #
#                                 driver                                      #
# --------------------------------------------------------------------------- #


def gen_stats_case(rng, cs, tier, small=True):
    r = rng.random()
    if small and r < 0.08:
        net = gen_net(rng, 2, 3)
    else:
        net = gen_net(rng, 4, budget(tier, 12, 14))
    n = net.N
    src = rng.choice(["random", "random", "connected", "greedy-compressed"])
    if src == "random":
        ssa = gen.random_ssa(rng, n)
    elif src == "connected":
        ssa = connected_ssa(rng, net)
    else:
        from cotengra.pathfinders.path_compressed_greedy import GreedyCompressed

        try:
            ssa = GreedyCompressed(chi=rng.choice([2, 4, 16]), seed=rng.randrange(10**6),
                                   temperature=rng.choice([0.0, 0.5])).get_ssa_path(
                net.inputs, net.output, dict(net.size_dict))
            ssa = [tuple(s) for s in ssa]
            if ref.check_ssa_path(n, ssa) or any(len(s) != 2 for s in ssa):
                raise ValueError("unusable path")
        except Exception:
            src = "connected"
            ssa = connected_ssa(rng, net)
    return {
        "what": "stats", "net": net.to_json(), "ssa": ssa, "cls": rng.choice(["plain", "compressed"]),
        "order_seed": rng.randrange(10**6), "source": src, "case_seed": cs,
    }


# --------------------------------------------------------------------------- #
#              histories: the estimates after the tree has changed             #
# --------------------------------------------------------------------------- #

HIST_MINIMIZE = ("flops", "size", "write", "combo")  # objectives subtree_reconfigure can optimise for


def gen_history_case(rng, cs, tier):
    case = gen_stats_case(rng, cs, tier, small=False)
    case["what"] = "history"
    case["source"] = "history:" + case["source"]
    orders = list(ORDERS) if rng.random() < 0.35 else ["dfs", "surface_order"]
    case["orders"] = orders
    # stage 0 may ask for some of the orders only: what a copy computes first is then new to its source
    case["first_orders"] = list(orders) if rng.random() < 0.6 else sorted(rng.sample(orders, rng.randint(1, len(orders) - 1)))
    steps = []
    for _ in range(rng.randint(1, 3)):
        steps.append({
            "inplace": rng.random() < 0.65,
            "subtree_size": rng.choice([3, 3, 4, 4, 5, 6]),
            "maxiter": rng.choice([1, 1, 1, 2]),
            "select": rng.choice(["min", "random", "random", "max"]),
            "subtree_search": rng.choice(["bfs", "dfs", "random"]),
            "minimize": rng.choice(HIST_MINIMIZE),
            "seed": rng.randrange(10**6),
        })
    case["steps"] = steps
    return case


def present_ssa(tree, N):
    """-> (ssa path of the structure the object has now, {node: {left, right}}) or (None, message)"""
    children = ct.children_of(tree)
    msg = ref.check_tree_struct(N, children)
    if msg:
        return None, msg
    return [tuple(p) for p in ref.children_to_ssa(N, children)], {p: frozenset(lr) for p, lr in children.items()}


def _hdet(stage, ssa_now):
    return {"order": None, "compress_late": None, "chi": None, "field": "tree", "got": None, "want": None,
            "stage": stage, "on": "search result", "ssa_at_stage": [list(p) for p in ssa_now]}


def carried_default_chi(tree):
    """the default cap implied by the default objective the tree SAYS it carries: its chi when that is a
    number, None (= the class default, (largest dimension)**2) when it has none, "skip" when the objective is
    a bare string (what the defaults make of one is outside the statement: FINDINGS_widen-b.md O1)"""
    try:
        obj = tree.get_default_objective()
    except Exception:
        return "skip"
    if isinstance(obj, str):
        return "skip"
    chi = getattr(obj, "chi", "auto")
    return None if chi == "auto" else chi


def run_compressed_reconfigure(tree, st):
    """one ``compressed_reconfigure`` step of a history (st: JSON-able settings)"""
    kw = dict(minimize=make_objective(st["objective"]), order_only=st["order_only"], max_nodes=st["max_nodes"],
              exploration_power=st["exploration_power"])
    if st.get("max_time"):
        kw["max_time"] = st["max_time"]  # with max_nodes='auto': search until the time is up
    if st["inplace"] and st.get("partial"):
        return tree.compressed_reconfigure_(**kw)  # the functools.partialmethod spelling
    return tree.compressed_reconfigure(inplace=st["inplace"], **kw)


def history_case(rep, case, register=True):
    """-> list of (kind, detail, message); detail carries "stage" (0 = before any change) and "on"."""
    net = gen.Net.from_json(case["net"])
    pristine = gen.Net.from_json(case["net"])
    N = pristine.N
    out = []
    if lonely_indices(pristine) or pristine.has_repeat():
        rep.count("skipped", "not ordinary")
        return out
    try:
        tree = build_tree(net, [tuple(s) for s in case["ssa"]], case["cls"])
    except Exception as e:
        rep.inconclusive_case(f"could not build the tree: {e!r}")
        return out

    def sweep(t, ssa_now, orders, stage, on, reg, dchi=None):
        sub = {k: case[k] for k in ("net", "cls", "order_seed", "source")}
        sub["ssa"] = ssa_now
        sub["orders"] = tuple(orders)
        if dchi is not None:
            sub["default_chi"] = dchi
        n0 = rep.monitors["uncapped_flops_exact"]
        for kind, det, msg in stats_case(rep, sub, register=reg, tree=t):
            det = dict(det, stage=stage, on=on, ssa_at_stage=[list(p) for p in ssa_now])
            out.append((kind, det, f"[history: stage {stage}, {on}] {msg}"))
        return rep.monitors["uncapped_flops_exact"] > n0  # did the oracle really look at this tree?

    ssa0, nodes0 = present_ssa(tree, N)
    if ssa0 is None:
        rep.inconclusive_case(f"freshly built tree is not a complete tree: {nodes0}")
        return out
    if not sweep(tree, ssa0, case["first_orders"], 0, "fresh", register):
        return out
    cur, cur_ssa, cur_nodes = tree, ssa0, nodes0
    cur_dchi = None  # the default cap implied by the default objective the live object carries (None: class default)
    for j, st in enumerate(case["steps"], 1):
        op = st.get("op", "subtree_reconfigure")
        new_dchi = cur_dchi
        try:
            with time_limit(OP_LIMIT):
                if op == "compressed_reconfigure":
                    new = run_compressed_reconfigure(cur, st)
                    new_dchi = carried_default_chi(new)
                else:
                    new = cur.subtree_reconfigure(
                        subtree_size=st["subtree_size"], subtree_search=st["subtree_search"], select=st["select"],
                        maxiter=st["maxiter"], seed=st["seed"], minimize=st["minimize"], inplace=st["inplace"],
                    )
        except OpTimeout as e:
            rep.inconclusive_case(f"history step {j}: {e}")
            break
        except Exception as e:
            if op == "compressed_reconfigure":
                # a compressed pathfinder: the statement promises a tree
                rep.mon("compressed_reconfigure_tree")
                out.append(("finder_raises", _hdet(j, cur_ssa),
                            f"[history: stage {j}] compressed_reconfigure({st}) raised {type(e).__name__}: {e} | {traceback.format_exc()[-600:]}"))
            else:
                rep.count("excluded", f"history: subtree_reconfigure raised {type(e).__name__}")
            break
        if st["inplace"] and new is not cur:
            rep.inconclusive_case(f"{op}(inplace) returned another object: C04's domain")
            break
        new_ssa, new_nodes = present_ssa(new, N)
        if op == "compressed_reconfigure":
            rep.mon("compressed_reconfigure_tree")
            rep.count("compressed_reconfigure", f"{type(new).__name__}:{'inplace' if st['inplace'] else 'copy'}:"
                                                f"{'order_only' if st['order_only'] else 'free'}"
                                                f"{':timed' if st.get('max_time') else ''}")
            res = ("finder_incomplete", new_nodes) if new_ssa is None else check_finder_tree(pristine, new)
            if res:
                out.append((res[0], _hdet(j, cur_ssa), f"[history: stage {j}] compressed_reconfigure({st}): {res[1]}"))
                break
        elif new_ssa is None:
            rep.inconclusive_case(f"tree after subtree_reconfigure is not a complete tree ({new_nodes}): C04's domain")
            break
        changed = set(new_nodes) != set(cur_nodes)
        rep.count("history_steps", f"{'inplace' if st['inplace'] else 'copy'}:{'changed' if changed else 'same'}")
        if not sweep(new, new_ssa, case["orders"], j, "modified in place" if st["inplace"] else "modified copy", register, new_dchi):
            break
        if op == "compressed_reconfigure":
            rep.mon("compressed_reconfigure_estimates")  # the whole sweep ran on the tree the search returned
            if changed:
                rep.mon("compressed_reconfigure_changed")
        rep.mon("history_rechecks")
        if changed:
            rep.mon("history_tree_changed")
            if new_nodes[frozenset(range(N))] == cur_nodes[frozenset(range(N))]:
                rep.mon("history_tree_changed_below_root")  # the change is inside a child of the root
        if not st["inplace"]:
            # the source object must still be described by ITS structure
            src_ssa, src_nodes = present_ssa(cur, N)
            if src_ssa is None or src_nodes != cur_nodes:
                rep.inconclusive_case("non-inplace subtree_reconfigure changed its source: C04's domain")
                break
            if sweep(cur, cur_ssa, case["orders"], j, "source of the copy", False, cur_dchi):
                rep.mon("history_rechecks")
                rep.mon("history_rechecks_of_copy_source")
        cur, cur_ssa, cur_nodes, cur_dchi = new, new_ssa, new_nodes, new_dchi
    return out


def run_history_case(rep, case):
    res = history_case(rep, case)
    net = gen.Net.from_json(case["net"])
    rep.count("history_cls", case["cls"])
    seen = set()
    for kind, det, msg in res:
        # the first witness of each kind: the stages / settings that follow repeat it (replay reruns them all)
        if kind in seen:
            continue
        seen.add(kind)
        w = dict(case)
        w.update(det)
        w["what"] = "history"
        rep.violation(kind, w, f"{net.eq()} sizes={net.size_dict} ssa={case['ssa']} cls={case['cls']} steps={case['steps']} "
                               f"first_orders={case['first_orders']} order={det['order']} compress_late={det['compress_late']}: {msg}")
    return not res


# --------------------------------------------------------------------------- #
#   widening (round 4): every route that REPORTS a compressed-contraction      #
#   estimate, the objectives / trackers, and the remaining compressed finders  #
# --------------------------------------------------------------------------- #
#
# Routes (all must tell the same story as compressed_contract_stats(chi, order, compress_late),
# and therefore the exact figures of the independent model when chi >= every bond):
#   1. ContractionTree.total_flops_compressed / contraction_cost_compressed / total_write_compressed /
#      max_size_compressed / peak_size_compressed / contraction_width_compressed / combo_cost_compressed /
#      total_cost_compressed with chi / order / compress_late / log / factor / dtype=None, by keyword and
#      positionally; on ContractionTreeCompressed also the aliases total_flops / contraction_cost /
#      total_write / max_size / peak_size / contraction_width / combo_cost / total_cost, with arguments
#      LEFT OUT: chi -> the chi of the tree's default objective, else (largest dimension)**2;
#      compress_late -> that objective's; order -> 'surface_order'; factor -> that objective's, else 64.
#   2. the objectives '<flops|write|size|max|peak|combo>-compressed[-<chi>]' (string -> get_score_fn,
#      class constructor, copy with compress_late switched on): the flops / write / size they write into a
#      trial, called directly and through tree.get_score.
#   3. the trackers CompressedObjective.get_compressed_stats_tracker hands to the path optimisers, observed
#      on pathfinders.path_compressed.WindowedOptimizer(...).tracker: figures, describe(), score - before
#      and (uncapped only) after refine / simulated_anneal.
#   4. HyperCompressedOptimizer(reconf_opts=...) -> CompressedReconfTrial: the winning trial's figures are
#      those of the tree it returns.
#   5. tree.compressed_reconfigure / compressed_reconfigure_ as a step of a history.

DEFAULT_FACTOR = 64  # cotengra.scoring.DEFAULT_COMBO_FACTOR (documented default of every combo cost)

OBJ_CLASS = {
    "size-compressed": "CompressedSizeObjective", "max-compressed": "CompressedSizeObjective",
    "peak-compressed": "CompressedPeakObjective", "write-compressed": "CompressedWriteObjective",
    "flops-compressed": "CompressedFlopsObjective", "combo-compressed": "CompressedComboObjective",
}
# which figure an objective is about (what its score must order by)
PRINCIPAL = {
    "size-compressed": "max_size", "max-compressed": "max_size", "peak-compressed": "peak_size",
    "write-compressed": "write", "flops-compressed": "flops", "combo-compressed": "combo",
}
# what trial["size"] may hold: the class docstrings promise "the maximum size intermediate" (size / max), "the
# peak total concurrent size" (peak); the write objective stores its own figure there (weakest reading: any of the
# three size-like estimates is accepted for it)
SIZE_FIELD = {
    "size-compressed": ("max_size",), "max-compressed": ("max_size",), "flops-compressed": ("max_size",),
    "combo-compressed": ("max_size",), "peak-compressed": ("peak_size",),
    "write-compressed": ("write", "max_size", "peak_size"),
}
EST_METHODS = (
    ("total_flops_compressed", "flops"), ("contraction_cost_compressed", "flops"),
    ("total_write_compressed", "write"), ("max_size_compressed", "max_size"),
    ("peak_size_compressed", "peak_size"), ("contraction_width_compressed", "width"),
    ("combo_cost_compressed", "combo"), ("total_cost_compressed", "combo"),
)
EST_ALIASES = (
    ("total_flops", "flops"), ("contraction_cost", "flops"), ("total_write", "write"), ("max_size", "max_size"),
    ("peak_size", "peak_size"), ("contraction_width", "width"), ("combo_cost", "combo"), ("total_cost", "combo"),
)


def gen_objective_spec(rng, explicit_chi=False):
    """JSON-able description of one compressed objective"""
    name = rng.choice(MINIMIZE)
    chi = rng.choice([None, None, 1, 2, 4, 16, 64, HUGE])
    if explicit_chi and chi is None:
        chi = rng.choice([1, 2, 4, 16, 64, HUGE])
    late = rng.random() < 0.4
    if late:
        how = rng.choice(["instance", "copy"])
    else:
        how = rng.choice(["string", "string", "instance"])
    spec = {"name": name, "chi": chi, "late": late, "how": how, "sw0": False, "factor": None}
    if how == "instance":
        if name == "combo-compressed":
            spec["factor"] = rng.choice([None, 0, 1, 16, 256])
        else:
            spec["sw0"] = rng.random() < 0.5
    return spec


def make_objective(spec):
    """spec -> what is handed to cotengra (a string, or an Objective instance)"""
    if spec is None:
        return None
    if spec.get("exact"):
        return spec["name"]
    s = spec["name"] + (f"-{spec['chi']}" if spec["chi"] is not None else "")
    if spec["how"] == "string":
        return s
    from cotengra import scoring

    if spec["how"] == "copy":
        import copy

        obj = copy.copy(scoring.get_score_fn(s))
        obj.compress_late = bool(spec["late"])
        return obj
    kw = {"chi": "auto" if spec["chi"] is None else spec["chi"], "compress_late": bool(spec["late"])}
    if spec.get("sw0"):
        kw["secondary_weight"] = 0.0
    if spec.get("factor") is not None:
        kw["factor"] = spec["factor"]
    return getattr(scoring, OBJ_CLASS[spec["name"]])(**kw)


def spec_expect(spec, pristine):
    """-> (chi, compress_late, factor) the documented behaviour of an objective implies for this network"""
    auto = max(pristine.size_dict.values()) ** 2
    if spec is None:
        return auto, False, DEFAULT_FACTOR
    if spec.get("exact"):
        return auto, False, spec.get("factor") or DEFAULT_FACTOR
    factor = DEFAULT_FACTOR
    if spec["name"] == "combo-compressed" and spec.get("factor") is not None:
        factor = spec["factor"]
    return (auto if spec["chi"] is None else spec["chi"]), bool(spec["late"]), factor


def exact_figures(pristine, ssa):
    """-> (children, want, input sizes): the independent model's figures in the tracker's conventions"""
    children = ref.ssa_to_children(pristine.N, ssa)
    cs = ref.Costs(pristine.inputs, pristine.output, pristine.size_dict, children)
    insz = [prod_sizes(pristine.size_dict, t) for t in pristine.inputs]
    want = {
        "flops": cs.total_flops(),
        "max_size": max(max(insz), cs.max_size()) if pristine.N > 1 else max(insz),
        "write": cs.total_write() + sum(insz),
    }
    return children, want, insz


def figs_of(st):
    return {"flops": st.flops, "max_size": st.max_size, "write": st.write, "peak_size": st.peak_size}


def close(a, b, rel=1e-9):
    if isinstance(a, int) and isinstance(b, int) and not isinstance(a, bool):
        return a == b
    try:
        return abs(a - b) <= rel * max(1.0, abs(a), abs(b))
    except Exception:
        return False


def figure_value(figs, which, factor, base):
    """the value a reporting method must return for the figures ``figs``"""
    import math

    if which == "combo":
        v = figs["flops"] + factor * figs["write"]
    elif which == "width":
        v = figs["max_size"]
    else:
        v = figs[which]
    return math.log(v, base) if base is not None else v


def gen_api_case(rng, cs, tier):
    case = gen_stats_case(rng, cs, tier)
    case["what"] = "api"
    case["source"] = "api:" + case["source"]
    compressed = case["cls"] == "compressed"
    # the default objective the tree carries
    r = rng.random()
    if r < 0.25:
        tobj = None
    elif r < 0.37:
        nm, f = rng.choice([("flops", None), ("size", None), ("combo-32", 32), ("combo", None), ("combo-2", 2)])
        tobj = {"exact": True, "name": nm, "factor": f}
    else:
        tobj = gen_objective_spec(rng)
    case["tree_objective"] = tobj
    # PENDING-FINDING (FINDINGS_widen-b.md, observation O1): a STRING handed to the constructor
    # (from_path(..., objective='peak-compressed-2')) is stored as is and silently ignored by
    # get_default_chi / get_default_compress_late / get_default_combo_factor; outside the statement of C20, so
    # the constructor route is driven with Objective instances only ("ctor" = get_score_fn(...) first)
    case["objective_via"] = rng.choice(["ctor", "setter"])
    combos = []
    for _ in range(rng.randint(2, 4)):
        combos.append({
            "chi": rng.choice([None, None, "boundary", HUGE, 1, 2, 4, 16] if compressed else ["boundary", HUGE, 1, 2, 4, 16]),
            "order": rng.choice([None, None, "dfs", "surface_order", "rand"]),
            "late": rng.choice([None, None, False, True] if compressed else [False, True]),
            "log": rng.choice([None, None, 2, 10]),
            "factor": rng.choice([None, None, 0, 1, 64, 256.0]),
            "positional": rng.random() < 0.25,
            "dtype_kw": rng.random() < 0.3,
        })
    case["combos"] = combos
    case["objectives"] = [gen_objective_spec(rng) for _ in range(2)]
    tspec = gen_objective_spec(rng)
    tspec["how"] = "instance"
    if tspec["name"] != "combo-compressed":
        tspec["sw0"] = rng.random() < 0.6
    refine = None
    if rng.random() < 0.7:
        if rng.random() < 0.55:
            refine = {"kind": "refine", "window_size": rng.randint(2, 8), "max_iterations": rng.randint(1, 4),
                      "order_only": rng.random() < 0.4, "max_window_tries": rng.choice([5, 50, 300]),
                      "score_temperature": rng.choice([0.0, 0.01, 0.5]), "seed": rng.randrange(10**6)}
        else:
            refine = {"kind": "anneal", "tsteps": rng.randint(1, 3), "numiter": rng.randint(1, 3),
                      "select": rng.choice(["descend", "ascend", "random", "bounce"]), "seed": rng.randrange(10**6)}
    case["tracker"] = {"spec": tspec, "refine": refine}
    return case


def build_api_tree(net, case):
    ssa = [tuple(s) for s in case["ssa"]]
    tobj = case.get("tree_objective")
    obj = make_objective(tobj)
    kw = {}
    if obj is not None and case.get("objective_via") == "ctor":
        from cotengra.scoring import get_score_fn

        kw["objective"] = get_score_fn(obj)
    if case["cls"] == "compressed":
        from cotengra.core import ContractionTreeCompressed

        tree = ContractionTreeCompressed.from_path(net.inputs, net.output, dict(net.size_dict), ssa_path=ssa, **kw)
    else:
        tree = ct.make_tree(gen.Net(net.inputs, net.output, dict(net.size_dict)), ssa, **kw)
    if obj is not None and case.get("objective_via") != "ctor":
        tree.set_default_objective(obj)
    return tree


def api_case(rep, case, register=True):
    """-> list of (kind, detail, message)"""
    net = gen.Net.from_json(case["net"])
    pristine = gen.Net.from_json(case["net"])
    ssa = [tuple(s) for s in case["ssa"]]
    N = pristine.N
    out = []
    if lonely_indices(pristine) or pristine.has_repeat():
        rep.count("skipped", "not ordinary")
        return out
    children, want, insz = exact_figures(pristine, ssa)
    nonout = [pristine.size_dict[ix] for t in pristine.inputs for ix in t if ix not in pristine.output]
    max_index = max(nonout) if nonout else 1
    compressed = case["cls"] == "compressed"
    oseed = case["order_seed"]
    try:
        tree = build_api_tree(net, case)
        ex = tree.contract_stats()
    except Exception as e:
        rep.inconclusive_case(f"api: could not build the tree: {e!r}")
        return out
    if ex["flops"] != want["flops"] or ex["write"] + sum(insz) != want["write"]:
        rep.inconclusive_case(f"api: tree.contract_stats() {ex} disagrees with the reference cost model: C03's domain")
        return out
    t_chi, t_late, t_factor = spec_expect(case.get("tree_objective"), pristine)

    bounds = {}

    def boundary_of(okind, late):
        k = (okind, late)
        if k not in bounds:
            trav = ct.traversal(tree, make_order(okind, oseed))
            msg = valid_order(N, children, trav)
            if msg:
                bounds[k] = None
            else:
                bm = bond_model(pristine, trav, late)
                bounds[k] = (max(bm["max_any"], max_index), bm["n_multi"])
        return bounds[k]

    def stats(chi, okind, late):
        return figs_of(tree.compressed_contract_stats(chi=chi, order=make_order(okind, oseed), compress_late=late))

    def fail(kind, part, detail, msg):
        d = {"part": part, "order": {"kind": detail.get("okind"), "seed": oseed}, "compress_late": detail.get("late"),
             "chi": detail.get("chi"), "field": detail.get("field"), "got": detail.get("got"), "want": detail.get("want")}
        out.append((kind, d, msg))

    # ---- 1. the reporting methods --------------------------------------------------------------
    n_multi_any = 0
    for ci, combo in enumerate(case.get("combos", ())):
        okind = combo["order"] or "surface_order"
        late = t_late if combo["late"] is None else combo["late"]
        try:
            b = boundary_of(okind, late)
        except Exception as e:
            rep.inconclusive_case(f"api: traverse({okind}) raised {e!r}")
            continue
        if b is None:
            rep.inconclusive_case(f"api: traverse({okind}) is not a valid order: C07's domain")
            continue
        boundary, n_multi = b
        n_multi_any += n_multi
        if combo["chi"] is None:
            chi = t_chi
        elif combo["chi"] == "boundary":
            chi = boundary
        else:
            chi = combo["chi"]
        try:
            figs = stats(chi, okind, late)
            figs_u = figs if chi == HUGE else stats(HUGE, okind, late)
        except Exception as e:
            fail("stats_raises", "methods", {"okind": okind, "late": late, "chi": chi, "field": "raises", "got": repr(e)},
                 f"compressed_contract_stats raised {type(e).__name__}: {e}")
            continue
        exact = dict(want, peak_size=None) if chi >= boundary else None
        methods = EST_METHODS + (EST_ALIASES if compressed else ())
        for name, which in methods:
            kw = {}
            if combo["chi"] is not None:
                kw["chi"] = chi
            if combo["order"] is not None:
                kw["order"] = make_order(okind, oseed)
            if combo["late"] is not None:
                kw["compress_late"] = late
            args = ()
            if combo["positional"] and len(kw) == 3:
                args = (kw.pop("chi"), kw.pop("order"), kw.pop("compress_late"))
            base = combo["log"]
            if base is not None:
                kw["log"] = base
            elif which == "width":
                base = 2  # documented default: log2 of the largest tensor
            factor = t_factor
            if which == "combo" and combo["factor"] is not None:
                kw["factor"] = factor = combo["factor"]
            if which == "flops" and combo["dtype_kw"]:
                kw["dtype"] = None
            det = {"okind": okind, "late": late, "chi": chi, "field": f"{name}#{ci}"}
            try:
                got = getattr(tree, name)(*args, **kw)
            except Exception as e:
                fail("estimate_method_raises", "methods", dict(det, got=repr(e)),
                     f"tree.{name}({', '.join(map(str, args))}{', ' if args else ''}{kw}) raised {type(e).__name__}: {e}")
                continue
            called = f"tree.{name}(args={args!r}, {kw})" if args else f"tree.{name}({kw})"
            rep.mon("estimate_methods_vs_stats")
            rep.count("estimate_method", name)
            if combo["chi"] is None:
                rep.mon("alias_default_chi")
            if combo["late"] is None:
                rep.mon("alias_default_late")
                if t_late:
                    rep.mon("default_late_from_objective")
            w_ = figure_value(figs, which, factor, base)
            if not close(got, w_):
                fail("estimate_method_vs_stats", "methods", dict(det, got=got, want=w_),
                     f"{called} = {got} but compressed_contract_stats(chi={chi}, order={okind}, compress_late={late}) "
                     f"gives {figs} -> {w_} (tree default objective: {case.get('tree_objective')})")
                continue
            if exact is not None and which != "peak_size":
                rep.mon("estimate_methods_exact")
                w_ = figure_value(exact, which, factor, base)
                if not close(got, w_):
                    fail("estimate_method_exact", "methods", dict(det, got=got, want=w_),
                         f"{called} = {got} but the exact figure is {w_} (chi={chi} >= largest bond {boundary})")
                    continue
            if which in ("write", "max_size", "peak_size", "width"):
                rep.mon("estimate_methods_monotone")
                w_ = figure_value(figs_u, which, factor, base)
                if got > w_ and not close(got, w_):
                    fail("estimate_method_monotone", "methods", dict(det, got=got, want=w_),
                         f"{called} = {got} exceeds the uncapped value {w_}")

    # ---- 2. the objectives: what they write into a trial ---------------------------------------
    for oi, spec in enumerate(case.get("objectives", ())):
        chi, late, factor = spec_expect(spec, pristine)
        det = {"okind": "surface_order", "late": late, "chi": chi, "field": f"objective#{oi}"}
        try:
            b = boundary_of("surface_order", late)
            if b is None:
                continue
            boundary = b[0]
            obj = make_objective(spec)
            from cotengra.scoring import get_score_fn

            fn = get_score_fn(obj)
            trial = {"tree": tree}
            cr = fn(trial)
            cr2 = tree.get_score(obj)
            figs = stats(chi, "surface_order", late)
        except Exception as e:
            fail("objective_raises", "objectives", dict(det, got=repr(e)),
                 f"objective {spec} raised {type(e).__name__}: {e} | {traceback.format_exc()[-400:]}")
            continue
        rep.mon("objective_trial_figures")
        rep.count("objective", f"{spec['name']}{'-chi' if spec['chi'] is not None else ''}:{spec['how']}:{'late' if late else 'early'}")
        bad = None
        for f in ("flops", "write"):
            if trial.get(f) != figs[f]:
                bad = (f, trial.get(f), figs[f])
        if trial.get("size") not in [figs[f] for f in SIZE_FIELD[spec["name"]]]:
            bad = ("size", trial.get("size"), {f: figs[f] for f in SIZE_FIELD[spec["name"]]})
        if bad:
            fail("objective_trial_figures", "objectives", dict(det, got=bad[1], want=bad[2]),
                 f"objective {spec}: trial[{bad[0]!r}] = {bad[1]} but compressed_contract_stats(chi={chi}, "
                 f"compress_late={late}) gives {bad[2]}")
            continue
        if not close(cr, cr2):
            fail("objective_trial_figures", "objectives", dict(det, got=cr2, want=cr),
                 f"objective {spec}: tree.get_score(objective) = {cr2} but objective({{'tree': tree}}) = {cr}")
            continue
        if chi >= boundary:
            rep.mon("objective_trial_exact")
            for f in ("flops", "write"):
                if trial[f] != want[f]:
                    fail("objective_trial_exact", "objectives", dict(det, got=trial[f], want=want[f]),
                         f"objective {spec}: trial[{f!r}] = {trial[f]} but the exact figure is {want[f]} "
                         f"(chi={chi} >= largest bond {boundary})")
                    break
            else:
                if SIZE_FIELD[spec["name"]] == ("max_size",) and trial["size"] != want["max_size"]:
                    fail("objective_trial_exact", "objectives", dict(det, got=trial["size"], want=want["max_size"]),
                         f"objective {spec}: trial['size'] = {trial['size']} but the exact largest tensor is {want['max_size']}")

    # ---- 3. the trackers the path optimisers work with -----------------------------------------
    tr_case = case.get("tracker")
    if tr_case and compressed and N >= 3:
        out.extend(tracker_part(rep, case, tr_case, net, pristine, tree, want, boundary_of, stats))

    if register:
        key = ("api", pristine.key(), tuple(ssa), case["cls"], repr(case.get("tree_objective")), repr(case.get("combos")))
        rep.case(key, N >= 4 and n_multi_any > 0, pristine.cls,
                 sample={"eq": pristine.eq(), "sizes": pristine.size_dict, "ssa": ssa, "cls": case["cls"],
                         "tree_objective": case.get("tree_objective"), "combos": case.get("combos")})
        rep.count("tree_source", case.get("source", "?"))
        rep.count("api_tree_objective", "none" if case.get("tree_objective") is None else
                  case["tree_objective"]["name"] + ":" + case.get("objective_via", ""))
    return out


def parse_describe(s):
    import re

    return {k: float(v) for k, v in re.findall(r"([FCSP])=(-?[0-9.]+)", s)}


def tracker_part(rep, case, tr_case, net, pristine, tree, want, boundary_of, stats):
    """WindowedOptimizer(...).tracker for the tree's own path (= its surface order)."""
    import math

    from cotengra.pathfinders.path_compressed import WindowedOptimizer

    out = []
    spec = tr_case["spec"]
    ssa = [tuple(s) for s in case["ssa"]]
    chi, late, factor = spec_expect(spec, pristine)
    oseed = case["order_seed"]

    def fail(kind, det, msg):
        d = {"part": "tracker", "order": {"kind": "surface_order", "seed": oseed}, "compress_late": late, "chi": det.get("chi", chi),
             "field": det.get("field"), "got": det.get("got"), "want": det.get("want")}
        out.append((kind, d, msg))

    b = boundary_of("surface_order", late)
    if b is None:
        return out
    boundary = b[0]
    args = (net.inputs, net.output, dict(net.size_dict))

    def tracker_for(c):
        sp = dict(spec, chi=c)
        wo = WindowedOptimizer(*args, minimize=make_objective(sp), ssa_path=ssa, seed=0)
        return wo, wo.tracker

    def principal(figs):
        p = PRINCIPAL[spec["name"]]
        return figs["flops"] + factor * figs["write"] if p == "combo" else figs[p]

    try:
        wo, tr = tracker_for(spec["chi"])
        got = figs_of(tr)
        figs = stats(chi, "surface_order", late)
        desc = tr.describe()
        score = tr.score
    except Exception as e:
        fail("tracker_raises", {"field": "raises", "got": repr(e)},
             f"WindowedOptimizer(minimize={spec}).tracker raised {type(e).__name__}: {e} | {traceback.format_exc()[-400:]}")
        return out
    rep.mon("tracker_vs_stats")
    rep.count("tracker_objective", f"{spec['name']}{'-chi' if spec['chi'] is not None else ''}:{'late' if late else 'early'}")
    uncapped = chi >= boundary
    # (flops at a truncating chi: the QR estimate is outside the statement, and the two routes label the
    #  tensors differently - see FINDINGS_widen-b.md O2 - so flops is compared only when nothing is truncated)
    for f in ("max_size", "peak_size", "write") + (("flops",) if uncapped else ()):
        if got[f] != figs[f]:
            fail("tracker_vs_stats", {"field": f, "got": got[f], "want": figs[f]},
                 f"tracker of objective {spec} along the tree's path: {f} = {got[f]} but compressed_contract_stats"
                 f"(chi={chi}, 'surface_order', compress_late={late}) gives {figs[f]}")
            return out
    if uncapped:
        rep.mon("tracker_exact")
        for f in ("flops", "max_size", "write"):
            if got[f] != want[f]:
                fail("tracker_exact", {"field": f, "got": got[f], "want": want[f]},
                     f"tracker of objective {spec}: {f} = {got[f]} but the exact figure is {want[f]} (chi={chi} >= largest bond {boundary})")
                return out
    # describe(): 'F=log10(flops) C=log10(flops + factor*write) S=log2(max_size) P=log2(peak_size)', 2 decimals
    d = parse_describe(desc)
    rep.mon("tracker_describe")
    expect = {"S": math.log2(max(1, figs["max_size"])), "P": math.log2(max(1, figs["peak_size"]))}
    if uncapped:
        expect["F"] = math.log10(max(1, want["flops"]))
        expect["C"] = math.log10(max(1, want["flops"] + factor * want["write"]))
    for k, v in expect.items():
        if k not in d or abs(d[k] - v) > 0.005 + 1e-9:
            fail("tracker_describe", {"field": "describe:" + k, "got": desc, "want": v},
                 f"tracker.describe() = {desc!r} but {k} should read {v:.2f} (objective {spec}, figures {figs})")
            return out
    # score: with the secondary weight switched off it may depend on the objective's own figure only, and
    # must grow with it (no formula is assumed).  Pairs come from the same path at different chi.
    if spec.get("sw0") or spec["name"] == "combo-compressed":
        pairs = [(principal(got), score, chi)]
        try:
            for c in (HUGE, 1, 2, 4, 16):
                if c == chi:
                    continue
                _, t2 = tracker_for(c)
                pairs.append((principal(figs_of(t2)), t2.score, c))
        except Exception as e:
            fail("tracker_raises", {"field": "raises", "got": repr(e)}, f"tracker of {spec} at another chi raised {type(e).__name__}: {e}")
            return out
        rep.mon("tracker_score_order")
        msg = order_violation(pairs)
        if msg:
            fail("tracker_score_order", {"field": "score", "got": [list(p) for p in pairs], "want": None},
                 f"tracker.score of objective {spec} does not order by its figure: {msg}")
            return out
    # after refine / simulated_anneal, uncapped: the tracker must describe the path the optimiser now holds
    rf = tr_case.get("refine")
    if rf:
        sp = dict(spec, chi=HUGE)
        try:
            with time_limit(OP_LIMIT):
                wo = WindowedOptimizer(*args, minimize=make_objective(sp), ssa_path=ssa, seed=rf["seed"])
                if rf["kind"] == "refine":
                    wo.refine(window_size=max(2, min(rf["window_size"], pristine.N)), max_iterations=rf["max_iterations"],
                              order_only=rf["order_only"], max_window_tries=rf["max_window_tries"],
                              score_temperature=rf["score_temperature"])
                else:
                    wo.simulated_anneal(tsteps=rf["tsteps"], numiter=rf["numiter"], select=rf["select"])
                ssa2 = [tuple(p) for p in wo.get_ssa_path()]
                got2 = figs_of(wo.tracker)
        except OpTimeout as e:
            rep.inconclusive_case(f"api: {rf['kind']}: {e}")
            return out
        except Exception as e:
            # whether the optimiser returns at all is monitored by compressed_finder_tree (windowed / anneal)
            rep.count("excluded", f"api: WindowedOptimizer.{rf['kind']} raised {type(e).__name__}")
            return out
        if ref.check_ssa_path(pristine.N, ssa2) or any(len(p) != 2 for p in ssa2):
            rep.count("excluded", f"api: WindowedOptimizer.{rf['kind']} left an unusable path")
            return out
        _, want2, _ = exact_figures(pristine, ssa2)
        rep.mon("refined_tracker_exact")
        rep.count("refined_tracker", f"{rf['kind']}:{'changed' if ssa2 != ssa else 'same'}")
        for f in ("flops", "max_size", "write"):
            if got2[f] != want2[f]:
                fail("refined_tracker_exact", {"chi": HUGE, "field": f, "got": got2[f], "want": want2[f]},
                     f"after {rf} (objective {sp}, nothing truncated) the optimiser's tracker says {f} = {got2[f]} but "
                     f"the exact figure of the path it now holds {ssa2} is {want2[f]}")
                return out
        try:
            from cotengra.core import ContractionTreeCompressed

            t2 = ContractionTreeCompressed.from_path(*args, ssa_path=ssa2)
            peak2 = t2.compressed_contract_stats(chi=HUGE, order="surface_order", compress_late=late).peak_size
        except Exception as e:
            rep.inconclusive_case(f"api: could not rebuild the refined path: {e!r}")
            return out
        if got2["peak_size"] != peak2:
            fail("refined_tracker_exact", {"chi": HUGE, "field": "peak_size", "got": got2["peak_size"], "want": peak2},
                 f"after {rf} (objective {sp}) the optimiser's tracker says peak_size = {got2['peak_size']} but "
                 f"compressed_contract_stats of the path it now holds {ssa2} gives {peak2}")
    return out


def order_violation(pairs):
    """pairs of (figure, score, label): None if score is a strictly increasing function of figure"""
    ps = sorted(pairs, key=lambda p: (p[0], p[1]))
    for (f1, s1, l1), (f2, s2, l2) in zip(ps, ps[1:]):
        if f1 == f2 and not close(float(s1), float(s2), 1e-12):
            return f"figure {f1} scores {s1} at chi={l1} but {s2} at chi={l2}"
        if f1 < f2 and not s1 < s2:
            return f"figure {f1} (chi={l1}) scores {s1}, the larger figure {f2} (chi={l2}) scores {s2}"
    return None


def run_api_case(rep, case):
    res = api_case(rep, case)
    net = gen.Net.from_json(case["net"])
    seen = set()
    for kind, det, msg in res:
        k = (kind, det.get("part"))
        if k in seen:
            continue
        seen.add(k)
        w = dict(case)
        w.update(det)
        w["what"] = "api"
        rep.violation(kind, w, f"{net.eq()} sizes={net.size_dict} ssa={case['ssa']} cls={case['cls']} "
                               f"tree_objective={case.get('tree_objective')} via {case.get('objective_via')}: {msg}")
    return not res


# ------------------------- hyper-optimiser with reconf_opts ----------------------------------- #


def gen_hyper2_case(rng, cs, tier):
    net = gen_net(rng, 4, budget(tier, 12, 14))
    n = net.N
    spec = gen_objective_spec(rng)
    p = {
        "methods": sorted(rng.sample(["greedy-compressed", "greedy-span", "greedy-span-max", "kahypar-agglom"], rng.randint(1, 2))),
        "objective": spec,
        "seed": rng.randrange(10**6),
        "max_repeats": rng.randint(2, 4),
    }
    # the cap reaches the optimiser either inside the objective or as its own ``chi=`` argument (strings only)
    p["chi_arg"] = spec["how"] == "string" and spec["chi"] is not None and rng.random() < 0.6
    if rng.random() < 0.8:
        ro = {"window_size": rng.randint(2, n), "max_iterations": rng.randint(1, 3), "order_only": rng.random() < 0.4,
              "max_window_tries": rng.choice([5, 50, 300]), "score_temperature": rng.choice([0.0, 0.01, 0.5]),
              "seed": rng.randrange(10**6)}
        p["reconf_opts"] = ro
    else:
        p["reconf_opts"] = None
    return {"what": "finder2", "method": "hyper", "net": net.to_json(), "params": p, "case_seed": cs}


def run_hyper2_case(rep, case, follow_up=True):
    import cotengra as ctg

    net = gen.Net.from_json(case["net"])
    pristine = gen.Net.from_json(case["net"])
    p = case["params"]
    spec = p["objective"]
    label = f"{net.eq()} sizes={net.size_dict} HyperCompressedOptimizer {p}"
    rep.count("finder", "hyper+reconf" if p["reconf_opts"] else "hyper+figures")
    if p["chi_arg"]:
        minimize, chi_kw = spec["name"], spec["chi"]
    else:
        minimize, chi_kw = make_objective(spec), None
    try:
        with time_limit(OP_LIMIT):
            opt = ctg.HyperCompressedOptimizer(
                chi=chi_kw, methods=p["methods"], minimize=minimize, max_repeats=p["max_repeats"], parallel=False,
                seed=p["seed"], on_trial_error="raise", reconf_opts=p["reconf_opts"],
            )
            tree = opt.search(net.inputs, net.output, dict(net.size_dict))
            best = dict(opt.best)
    except OpTimeout as e:
        rep.inconclusive_case(f"{label}: {e}")
        return
    except Exception as e:
        rep.mon("compressed_finder_tree")
        rep.violation("finder_raises", case, f"{label}: {type(e).__name__}: {e} | {traceback.format_exc()[-700:]}")
        return
    rep.mon("compressed_finder_tree")
    if p["reconf_opts"]:
        rep.mon("hyper_reconf_tree")
    res = check_finder_tree(net, tree)
    if res:
        rep.violation(res[0], case, f"{label}: {res[1]}")
        return
    rep.count("finder_ok", "hyper2:" + type(tree).__name__)
    # the figures of the winning trial are those of the tree that is returned
    chi, late, _ = spec_expect(spec, pristine)
    try:
        figs = figs_of(tree.compressed_contract_stats(chi=chi, order="surface_order", compress_late=late))
    except Exception as e:
        rep.violation("stats_raises", case, f"{label}: compressed_contract_stats of the returned tree raised {type(e).__name__}: {e}")
        return
    rep.mon("hyper_trial_figures")
    bad = None
    for f in ("flops", "write"):
        if best.get(f) != figs[f]:
            bad = (f, best.get(f), figs[f])
    if best.get("size") not in [figs[f] for f in SIZE_FIELD[spec["name"]]]:
        bad = ("size", best.get("size"), {f: figs[f] for f in SIZE_FIELD[spec["name"]]})
    if best.get("tree") is not tree:
        bad = ("tree", "another object", "the returned tree")
    if bad:
        rep.violation("hyper_trial_figures", dict(case, field=bad[0], got=bad[1], want=bad[2]),
                      f"{label}: the best trial reports {bad[0]} = {bad[1]} but the tree it returns has {bad[2]} "
                      f"(compressed_contract_stats(chi={chi}, 'surface_order', compress_late={late}) = {figs})")
        return
    if follow_up:
        ssa = [tuple(s) for s in tree.get_ssa_path()]
        run_stats_case(rep, {
            "net": case["net"], "ssa": ssa, "cls": "compressed", "order_seed": 11,
            "source": "finder:hyper2", "orders": ("surface_order", "rand"),
        })


# ------------------------- histories with compressed_reconfigure ------------------------------ #


def gen_history2_case(rng, cs, tier):
    case = gen_stats_case(rng, cs, tier, small=False)
    case["what"] = "history"
    case["source"] = "history2:" + case["source"]
    orders = list(ORDERS) if rng.random() < 0.3 else ["dfs", "surface_order"]
    case["orders"] = orders
    case["first_orders"] = list(orders) if rng.random() < 0.6 else sorted(rng.sample(orders, rng.randint(1, len(orders) - 1)))
    n = len(case["net"]["inputs"])
    steps = []
    for _ in range(rng.randint(1, 2)):
        if steps and rng.random() < 0.35 or (not steps and rng.random() < 0.2):
            steps.append({
                "inplace": rng.random() < 0.65, "subtree_size": rng.choice([3, 4, 5, 6]), "maxiter": rng.choice([1, 2]),
                "select": rng.choice(["min", "random", "max"]), "subtree_search": rng.choice(["bfs", "dfs", "random"]),
                "minimize": rng.choice(HIST_MINIMIZE), "seed": rng.randrange(10**6),
            })
            continue
        # objectives without an explicit chi (chi='auto', also the method's own default minimize=None) are part of
        # the workload since the repair of F1 (FINDINGS_widen-b.md; fix 24b738c in /repo)
        # (minimize=None means the tree's own default objective: only a ContractionTreeCompressed has a compressed one)
        spec = None if (case["cls"] == "compressed" and rng.random() < 0.2) else gen_objective_spec(rng)
        steps.append({
            "op": "compressed_reconfigure", "objective": spec, "inplace": rng.random() < 0.5, "partial": rng.random() < 0.5,
            "order_only": rng.random() < 0.4,
            "max_nodes": rng.choice([5, 50, 300] + (["auto"] if n <= 6 else [])),
            "exploration_power": rng.choice([0, 0, 0.5, 2]),
        })
        if n <= 7 and rng.random() < 0.08:
            # time-limited instead of node-limited (the seeded start path is always completed first)
            steps[-1].update(max_nodes="auto", max_time=0.25)
    if not any(s.get("op") == "compressed_reconfigure" for s in steps):
        steps[-1:] = [{
            "op": "compressed_reconfigure", "objective": gen_objective_spec(rng),
            "inplace": rng.random() < 0.5, "partial": rng.random() < 0.5, "order_only": rng.random() < 0.4,
            "max_nodes": rng.choice([5, 50, 300]), "exploration_power": rng.choice([0, 0, 0.5, 2]),
        }]
    case["steps"] = steps
    return case


def _run_widened(rep, tier, seed, shard, nshards):
    dl4 = Deadline(budget(tier, 6, 70))
    for k in range(budget(tier, 400, 6000)):
        if dl4.expired():
            break
        cs = f"{seed}/C20/api/{shard}/{k}"
        rng = rng_for(cs)
        run_api_case(rep, gen_api_case(rng, cs, tier))
    dl5 = Deadline(budget(tier, 5, 60))
    for k in range(budget(tier, 300, 5000)):
        if dl5.expired():
            break
        cs = f"{seed}/C20/finder2/{shard}/{k}"
        rng = rng_for(cs)
        if k % 2 == 0:
            run_hyper2_case(rep, gen_hyper2_case(rng, cs, tier), follow_up=(k % 4 == 0))
        else:
            run_history_case(rep, gen_history2_case(rng, cs, tier))


def run_shard(rep, tier, seed, shard, nshards):
    _run_main(rep, tier, seed, shard, nshards)
    # histories: their own (small) budget and seed stream, after the main workload
    dl3 = Deadline(budget(tier, 7, 80))
    for k in range(budget(tier, 300, 5000)):
        if dl3.expired():
            break
        cs = f"{seed}/C20/history/{shard}/{k}"
        rng = rng_for(cs)
        run_history_case(rep, gen_history_case(rng, cs, tier))
    # widening: reporting methods / objectives / trackers, hyper + reconf_opts, compressed_reconfigure histories
    _run_widened(rep, tier, seed, shard, nshards)


def _run_main(rep, tier, seed, shard, nshards):
    dl = Deadline(budget(tier, 18, 200))
    for k in range(budget(tier, 700, 12000)):
        if dl.expired():
            break
        cs = f"{seed}/C20/{shard}/{k}"
        rng = rng_for(cs)
        run_stats_case(rep, gen_stats_case(rng, cs, tier))
    dl2 = Deadline(budget(tier, 22, 240))
    for k in range(budget(tier, 260, 5000)):
        if dl2.expired():
            break
        cs = f"{seed}/C20/finder/{shard}/{k}"
        rng = rng_for(cs)
        run_finder_case(rep, gen_finder_case(rng, cs, tier), follow_up=(k % 2 == 0))


# --------------------------------------------------------------------------- #
#                        classification / replay                              #
# --------------------------------------------------------------------------- #


def classify(v):
    w = v.get("witness", {})
    msg = v.get("message", "")
    if v.get("kind") != "finder_raises" or w.get("what") != "finder":
        return None
    net = gen.Net.from_json(w["net"])
    p = w.get("params", {})
    m = w.get("method")
    uses_span = (
        (m == "preset" and p.get("optimize") == "greedy-span")
        or m == "direct-span"
        or (m == "hyper" and any(x.startswith("greedy-span") for x in p.get("methods", [])))
    )
    if uses_span and "not enough values to unpack (expected 2, got 1)" in msg and "get_ssa_path" in msg:
        # mechanism: >= 3 tensors carry output indices; GreedySpan hands just those tensors to the
        # plain greedy optimizer with the global output, so an index leading out of that region
        # looks like a single-tensor sum and the greedy path contains 1-tuples
        region = [t for t in net.inputs if set(t) & set(net.output)]
        cnt = {}
        for t in region:
            for ix in t:
                cnt[ix] = cnt.get(ix, 0) + 1
        leaving = [ix for ix, c in cnt.items() if c == 1 and ix not in net.output]
        if len(region) >= 3 and leaving:
            return "greedy_span_three_output_tensors"
    if (
        m == "windowed"
        and not p.get("order_only")
        and "KeyError" in msg
        and "bit_path_to_ssa_path" in msg
        and "ssa" in p
        and has_outer_step(net, p["ssa"])
    ):
        return "windowed_outer_product_step"
    return None


def replay(rep, v):
    w = v["witness"]
    if w.get("what") == "finder":
        run_finder_case(rep, w, follow_up=False)
        return
    if w.get("what") == "finder2":
        run_hyper2_case(rep, w, follow_up=False)
        return
    if w.get("what") == "api":
        case = {k: w[k] for k in ("net", "ssa", "cls", "order_seed", "tree_objective", "objective_via", "combos",
                                  "objectives", "tracker") if k in w}
        case["source"] = w.get("source", "replay")
        for kind, det, msg in api_case(rep, case, register=False):
            ww = dict(case)
            ww.update(det)
            ww["what"] = "api"
            rep.violation(kind, ww, msg)
        return
    if w.get("what") == "history":
        case = {k: w[k] for k in ("net", "ssa", "cls", "order_seed", "orders", "first_orders", "steps")}
        case["source"] = w.get("source", "replay")
        # the whole history again, from a fresh tree object
        for kind, det, msg in history_case(rep, case, register=False):
            ww = dict(case)
            ww.update(det)
            ww["what"] = "history"
            rep.violation(kind, ww, f"order={det['order']} compress_late={det['compress_late']}: {msg}")
        return
    case = {k: w[k] for k in ("net", "ssa", "cls", "order_seed") if k in w}
    case["source"] = w.get("source", "replay")
    # the whole sweep of the tree, in the original sequence (history matters for aliasing faults)
    res = stats_case(rep, case, register=False)
    for kind, det, msg in res:
        ww = dict(case)
        ww.update(det)
        rep.violation(kind, ww, f"order={det['order']} compress_late={det['compress_late']}: {msg}")
