"""C20 - compressed-contraction estimates equal the exact ones when nothing is truncated;
they never exceed the uncapped ones; compressed pathfinders return complete ordered trees.

What is compared (the reading of "coincide"):

* ``st = tree.compressed_contract_stats(chi, order, compress_late)`` with ``chi`` >= every
  bond that arises (``chi = 10**30`` and ``chi =`` exactly the largest bond):
    st.flops    == sum over the tree's contractions of prod(sizes of all indices involved)
                   (ref.Costs.total_flops() over ref.ssa_to_children - no cotengra; the tree's
                   own ``contract_stats()['flops']`` must agree too).  The tracker adds a QR
                   estimate only for bonds strictly larger than chi (hypergraph.
                   neighborhood_compress_cost: ``if da > chi``), so with chi >= every bond the
                   compression term is identically zero and the plain contraction count is what
                   remains - that is the reading under which the statement is checkable.
    st.max_size == max(size of every input tensor, size of every intermediate)  (the tracker
                   seeds max_size with the inputs: weaker reading)
    st.write    == sum(intermediate sizes) + sum(input sizes)
* a "bond" is a maximal group of non-output indices incident to the same set of current
  tensors (what HyperGraph.compress merges into one edge of size min(product, chi)); also a
  single index is a bond.  The boundary chi is the maximum over (i) every group met by a
  compression event of the simulation, obtained from the harness's own replay of the
  traversal on plain index sets, and (ii) every non-output index size.
* for chi in {1, 2, 4, 16, boundary}: max_size, peak_size, write <= the values of the
  chi = 10**30 run of the same (order, compress_late), and max_size / write <= the exact
  figures above.  (flops is NOT monotone: truncation adds QR work.)
* finders: the returned object describes a complete binary tree over the N inputs
  (ref.check_tree_struct) and ``list(tree.traverse())`` (its default = surface order)
  lists every internal node exactly once, children before parents.
* histories: the estimates are a function of the tree AS IT IS NOW.  The whole sweep above is
  run on a tree object (stage 0, possibly with only some of the orders), then the object is
  changed by 1-3 small ``subtree_reconfigure`` steps (subtree_size 3-6, maxiter 1-2, select
  min / random / max so that deep subtrees are touched and the root node usually survives),
  in place or as a non-inplace copy; after every step the same sweep, with the same settings,
  is run on the modified tree and - after a copy - on the source object again.  The exact
  figures are those of the independent model on the children map the object has at that moment
  (ct.children_of + ref.check_tree_struct + ref.children_to_ssa).  A step counts as "changed"
  only if the set of internal nodes differs (an ssa path can differ by child order alone).
"""

import traceback

from .. import ct, gen, ref
from ..common import Deadline, OpTimeout, budget, rng_for, time_limit

PID = "C20"
LEVEL = "exploration"
RULE = (
    "seeded ordinary networks (gen.ordinary_net 2-14 tensors, 0-2 hyper-edges, 0-3 output indices, sizes "
    "2-4 or 2-6; lattices; chains without size-1 dims) x trees (uniform/caterpillar/balanced random ssa, "
    "random 'connected' ssa, trees returned by the compressed finders) built as ContractionTree or "
    "ContractionTreeCompressed x order in {dfs, surface_order, seeded memoised random callable} x "
    "compress_late in {F,T} x chi in {10^30, 1, 2, 4, 16, boundary}; finder workload: presets "
    "greedy-compressed / greedy-span, GreedyCompressed / GreedySpan with random hyper-parameters, "
    "HyperCompressedOptimizer over greedy-compressed / greedy-span / greedy-span-max / kahypar-agglom, "
    "ContractionTreeCompressed.from_path (ssa, linear, truncated+autocomplete), windowed_reconfigure, "
    "compressed simulated_anneal; histories: sweep, then 1-3 subtree_reconfigure steps (in place / copy, size 3-6, "
    "maxiter 1-2, select min/random/max, search bfs/dfs/random, minimize flops/size/write/combo) on the same "
    "ContractionTree / ContractionTreeCompressed object with the sweep repeated on the modified tree and on the "
    "source of every copy.  distinct = distinct (network, tree, tree class, order, compress_late); "
    "non-trivial = >= 4 tensors and at least one bond made of >= 2 indices arises in that run"
)
ASSUMPTIONS = [
    "pure-python HyperGraph (no rust accelerator is importable in this environment)",
    "exact figures: ref.Costs over ref.ssa_to_children (no cotengra); tree.contract_stats() must agree with it, "
    "a disagreement there is another property's (C03) and is reported as inconclusive here",
    "the traversal handed to the bond model is cotengra's own tree.traverse(order) (checked to be a valid "
    "children-first order of the reference children)",
    "flops at chi >= every bond = contraction ops only (the QR term is charged for bonds > chi only)",
    "presets 'greedy-compressed'/'greedy-span' take no seed: their tie-breaking rng is unseeded (C17's business)",
    "windowed_reconfigure is called with 2 <= window_size <= N (larger windows index outside the path)",
    "'ordinary' is read as: no index repeated inside a tensor AND every index is shared by >= 2 tensors or is an "
    "output index.  An index summed inside a single tensor is pre-processed away by the exact tree (not counted) "
    "but stays on the leaf in the compressed simulation, so flops differ by construction there ('ag,a->' with a=2, g=3: "
    "exact flops 2, compressed 6 at any chi); such networks are not generated",
]
REQUIRED_MONITORS = [
    "uncapped_flops_exact",
    "uncapped_size_exact",
    "uncapped_write_exact",
    "boundary_chi",
    "default_chi",
    "monotone_in_chi",
    "compressed_finder_tree",
    "history_rechecks",
    "history_tree_changed",
]
SHARD_TIMEOUT = {"quick": 400, "thorough": 3600}

HUGE = 10**30
CAPS = (1, 2, 4, 16)
ORDERS = ("dfs", "surface_order", "rand")
OP_LIMIT = 30


def nshards(tier):
    return 16


# --------------------------------------------------------------------------- #
#                     harness-side models (no cotengra)                       #
# --------------------------------------------------------------------------- #


def prod_sizes(sd, ixs):
    p = 1
    for ix in ixs:
        p *= sd[ix]
    return p


def bond_model(net, trav, compress_late):
    """Replay ``trav`` (list of (p, l, r) frozensets) on plain index sets with no cap and
    observe every group of non-output indices that a compression event would merge.

    early (compress_late False): after each contraction, the groups touching the new tensor;
    late: before each contraction, the groups touching either operand.
    -> dict(max_any, max_multi, n_multi)
    """
    out = set(net.output)
    sd = net.size_dict
    cur = {frozenset([i]): set(t) for i, t in enumerate(net.inputs)}
    where = {}
    for node, inds in cur.items():
        for ix in inds:
            where.setdefault(ix, set()).add(node)
    res = {"max_any": 1, "max_multi": 0, "n_multi": 0}

    def observe(nodes):
        g = {}
        for nd in nodes:
            for ix in cur[nd]:
                if ix not in out:
                    g.setdefault(frozenset(where[ix]), set()).add(ix)
        for es in g.values():
            s = prod_sizes(sd, es)
            res["max_any"] = max(res["max_any"], s)
            if len(es) > 1:
                res["n_multi"] += 1
                res["max_multi"] = max(res["max_multi"], s)

    for p, l, r in trav:
        if compress_late:
            observe((l, r))
        il, ir = cur.pop(l), cur.pop(r)
        both = il | ir
        for ix in both:
            where[ix].discard(l)
            where[ix].discard(r)
        ip = {ix for ix in both if where[ix] or ix in out}
        cur[p] = ip
        for ix in ip:
            where[ix].add(p)
        if not compress_late:
            observe((p,))
    return res


def valid_order(n, children, trav):
    """None if trav lists every internal node of ``children`` once, children first."""
    ready = {frozenset([i]) for i in range(n)}
    if len(trav) != len(children):
        return f"{len(trav)} steps for {len(children)} internal nodes"
    for p, l, r in trav:
        if p not in children:
            return f"step yields unknown node {sorted(p)}"
        if {l, r} != set(children[p]):
            return f"step {sorted(p)} lists children that are not the node's children"
        if p in ready:
            return f"node {sorted(p)} visited twice"
        if l not in ready or r not in ready:
            return f"node {sorted(p)} visited before one of its children"
        ready.add(p)
    return None


def has_outer_step(net, ssa):
    """does some contraction of the tree join two tensors that share no index?"""
    ch = ref.ssa_to_children(net.N, [tuple(s) for s in ssa])
    cs = ref.Costs(net.inputs, net.output, net.size_dict, ch)
    for p, (l, r) in ch.items():
        if not set(cs.legs(l)) & set(cs.legs(r)):
            return True
    return False


def lonely_indices(net):
    """indices carried by exactly one tensor and absent from the output (summed inside one tensor)"""
    app = {}
    for t in net.inputs:
        for ix in t:
            app[ix] = app.get(ix, 0) + 1
    return [ix for ix, c in app.items() if c == 1 and ix not in net.output]


def connected_ssa(rng, net):
    """a random ssa path in which every step contracts two tensors sharing an index"""
    ids = {i: set(t) for i, t in enumerate(net.inputs)}
    appear = {}
    for t in net.inputs:
        for ix in t:
            appear[ix] = appear.get(ix, 0) + 1
    nxt = net.N
    path = []
    while len(ids) > 1:
        keys = sorted(ids)
        pairs = [(a, b) for i, a in enumerate(keys) for b in keys[i + 1 :] if ids[a] & ids[b]]
        if not pairs:
            a, b = rng.sample(keys, 2)
        else:
            a, b = rng.choice(pairs)
        path.append((a, b))
        ids[nxt] = ids.pop(a) | ids.pop(b)
        nxt += 1
    return path


# --------------------------------------------------------------------------- #
#                               generators                                    #
# --------------------------------------------------------------------------- #


def gen_net(rng, nmin, nmax):
    r = rng.random()
    if r < 0.62:
        n = rng.randint(nmin, nmax)
        return gen.ordinary_net(rng, n, hyper=rng.randint(0, 2), n_out=rng.randint(0, 3))
    if r < 0.74:
        # larger single indices than the smallest multi-index bond
        n = rng.randint(nmin, nmax)
        return gen.ordinary_net(rng, n, hyper=rng.randint(0, 1), n_out=rng.randint(0, 2), dmin=2, dmax=6)
    if r < 0.87:
        lx = rng.randint(2, 3)
        ly = rng.randint(2, max(2, min(4, nmax // lx)))
        return gen.lattice_net(rng, lx, ly, cap=10**12)
    n = rng.randint(max(nmin, 3), nmax)
    net = gen.chain_net(rng, n, cap=10**12)
    sd = {k: max(2, v) for k, v in net.size_dict.items()}
    # an index carried by one tensor only must be an output index (see ASSUMPTIONS)
    output = list(net.output)
    for ix in lonely_indices(net):
        output.insert(rng.randint(0, len(output)), ix)
    return gen.Net(net.inputs, output, sd, "chain")


def build_tree(net, ssa, cls):
    ssa = [tuple(s) for s in ssa]
    if cls == "compressed":
        from cotengra.core import ContractionTreeCompressed

        return ContractionTreeCompressed.from_path(
            net.inputs, net.output, dict(net.size_dict), ssa_path=ssa
        )
    return ct.make_tree(gen.Net(net.inputs, net.output, dict(net.size_dict)), ssa)


def rand_order(seed):
    import random

    memo = {}

    def order(node):
        k = tuple(sorted(node))
        if k not in memo:
            memo[k] = random.Random(repr((seed, k))).random()
        return memo[k]

    return order


def make_order(kind, seed):
    return rand_order(seed) if kind == "rand" else kind


# --------------------------------------------------------------------------- #
#                          monitors 1-5: the estimates                        #
# --------------------------------------------------------------------------- #

FIELDS = ("flops", "max_size", "write")


def stats_case(rep, case, register=True, tree=None):
    """Run every (order, compress_late, chi) on one (network, tree).  Returns a list of
    (kind, detail dict, message).  ``tree``: a live tree object whose present structure is
    case["ssa"] (histories); built from the case when not given."""
    net = gen.Net.from_json(case["net"])
    pristine = gen.Net.from_json(case["net"])  # never handed to cotengra
    ssa = [tuple(s) for s in case["ssa"]]
    N = net.N
    children = ref.ssa_to_children(N, ssa)
    cs = ref.Costs(pristine.inputs, pristine.output, pristine.size_dict, children)
    insz = [prod_sizes(pristine.size_dict, t) for t in pristine.inputs]  # the raw input tensors
    want = {
        "flops": cs.total_flops(),
        "max_size": max(max(insz), cs.max_size()) if N > 1 else max(insz),
        "write": cs.total_write() + sum(insz),
    }
    nonout = [pristine.size_dict[ix] for t in pristine.inputs for ix in t if ix not in pristine.output]
    max_index = max(nonout) if nonout else 1
    out = []
    if lonely_indices(pristine) or pristine.has_repeat():
        rep.count("skipped", "not ordinary")  # outside the statement (see ASSUMPTIONS)
        return out
    if tree is None:
        try:
            tree = build_tree(net, ssa, case["cls"])
        except Exception as e:
            rep.inconclusive_case(f"could not build the tree: {e!r}")
            return out
    try:
        ex = tree.contract_stats()
        if ex["flops"] != want["flops"] or ex["write"] + sum(insz) != want["write"]:
            rep.inconclusive_case(
                f"tree.contract_stats() {ex} disagrees with the reference cost model "
                f"({want}) on {pristine.eq()} ssa={ssa}: C03's domain"
            )
            return out
        rep.mon("exact_vs_arbiter")
    except Exception as e:
        rep.inconclusive_case(f"contract_stats raised: {e!r}")
        return out

    for okind in case.get("orders", ORDERS):
        oseed = case["order_seed"]
        for cl in case.get("lates", (False, True)):
            order = make_order(okind, oseed)
            try:
                trav = ct.traversal(tree, order)
            except Exception as e:
                rep.inconclusive_case(f"traverse({okind}) raised: {e!r}")
                continue
            msg = valid_order(N, children, trav)
            if msg:
                rep.inconclusive_case(f"traverse({okind}) is not a valid order ({msg}): C07's domain")
                continue
            bm = bond_model(pristine, trav, cl)
            boundary = max(bm["max_any"], max_index)
            if register:
                key = (pristine.key(), tuple(ssa), case["cls"], okind, oseed if okind == "rand" else 0, cl)
                rep.case(
                    key,
                    N >= 4 and bm["n_multi"] > 0,
                    pristine.cls,
                    sample={"eq": pristine.eq(), "sizes": pristine.size_dict, "ssa": ssa, "cls": case["cls"],
                            "order": okind, "compress_late": cl, "boundary": boundary},
                )
                rep.count("tree_source", case.get("source", "?"))
                rep.count("tree_cls", case["cls"])
                rep.count("order", okind)
                rep.count("boundary_is", "multi_bond" if boundary == bm["max_multi"] else "single_index")
                if bm["n_multi"]:
                    rep.count("multi_bond_runs", cl)
            base = None
            for chi in (HUGE, *CAPS, boundary):
                def detail(field, got, wanted, _chi=chi, _ok=okind, _cl=cl):
                    return {"order": {"kind": _ok, "seed": oseed}, "compress_late": _cl, "chi": _chi,
                            "field": field, "got": got, "want": wanted, "boundary": boundary}

                try:
                    st = tree.compressed_contract_stats(chi=chi, order=make_order(okind, oseed), compress_late=cl)
                except Exception as e:
                    out.append(("stats_raises", detail("raises", repr(e), None),
                                f"compressed_contract_stats raised {type(e).__name__}: {e} | {traceback.format_exc()[-500:]}"))
                    continue
                got = {"flops": st.flops, "max_size": st.max_size, "write": st.write, "peak_size": st.peak_size}
                if chi == HUGE:
                    base = got
                if chi >= boundary:
                    which = "uncapped" if chi == HUGE else "boundary"
                    for f, monitor in zip(FIELDS, ("uncapped_flops_exact", "uncapped_size_exact", "uncapped_write_exact")):
                        rep.mon(monitor if which == "uncapped" else "boundary_chi")
                        if got[f] != want[f]:
                            out.append((f"{which}_{f}", detail(f, got[f], want[f]),
                                        f"{f}={got[f]} but the exact figure is {want[f]} (chi={chi}, largest bond {boundary})"))
                if chi != HUGE and base is not None:
                    for f in ("max_size", "peak_size", "write"):
                        rep.mon("monotone_in_chi")
                        if got[f] > base[f]:
                            out.append(("monotone", detail(f, got[f], base[f]),
                                        f"{f}={got[f]} at chi={chi} exceeds the uncapped value {base[f]}"))
                    for f in ("max_size", "write"):
                        rep.mon("monotone_vs_exact")
                        if got[f] > want[f]:
                            out.append(("monotone_exact", detail(f, got[f], want[f]),
                                        f"{f}={got[f]} at chi={chi} exceeds the exact (untruncated) figure {want[f]}"))
            # the DEFAULT cap (chi=None) of a compressed tree is documented as the square of the largest
            # dimension of THIS network; scoring the tree first goes through the default objective, which is
            # a process-wide shared object (get_score_fn is memoised) - what an earlier network did to it
            # must not show in this network's estimates
            if type(tree).__name__ == "ContractionTreeCompressed":
                dflt = max(pristine.size_dict.values()) ** 2
                try:
                    tree.get_score()
                    sd_ = tree.compressed_contract_stats(order=make_order(okind, oseed), compress_late=cl)
                    se_ = tree.compressed_contract_stats(chi=dflt, order=make_order(okind, oseed), compress_late=cl)
                except Exception as e:
                    out.append(("stats_raises", {"order": {"kind": okind, "seed": oseed}, "compress_late": cl, "chi": None, "field": "raises", "got": repr(e), "want": None, "boundary": boundary},
                                f"default-cap compressed_contract_stats raised {type(e).__name__}: {e}"))
                    continue
                rep.mon("default_chi")
                for f in ("flops", "max_size", "write", "peak_size"):
                    g, w_ = getattr(sd_, f), getattr(se_, f)
                    if g != w_:
                        out.append(("default_chi", {"order": {"kind": okind, "seed": oseed}, "compress_late": cl, "chi": None, "field": f, "got": g, "want": w_, "boundary": boundary},
                                    f"{f}={g} with the default cap but {w_} with chi={dflt} = (largest dimension)**2 given explicitly"))
                        break
    return out


def run_stats_case(rep, case):
    res = stats_case(rep, case)
    net = gen.Net.from_json(case["net"])
    seen = set()
    for kind, det, msg in res:
        # one violation per (kind, order, late): the rest of the chi sweep repeats it
        k = (kind, det["order"]["kind"], det["compress_late"])
        if k in seen:
            continue
        seen.add(k)
        w = dict(case)
        w.update(det)
        w["what"] = "stats"
        rep.violation(kind, w, f"{net.eq()} sizes={net.size_dict} ssa={case['ssa']} cls={case['cls']} "
                               f"order={det['order']} compress_late={det['compress_late']}: {msg}")
    return not res


# --------------------------------------------------------------------------- #
#                        monitor 6: the compressed finders                    #
# --------------------------------------------------------------------------- #

GC_SPACE = {
    "coeff_size_compressed": (0.5, 2.0),
    "coeff_size": (0.0, 1.0),
    "coeff_size_inputs": (-1.0, 1.0),
    "coeff_subgraph": (-1.0, 1.0),
    "coeff_centrality": (-10.0, 10.0),
    "temperature": (-0.1, 1.0),
}
MINIMIZE = ("peak-compressed", "size-compressed", "write-compressed", "flops-compressed", "combo-compressed", "max-compressed")
FINDERS = ("preset", "direct-gc", "direct-span", "hyper", "from_path", "windowed", "anneal")


def gen_finder_case(rng, cs, tier):
    net = gen_net(rng, 4, budget(tier, 12, 14))
    kind = rng.choice(FINDERS)
    p = {}
    n = net.N
    if kind == "preset":
        p["optimize"] = rng.choice(["greedy-compressed", "greedy-span"])
    elif kind == "direct-gc":
        p["chi"] = rng.choice([1, 2, 4, 16, 64])
        for k, (lo, hi) in GC_SPACE.items():
            if rng.random() < 0.6:
                p[k] = round(rng.uniform(lo, hi), 3)
        for k, opts in (("score_size_inputs", ["min", "max", "mean", "sum", "diff"]),
                        ("score_subgraph", ["min", "max", "mean", "sum", "diff"]),
                        ("centrality_combine", ["min", "max", "mean"]),
                        ("score_centrality", ["min", "max", "mean", "diff"])):
            if rng.random() < 0.5:
                p[k] = rng.choice(opts)
        p["seed"] = rng.randrange(10**6)
    elif kind == "direct-span":
        p["start"] = rng.choice(["max", "min"])
        p["coeff_connectivity"] = rng.randint(0, 1)
        p["coeff_ndim"] = rng.randint(-1, 1)
        p["coeff_distance"] = rng.randint(-1, 1)
        p["coeff_next_centrality"] = round(rng.uniform(-1, 1), 3)
        p["weight_bonds"] = rng.random() < 0.5
        p["temperature"] = round(rng.uniform(-1, 1), 3)
        p["distance_p"] = round(rng.uniform(-5, 5), 3)
        p["distance_steal"] = rng.choice(["", "abs", "rel"])
        p["score_perm"] = "C" + "".join(rng.sample("NDLI", 4)) + "T"
        p["seed"] = rng.randrange(10**6)
    elif kind == "hyper":
        k = rng.randint(1, 3)
        p["methods"] = sorted(rng.sample(["greedy-compressed", "greedy-span", "greedy-span-max", "kahypar-agglom"], k))
        p["chi"] = rng.choice([None, 2, 4, 16])
        p["minimize"] = rng.choice(MINIMIZE)
        p["seed"] = rng.randrange(10**6)
    elif kind == "from_path":
        p["form"] = rng.choice(["ssa", "linear", "truncated"])
        p["ssa"] = gen.random_ssa(rng, n) if rng.random() < 0.6 else connected_ssa(rng, net)
        if p["form"] == "truncated":
            p["keep"] = rng.randint(0, n - 2)
    else:
        src = rng.choice(["random", "connected", "connected", "greedy-compressed"])
        p["start"] = src
        if src == "random":
            p["ssa"] = gen.random_ssa(rng, n)
        elif src == "connected":
            p["ssa"] = connected_ssa(rng, net)
        p["minimize"] = rng.choice(MINIMIZE) + rng.choice(["", "-2", "-4", "-16"])
        p["compress_late"] = rng.random() < 0.3
        p["seed"] = rng.randrange(10**6)
        if kind == "windowed":
            p["window_size"] = rng.randint(2, n)
            p["max_iterations"] = rng.randint(1, 4)
            p["order_only"] = rng.random() < 0.4
            p["max_window_tries"] = rng.choice([5, 50, 1000])
            p["score_temperature"] = rng.choice([0.0, 0.01, 0.5])
        else:
            p["tsteps"] = rng.randint(1, 3)
            p["numiter"] = rng.randint(1, 3)
            p["select"] = rng.choice(["descend", "ascend", "random", "bounce"])
        p["inplace"] = rng.random() < 0.3
    return {"what": "finder", "net": net.to_json(), "method": kind, "params": p, "case_seed": cs}


def objective_for(p):
    from cotengra.scoring import get_score_fn

    if not p.get("compress_late"):
        return p["minimize"]
    import copy

    obj = copy.copy(get_score_fn(p["minimize"]))
    obj.compress_late = True
    return obj


def run_finder(case):
    """-> tree (whatever the finder returned)"""
    import cotengra as ctg
    from cotengra.core import ContractionTreeCompressed
    from cotengra.pathfinders.path_compressed_greedy import GreedyCompressed, GreedySpan

    net = gen.Net.from_json(case["net"])
    args = (net.inputs, net.output, dict(net.size_dict))
    p = dict(case["params"])
    m = case["method"]
    if m == "preset":
        return ctg.array_contract_tree(*args, optimize=p["optimize"])
    if m == "direct-gc":
        return GreedyCompressed(**p).search(*args)
    if m == "direct-span":
        return GreedySpan(**p).search(*args)
    if m == "hyper":
        opt = ctg.HyperCompressedOptimizer(
            chi=p["chi"], methods=p["methods"], minimize=p["minimize"], max_repeats=4,
            parallel=False, seed=p["seed"], on_trial_error="raise",
        )
        return opt.search(*args)
    if m == "from_path":
        ssa = [tuple(s) for s in p["ssa"]]
        if p["form"] == "ssa":
            return ContractionTreeCompressed.from_path(*args, ssa_path=ssa)
        if p["form"] == "linear":
            return ContractionTreeCompressed.from_path(*args, path=ref.ssa_to_linear_model(ssa, net.N))
        return ContractionTreeCompressed.from_path(*args, ssa_path=ssa[: p["keep"]], autocomplete=True)
    # windowed / anneal start from a tree
    if p["start"] == "greedy-compressed":
        start = ctg.array_contract_tree(*args, optimize="greedy-compressed")
    else:
        start = ContractionTreeCompressed.from_path(*args, ssa_path=[tuple(s) for s in p["ssa"]])
    minimize = objective_for(p)
    if m == "windowed":
        fn = start.windowed_reconfigure_ if p["inplace"] else start.windowed_reconfigure
        return fn(
            minimize=minimize, order_only=p["order_only"], window_size=p["window_size"],
            max_iterations=p["max_iterations"], max_window_tries=p["max_window_tries"],
            score_temperature=p["score_temperature"], seed=p["seed"],
        )
    fn = start.simulated_anneal_ if p["inplace"] else start.simulated_anneal
    return fn(minimize=minimize, tsteps=p["tsteps"], numiter=p["numiter"], select=p["select"], seed=p["seed"])


def check_finder_tree(net, tree):
    """None or (kind, message)"""
    N = net.N
    try:
        children = ct.children_of(tree)
    except Exception as e:
        return ("finder_not_a_tree", f"result {type(tree).__name__} has no usable children map: {e!r}")
    if getattr(tree, "N", None) != N:
        return ("finder_incomplete", f"tree.N={getattr(tree, 'N', None)} for {N} inputs")
    msg = ref.check_tree_struct(N, children)
    if msg:
        return ("finder_incomplete", msg)
    try:
        trav = [(frozenset(p), frozenset(l), frozenset(r)) for p, l, r in tree.traverse()]
    except Exception as e:
        return ("finder_order", f"default traversal raised {type(e).__name__}: {e}")
    msg = valid_order(N, children, trav)
    if msg:
        return ("finder_order", f"default traversal (order={tree.get_default_order()!r}): {msg}")
    return None


_MECH = {}


def run_finder_case(rep, case, follow_up=True):
    net = gen.Net.from_json(case["net"])
    rep.count("finder", case["method"])
    label = f"{net.eq()} sizes={net.size_dict} {case['method']} {case['params']}"
    try:
        with time_limit(OP_LIMIT):
            tree = run_finder(case)
    except OpTimeout as e:
        rep.inconclusive_case(f"{label}: {e}")
        return
    except Exception as e:
        rep.mon("compressed_finder_tree")
        msg = f"{label}: {type(e).__name__}: {e} | {traceback.format_exc()[-700:]}"
        # the report keeps 40 violations per shard: after 3 witnesses of one classified mechanism
        # the repeats are tallied instead, so that they cannot crowd out anything new
        key = classify({"kind": "finder_raises", "witness": case, "message": msg})
        if key is not None:
            _MECH[key] = _MECH.get(key, 0) + 1
            rep.count("mechanism_occurrences", key)
            if _MECH[key] > 3:
                return
        rep.violation("finder_raises", case, msg)
        return
    rep.mon("compressed_finder_tree")
    res = check_finder_tree(net, tree)
    if res:
        rep.violation(res[0], case, f"{label}: {res[1]}")
        return
    rep.count("finder_ok", case["method"] + ":" + type(tree).__name__)
    if follow_up:
        # the estimates on the finder's own tree
        ssa = [tuple(s) for s in tree.get_ssa_path()]
        run_stats_case(rep, {
            "net": case["net"], "ssa": ssa, "cls": "compressed", "order_seed": 7,
            "source": "finder:" + case["method"], "orders": ("surface_order", "rand"),
        })


# --------------------------------------------------------------------------- #
#                                 driver                                      #
# --------------------------------------------------------------------------- #


def gen_stats_case(rng, cs, tier, small=True):
    r = rng.random()
    if small and r < 0.08:
        net = gen_net(rng, 2, 3)
    else:
        net = gen_net(rng, 4, budget(tier, 12, 14))
    n = net.N
    src = rng.choice(["random", "random", "connected", "greedy-compressed"])
    if src == "random":
        ssa = gen.random_ssa(rng, n)
    elif src == "connected":
        ssa = connected_ssa(rng, net)
    else:
        from cotengra.pathfinders.path_compressed_greedy import GreedyCompressed

        try:
            ssa = GreedyCompressed(chi=rng.choice([2, 4, 16]), seed=rng.randrange(10**6),
                                   temperature=rng.choice([0.0, 0.5])).get_ssa_path(
                net.inputs, net.output, dict(net.size_dict))
            ssa = [tuple(s) for s in ssa]
            if ref.check_ssa_path(n, ssa) or any(len(s) != 2 for s in ssa):
                raise ValueError("unusable path")
        except Exception:
            src = "connected"
            ssa = connected_ssa(rng, net)
    return {
        "what": "stats", "net": net.to_json(), "ssa": ssa, "cls": rng.choice(["plain", "compressed"]),
        "order_seed": rng.randrange(10**6), "source": src, "case_seed": cs,
    }


# --------------------------------------------------------------------------- #
#              histories: the estimates after the tree has changed             #
# --------------------------------------------------------------------------- #

HIST_MINIMIZE = ("flops", "size", "write", "combo")  # objectives subtree_reconfigure can optimise for


def gen_history_case(rng, cs, tier):
    case = gen_stats_case(rng, cs, tier, small=False)
    case["what"] = "history"
    case["source"] = "history:" + case["source"]
    orders = list(ORDERS) if rng.random() < 0.35 else ["dfs", "surface_order"]
    case["orders"] = orders
    # stage 0 may ask for some of the orders only: what a copy computes first is then new to its source
    case["first_orders"] = list(orders) if rng.random() < 0.6 else sorted(rng.sample(orders, rng.randint(1, len(orders) - 1)))
    steps = []
    for _ in range(rng.randint(1, 3)):
        steps.append({
            "inplace": rng.random() < 0.65,
            "subtree_size": rng.choice([3, 3, 4, 4, 5, 6]),
            "maxiter": rng.choice([1, 1, 1, 2]),
            "select": rng.choice(["min", "random", "random", "max"]),
            "subtree_search": rng.choice(["bfs", "dfs", "random"]),
            "minimize": rng.choice(HIST_MINIMIZE),
            "seed": rng.randrange(10**6),
        })
    case["steps"] = steps
    return case


def present_ssa(tree, N):
    """-> (ssa path of the structure the object has now, {node: {left, right}}) or (None, message)"""
    children = ct.children_of(tree)
    msg = ref.check_tree_struct(N, children)
    if msg:
        return None, msg
    return [tuple(p) for p in ref.children_to_ssa(N, children)], {p: frozenset(lr) for p, lr in children.items()}


def history_case(rep, case, register=True):
    """-> list of (kind, detail, message); detail carries "stage" (0 = before any change) and "on"."""
    net = gen.Net.from_json(case["net"])
    pristine = gen.Net.from_json(case["net"])
    N = pristine.N
    out = []
    if lonely_indices(pristine) or pristine.has_repeat():
        rep.count("skipped", "not ordinary")
        return out
    try:
        tree = build_tree(net, [tuple(s) for s in case["ssa"]], case["cls"])
    except Exception as e:
        rep.inconclusive_case(f"could not build the tree: {e!r}")
        return out

    def sweep(t, ssa_now, orders, stage, on, reg):
        sub = {k: case[k] for k in ("net", "cls", "order_seed", "source")}
        sub["ssa"] = ssa_now
        sub["orders"] = tuple(orders)
        n0 = rep.monitors["uncapped_flops_exact"]
        for kind, det, msg in stats_case(rep, sub, register=reg, tree=t):
            det = dict(det, stage=stage, on=on, ssa_at_stage=[list(p) for p in ssa_now])
            out.append((kind, det, f"[history: stage {stage}, {on}] {msg}"))
        return rep.monitors["uncapped_flops_exact"] > n0  # did the oracle really look at this tree?

    ssa0, nodes0 = present_ssa(tree, N)
    if ssa0 is None:
        rep.inconclusive_case(f"freshly built tree is not a complete tree: {nodes0}")
        return out
    if not sweep(tree, ssa0, case["first_orders"], 0, "fresh", register):
        return out
    cur, cur_ssa, cur_nodes = tree, ssa0, nodes0
    for j, st in enumerate(case["steps"], 1):
        try:
            with time_limit(OP_LIMIT):
                new = cur.subtree_reconfigure(
                    subtree_size=st["subtree_size"], subtree_search=st["subtree_search"], select=st["select"],
                    maxiter=st["maxiter"], seed=st["seed"], minimize=st["minimize"], inplace=st["inplace"],
                )
        except OpTimeout as e:
            rep.inconclusive_case(f"history step {j}: {e}")
            break
        except Exception as e:
            rep.count("excluded", f"history: subtree_reconfigure raised {type(e).__name__}")
            break
        if st["inplace"] and new is not cur:
            rep.inconclusive_case("subtree_reconfigure_(inplace) returned another object: C04's domain")
            break
        new_ssa, new_nodes = present_ssa(new, N)
        if new_ssa is None:
            rep.inconclusive_case(f"tree after subtree_reconfigure is not a complete tree ({new_nodes}): C04's domain")
            break
        changed = set(new_nodes) != set(cur_nodes)
        rep.count("history_steps", f"{'inplace' if st['inplace'] else 'copy'}:{'changed' if changed else 'same'}")
        if not sweep(new, new_ssa, case["orders"], j, "modified in place" if st["inplace"] else "modified copy", register):
            break
        rep.mon("history_rechecks")
        if changed:
            rep.mon("history_tree_changed")
            if new_nodes[frozenset(range(N))] == cur_nodes[frozenset(range(N))]:
                rep.mon("history_tree_changed_below_root")  # the change is inside a child of the root
        if not st["inplace"]:
            # the source object must still be described by ITS structure
            src_ssa, src_nodes = present_ssa(cur, N)
            if src_ssa is None or src_nodes != cur_nodes:
                rep.inconclusive_case("non-inplace subtree_reconfigure changed its source: C04's domain")
                break
            if sweep(cur, cur_ssa, case["orders"], j, "source of the copy", False):
                rep.mon("history_rechecks")
                rep.mon("history_rechecks_of_copy_source")
        cur, cur_ssa, cur_nodes = new, new_ssa, new_nodes
    return out


def run_history_case(rep, case):
    res = history_case(rep, case)
    net = gen.Net.from_json(case["net"])
    rep.count("history_cls", case["cls"])
    seen = set()
    for kind, det, msg in res:
        # the first witness of each kind: the stages / settings that follow repeat it (replay reruns them all)
        if kind in seen:
            continue
        seen.add(kind)
        w = dict(case)
        w.update(det)
        w["what"] = "history"
        rep.violation(kind, w, f"{net.eq()} sizes={net.size_dict} ssa={case['ssa']} cls={case['cls']} steps={case['steps']} "
                               f"first_orders={case['first_orders']} order={det['order']} compress_late={det['compress_late']}: {msg}")
    return not res


def run_shard(rep, tier, seed, shard, nshards):
    _run_main(rep, tier, seed, shard, nshards)
    # histories: their own (small) budget and seed stream, after the main workload
    dl3 = Deadline(budget(tier, 7, 80))
    for k in range(budget(tier, 300, 5000)):
        if dl3.expired():
            break
        cs = f"{seed}/C20/history/{shard}/{k}"
        rng = rng_for(cs)
        run_history_case(rep, gen_history_case(rng, cs, tier))


def _run_main(rep, tier, seed, shard, nshards):
    dl = Deadline(budget(tier, 18, 200))
    for k in range(budget(tier, 700, 12000)):
        if dl.expired():
            break
        cs = f"{seed}/C20/{shard}/{k}"
        rng = rng_for(cs)
        run_stats_case(rep, gen_stats_case(rng, cs, tier))
    dl2 = Deadline(budget(tier, 22, 240))
    for k in range(budget(tier, 260, 5000)):
        if dl2.expired():
            break
        cs = f"{seed}/C20/finder/{shard}/{k}"
        rng = rng_for(cs)
        run_finder_case(rep, gen_finder_case(rng, cs, tier), follow_up=(k % 2 == 0))


# --------------------------------------------------------------------------- #
#                        classification / replay                              #
# --------------------------------------------------------------------------- #


def classify(v):
    w = v.get("witness", {})
    msg = v.get("message", "")
    if v.get("kind") != "finder_raises" or w.get("what") != "finder":
        return None
    net = gen.Net.from_json(w["net"])
    p = w.get("params", {})
    m = w.get("method")
    uses_span = (
        (m == "preset" and p.get("optimize") == "greedy-span")
        or m == "direct-span"
        or (m == "hyper" and any(x.startswith("greedy-span") for x in p.get("methods", [])))
    )
    if uses_span and "not enough values to unpack (expected 2, got 1)" in msg and "get_ssa_path" in msg:
        # mechanism: >= 3 tensors carry output indices; GreedySpan hands just those tensors to the
        # plain greedy optimizer with the global output, so an index leading out of that region
        # looks like a single-tensor sum and the greedy path contains 1-tuples
        region = [t for t in net.inputs if set(t) & set(net.output)]
        cnt = {}
        for t in region:
            for ix in t:
                cnt[ix] = cnt.get(ix, 0) + 1
        leaving = [ix for ix, c in cnt.items() if c == 1 and ix not in net.output]
        if len(region) >= 3 and leaving:
            return "greedy_span_three_output_tensors"
    if (
        m == "windowed"
        and not p.get("order_only")
        and "KeyError" in msg
        and "bit_path_to_ssa_path" in msg
        and "ssa" in p
        and has_outer_step(net, p["ssa"])
    ):
        return "windowed_outer_product_step"
    return None


def replay(rep, v):
    w = v["witness"]
    if w.get("what") == "finder":
        run_finder_case(rep, w, follow_up=False)
        return
    if w.get("what") == "history":
        case = {k: w[k] for k in ("net", "ssa", "cls", "order_seed", "orders", "first_orders", "steps")}
        case["source"] = w.get("source", "replay")
        # the whole history again, from a fresh tree object
        for kind, det, msg in history_case(rep, case, register=False):
            ww = dict(case)
            ww.update(det)
            ww["what"] = "history"
            rep.violation(kind, ww, f"order={det['order']} compress_late={det['compress_late']}: {msg}")
        return
    case = {k: w[k] for k in ("net", "ssa", "cls", "order_seed") if k in w}
    case["source"] = w.get("source", "replay")
    # the whole sweep of the tree, in the original sequence (history matters for aliasing faults)
    res = stats_case(rep, case, register=False)
    for kind, det, msg in res:
        ww = dict(case)
        ww.update(det)
        rep.violation(kind, ww, f"order={det['order']} compress_late={det['compress_late']}: {msg}")
