"""C03 - reported flops / write / max size / peak match the definitions and the real arrays.

Static cases (network, tree, removed set, traversal order).  Oracles:
  model     every reported figure vs the independent cost model (ref.Costs, definitions only)
  observed  a recording (einsum, tensordot) implementation is passed to contract_slice; the
            element count of every array actually produced must equal tree.get_size(node), the
            product of the dimensions actually multiplied must equal tree.get_flops(node), and
            the peak of concurrently alive arrays must equal tree.peak_size(order)
"""

import math
import traceback

import numpy as np
from cotengra.contract import extract_contractions

from .. import ct, gen, ref
from ..common import Deadline, budget, rng_for

PID = "C03"
LEVEL = "exploration"
RULE = (
    "seeded generator: 9 network classes (2-10 tensors) x random/caterpillar/balanced trees x random "
    "ordered removed sets (inner/output/hyper/single-tensor indices, slice or project, 0-4 indices) x "
    "traversal orders x size type (python ints; 15%: numpy int64/int32/uint8/intp or mixed python/numpy sizes, "
    "optionally scaled so that costs exceed 2**63); distinct = distinct (network, tree, removed set, order); non-trivial = a hyper "
    "index is present or >=1 index removed"
)
ASSUMPTIONS = [
    "the independent cost model is the definition (validated against the unchanged tree)",
    "extract_contractions gives the node each recorded call belongs to (it is the programme that is executed)",
]
REQUIRED_MONITORS = ["derived_figures", "numpy_integer_sizes", "costs_beyond_int64", "annealed_trees", "copychain_trees", "totals_vs_model", "nodes_vs_model", "peak_vs_model", "array_size_observed", "flops_observed", "peak_observed"]
SHARD_TIMEOUT = {"quick": 400, "thorough": 3600}


def nshards(tier):
    return 16


def classify(v):
    return None


def prod(xs):
    p = 1
    for x in xs:
        p *= int(x)
    return p


SIZE_TYPES = ("int64", "int32", "uint8", "intp", "mixed", "mixed_first_python")


def typed_net(net, case):
    """The same network with its sizes (optionally scaled up so that costs pass 2**63, no arrays
    are contracted then) handed over as numpy integers - what np.random.randint, array.shape
    arithmetic or dict(zip(inds, np.array(shape))) give a caller.  The cost model always works on
    exact python integers."""
    st = case.get("size_type")
    if not st:
        return net
    rng = rng_for(case["case_seed"], "size_type")
    scale = case.get("size_scale", 1)
    sd = {}
    for k, (ix, d) in enumerate(net.size_dict.items()):
        d = int(d) * scale if d > 1 else int(d)
        if st == "uint8":
            d = min(d, 255)
        if st == "mixed":
            sd[ix] = d if rng.random() < 0.5 else np.int64(d)
        elif st == "mixed_first_python":
            sd[ix] = d if k == 0 else np.int64(d)
        else:
            sd[ix] = getattr(np, st)(d)
    return gen.Net(net.inputs, net.output, sd, net.cls + "+np_sizes")


def build(case):
    net = typed_net(gen.Net.from_json(case["net"]), case)
    tree = ct.make_tree(net, case["ssa"])
    if case.get("anneal"):
        # "every tree" includes trees produced by annealing (nodes installed with pre-computed
        # legs / cost / size); nothing is queried between the anneal and the removals
        import random

        random.seed(case["case_seed"])
        tree.simulated_anneal_(tsteps=2, numiter=3, tstart=10.0, seed=case["anneal"])
    for ix, proj in case["removed"]:
        tree.remove_ind_(ix, project=proj)
    return net, tree


def execute(rep, case):
    """In 'copychain' mode the removed indices are applied with the NON-inplace variants, and every
    tree of the chain (each is 'a tree, sliced or not') is checked after the whole chain exists -
    figures of an older tree must not depend on what was done to trees derived from it."""
    if case.get("size_type"):
        rep.mon("numpy_integer_sizes")
        if case.get("size_scale", 1) > 1:
            rep.mon("costs_beyond_int64")
    if case.get("mode") == "copychain":
        net = typed_net(gen.Net.from_json(case["net"]), case)
        base = ct.make_tree(net, case["ssa"])
        base.contract_stats()
        chain = [base]
        for ix, proj in case["removed"]:
            chain.append(chain[-1].remove_ind(ix, project=proj))
        if case["removed"]:
            chain.append(chain[-1].restore_ind(case["removed"][0][0]))
            chain.append(chain[1].copy())
            chain[-1].restore_ind_(case["removed"][0][0])
        rep.mon("copychain_trees", len(chain))
        for k, t in enumerate(chain):
            res = execute_tree(rep, case, net, t)
            if res:
                return (res[0], f"tree #{k} of a non-inplace chain (sliced {list(t.sliced_inds)}): {res[1]}")
        return None
    net, tree = build(case)
    if case.get("anneal"):
        rep.mon("annealed_trees")
    return execute_tree(rep, case, net, tree)


def execute_tree(rep, case, net, tree):
    cs = case["case_seed"]
    model = ct.costs_of(tree)
    order = ct.make_order(case["order"], tree, rng_for(cs, "order"))
    # ---- totals -----------------------------------------------------------
    stats = tree.contract_stats()
    want = {"flops": model.total_flops(), "write": model.total_write(), "size": model.max_size()}
    rep.mon("totals_vs_model")
    if dict(stats) != want:
        return ("totals", f"contract_stats {dict(stats)} != model {want}")
    for name, got, w in (
        ("total_flops", tree.total_flops(), want["flops"]),
        ("total_write", tree.total_write(), want["write"]),
        ("max_size", tree.max_size(), want["size"]),
        ("combo_cost", tree.combo_cost(), model.combo(64)),
        ("combo_cost(factor=3)", tree.combo_cost(factor=3), model.combo(3)),
        ("combo_cost(combine=max)", tree.combo_cost(factor=2, combine=max), model.limit(2)),
        ("multiplicity", tree.multiplicity, model.mult),
        ("nslices", tree.nslices, model.mult),
    ):
        if got != w:
            return ("totals", f"{name} {got} != model {w}")
    if tree.total_flops(log=10) != math.log(want["flops"], 10) or tree.max_size(log=2) != math.log(want["size"], 2):
        return ("totals", "log variants disagree with the model")
    # derived figures a user reads instead of the three totals
    rep.mon("derived_figures")
    inv_max = max([len(model.involved(frozenset(n))) for n in tree.info if len(n) > 1] + [0])
    for name, got, w in (
        ("total_flops(dtype='float')", tree.total_flops(dtype="float"), 2 * want["flops"]),
        ("total_flops(dtype='complex64')", tree.total_flops(dtype="complex64"), 4 * want["flops"]),
        ("contraction_cost()", tree.contraction_cost(), want["flops"]),
        ("contraction_cost(log=2)", tree.contraction_cost(log=2), math.log(want["flops"], 2)),
        ("contraction_width()", tree.contraction_width(), math.log(want["size"], 2)),
        ("contraction_width(log=10)", tree.contraction_width(log=10), math.log(want["size"], 10)),
        ("arithmetic_intensity()", tree.arithmetic_intensity(), want["flops"] / want["write"]),
        ("contraction_scaling()", tree.contraction_scaling(), inv_max),
        ("combo_cost(log=10)", tree.combo_cost(log=10), math.log(model.combo(64), 10)),
        ("total_cost(factor=5)", tree.total_cost(factor=5), model.combo(5)),
        ("peak_size(log=2)", tree.peak_size(order, log=2), None),
    ):
        if w is None:
            continue
        if got != w:
            return ("totals", f"{name} {got} != model {w}")
    # ---- per node ----------------------------------------------------------
    for node in tree.info:
        fn = frozenset(node)
        rep.mon("nodes_vs_model")
        if set(tree.get_legs(node)) != set(model.legs(fn)):
            return ("node", f"node {sorted(fn)}: legs {sorted(tree.get_legs(node))} != model {sorted(model.legs(fn))}")
        if tree.get_size(node) != model.node_size(fn):
            return ("node", f"node {sorted(fn)}: size {tree.get_size(node)} != model {model.node_size(fn)}")
        if len(fn) > 1:
            if set(tree.get_involved(node)) != set(model.involved(fn)):
                return ("node", f"node {sorted(fn)}: involved {sorted(tree.get_involved(node))} != model {sorted(model.involved(fn))}")
            if tree.get_flops(node) != model.node_flops(fn):
                return ("node", f"node {sorted(fn)}: flops {tree.get_flops(node)} != model {model.node_flops(fn)}")
    # ---- peak ---------------------------------------------------------------
    trav = ct.traversal(tree, order)
    seen = set(frozenset([i]) for i in range(tree.N))
    for p, l, r in trav:
        if l not in seen or r not in seen:
            return ("order", f"traversal yields {sorted(p)} before its children")
        seen.add(p)
    rep.mon("peak_vs_model")
    pk = tree.peak_size(order)
    if pk != model.peak(trav):
        return ("peak", f"peak_size({case['order']}) {pk} != model {model.peak(trav)}")
    # ---- observed arrays ------------------------------------------------------
    if net.space() <= case.get("cap", 50000) and sum(prod(shp) for shp in net.shapes()) <= 40 * case.get("cap", 50000):
        arrays = net.arrays(rng_for(cs, "arrays"), "float")
        slices = sorted({0, rng_for(cs, "slice").randrange(tree.nslices)})
        for i in slices:
            rec = ct.Recorder(keep_arrays=False)
            try:
                tree.contract_slice(arrays, i, order=order, prefer_einsum=case["prefer_einsum"], implementation=rec.pair())
            except Exception as e:
                return ("raises", f"contract_slice({i}) raised {type(e).__name__}: {e} | {traceback.format_exc()[-400:]}")
            cons = extract_contractions(tree, order, case["prefer_einsum"])
            if len(cons) != len(rec.calls):
                return ("observed", f"{len(rec.calls)} calls recorded for {len(cons)} programme steps")
            sliced_shapes = tree.get_shapes_sliced()
            alive = {frozenset([k]): prod(s) for k, s in enumerate(sliced_shapes)}
            started = False
            peak = None
            for (p, l, r, tdot, arg, perm), call in zip(cons, rec.calls):
                fn = frozenset(p)
                kind, arg2, in_shapes, out_shape, _ = call
                nel = prod(out_shape)
                rep.mon("array_size_observed")
                if nel != tree.get_size(p):
                    return ("observed", f"slice {i}: array produced for node {sorted(fn)} has {nel} elements, tree reports size {tree.get_size(p)}")
                if l is None:
                    alive[fn] = nel  # preprocessing replaces the input
                    continue
                if not started:
                    started = True
                    peak = sum(alive.values())
                if kind == "tensordot":
                    ax = arg2
                    if isinstance(ax, int):
                        con = prod(in_shapes[0][len(in_shapes[0]) - ax :]) if ax else 1
                    else:
                        con = prod(in_shapes[0][a] for a in ax[0])
                    mult = prod(in_shapes[0]) * prod(in_shapes[1]) // con
                else:
                    lhs = arg2.split("->")[0].split(",")
                    dims = {}
                    for term, shp in zip(lhs, in_shapes):
                        for c, d in zip(term, shp):
                            dims[c] = d
                    mult = prod(dims.values())
                rep.mon("flops_observed")
                if mult != tree.get_flops(p):
                    return ("observed", f"slice {i}: step for node {sorted(fn)} multiplies {mult} index combinations, tree reports flops {tree.get_flops(p)}")
                alive[fn] = nel
                peak = max(peak, sum(alive.values()))
                del alive[frozenset(l)], alive[frozenset(r)]
            if peak is not None:
                rep.mon("peak_observed")
                if peak != pk:
                    return ("observed", f"slice {i}: observed peak of alive arrays {peak} != peak_size {pk}")
    return None


def gen_case(rng, cs, tier):
    net = gen.network(rng, 2, budget(tier, 9, 12), cap=10**7)
    ssa = gen.random_ssa(rng, net.N)
    inds = [ix for ix in net.size_dict if any(ix in t for t in net.inputs)]
    k = rng.choice([0, 0, 1, 1, 2, 3, 4])
    chosen = rng.sample(inds, min(k, len(inds)))
    removed = [(ix, rng.randrange(net.size_dict[ix]) if rng.random() < 0.25 else None) for ix in chosen]
    return {
        "net": net.to_json(), "ssa": ssa, "removed": removed, "order": rng.choice(ct.ORDERS),
        "prefer_einsum": rng.random() < 0.3, "case_seed": cs, "cap": budget(tier, 30000, 200000),
        "mode": "copychain" if rng.random() < 0.25 else "inplace",
        "anneal": rng.randrange(1, 10**6) if rng.random() < 0.2 else 0,
        **({"size_type": rng.choice(SIZE_TYPES), "size_scale": rng.choice([1, 1, 1000, 40000, 3000000])} if rng.random() < 0.15 else {}),
    }


def run_shard(rep, tier, seed, shard, nshards):
    dl = Deadline(budget(tier, 40, 500))
    for k in range(budget(tier, 8000, 100000)):
        if dl.expired():
            break
        cs = f"{seed}/C03/{shard}/{k}"
        case = gen_case(rng_for(cs), cs, tier)
        net = gen.Net.from_json(case["net"])
        key = (net.key(), tuple(map(tuple, case["ssa"])), tuple(map(tuple, case["removed"])), case["order"], case["prefer_einsum"])
        rep.case(key, net.has_hyper() or bool(case["removed"]), net.cls,
                 sample={"eq": net.eq(), "sizes": net.size_dict, "ssa": case["ssa"], "removed": case["removed"], "order": case["order"]})
        rep.count("removed_count", len(case["removed"]))
        try:
            res = execute(rep, case)
        except Exception as e:
            res = ("raises", f"{type(e).__name__}: {e} | {traceback.format_exc()[-500:]}")
        if res:
            rep.violation(res[0], case, f"{net.eq()} ssa={case['ssa']} removed={case['removed']} order={case['order']}: {res[1]}")


def replay(rep, v):
    try:
        res = execute(rep, v["witness"])
    except Exception as e:
        res = ("raises", f"{type(e).__name__}: {e}")
    if res:
        rep.violation(res[0], v["witness"], res[1])
