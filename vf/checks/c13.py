"""C13 - in-memory caching is invisible: cached and uncached calls give the same answers.

Histories of high-level calls drawn from a pool of contractions that differ in exactly one
component of the cache key.  Every call is issued twice in the same long-lived process - with
caching on and with the public cache=False / cache_expression=False switch - and the two
outcomes are compared (returns-vs-raises, path equality for deterministic optimizers, value
equality); every value is also compared with the dense reference.  Cached expressions are
re-applied to NEW arrays of the same shapes.

Expressions with constants (pool members tagged const:*): members that differ ONLY in which operands are
constant (one, another one, two, ALL - the expression is then called without arguments -, or the empty set), or
only in the VALUES of the constant arrays in the same positions (the arrays are re-created for every
call: equal values never mean the same object, and a new object may well reuse the address of a freed one), next
to the constant-free base and optionally under one shared option (via / prefer_einsum / implementation).  They are
issued through array_contract_expression(constants={position: array}) and einsum_expression(constants=[...]) with
caching on and off; both values are compared with each other and with the dense reference over the FULL operand
list (constants in their positions), and the expression obtained again with caching on is applied to NEW variable
arrays (monitors constants_cached_vs_uncached, constants_value_vs_E1, constants_reused_new_arrays).

User-registered presets (members preset:left / preset:right): two presets registered once per process with
register_preset, each naming a deterministic path function of the number of operands; the members differ only in
the optimize string.  Besides the comparisons above, a path obtained under a preset name - cached or not - must
have the intermediates of the path its function returns (monitor preset_path_model).
"""

import traceback
import warnings

import numpy as np

import cotengra as ctg
from cotengra import interface as _iface

from .. import gen, ref
from ..common import Deadline, budget, rng_for

PID = "C13"
LEVEL = "exploration"
RULE = (
    "per case a pool of 3-12 contractions derived from one base network (3-6 tensors) by changing ONE cache-key "
    "component (output order, one size, optimize value incl. explicit path as tuple/list/list-of-lists/edge path, "
    "strip_exponent, implementation, prefer_einsum, sort_contraction_indices, relabelling, canonicalize=False with "
    "hash-colliding labels, sizes d vs d+2**61-1, WHICH operands are constant (one, another one, two, ALL, none [empty set]) "
    "and the VALUES of the constant arrays in the same positions, the NAME of a user-registered preset); a history of 10-40 calls over array_contract_path / "
    "array_contract_expression / einsum_expression / array_contract / einsum in random order, each call made "
    "cached and uncached; distinct = distinct (pool, call sequence); non-trivial = some ordered pair (A then B) of "
    "different pool members hit the same API"
)
ASSUMPTIONS = [
    "deterministic optimizers only (greedy, optimal, explicit paths) so that path equality is meaningful",
    "module-level lru caches stay warm in both modes (they are part of what is observed; the value oracle covers them)",
    "constants: one, two or ALL of the 3-6 operands are constant (all: the expression takes no arguments, so 'new arrays' "
    "means the same constants as new objects); strip_exponent and user supplied implementations are not combined with "
    "constants (not part of / not usable with that signature)",
    "the two preset functions are the harness's own (fixed path families depending on the number of operands only), "
    "registered once per process and never re-registered",
]
REQUIRED_MONITORS = ["tree_objects_as_optimize", 
    "custom_impl_observed", "cached_vs_uncached", "value_vs_E1", "path_equal", "expr_reused_new_arrays", "collision_pool", "near_pairs",
    "constants_cached_vs_uncached", "constants_value_vs_E1", "constants_reused_new_arrays", "constants_near_pairs", "preset_path_model", "constants_all_operands",
]
SHARD_TIMEOUT = {"quick": 400, "thorough": 3600}


def nshards(tier):
    return 16


# options whose effect is observable: a conversion pair and a user supplied implementation
def VIA_IN(x):
    return x * 2.0


def VIA_OUT(y):
    return y * 3.0


CUSTOM_CALLS = {"n": 0}


def custom_einsum(eq, *arrays):
    CUSTOM_CALLS["n"] += 1
    return np.einsum(eq, *arrays)


def custom_tensordot(a, b, axes=2):
    CUSTOM_CALLS["n"] += 1
    return np.tensordot(a, b, axes)


def resolve_kwargs(kw):
    kw = dict(kw)
    if kw.get("via") == "VIA":
        kw["via"] = (VIA_IN, VIA_OUT)
    if kw.get("implementation") == "CUSTOM":
        kw["implementation"] = (custom_einsum, custom_tensordot)
    return kw


def classify(v):
    return None


# two user-registered presets: name -> the family of linear paths its function always returns
PRESETS = {"vf13-left": "left", "vf13-right": "right"}
PRESET_CALLS = {}
_PRESETS_DONE = []


def model_path(shape, n):
    if shape == "left":  # always the two oldest tensors
        return tuple((0, 1) for _ in range(n - 1))
    return tuple((n - 2 - k, n - 1 - k) for k in range(n - 1))  # right: always the two newest


def ensure_presets():
    if _PRESETS_DONE:
        return

    def path_fn(shape, name):
        def fn(inputs, output, size_dict, memory_limit=None, **kw):
            PRESET_CALLS[name] = PRESET_CALLS.get(name, 0) + 1
            return model_path(shape, len(inputs))

        return fn

    def tree_fn(shape, name):
        def fn(inputs, output, size_dict, **kw):
            PRESET_CALLS[name] = PRESET_CALLS.get(name, 0) + 1
            return ctg.ContractionTree.from_path(inputs, output, size_dict, path=model_path(shape, len(inputs)))

        return fn

    ctg.register_preset("vf13-left", path_fn("left", "vf13-left"))
    ctg.register_preset("vf13-right", path_fn("right", "vf13-right"), optimizer_tree=tree_fn("right", "vf13-right"))
    _PRESETS_DONE.append(True)


def clear_caches():
    _iface._PATH_CACHE.clear()
    _iface._CONTRACT_EXPR_CACHE.clear()
    TREE_FAMILY.clear()


# ------------------------------ pool construction -------------------------- #


def make_pool(rng, tier):
    while True:
        base = gen.network(rng, 3, 6, cap=4000, classes=("graph", "graph", "hyper", "chain", "batch", "perverse", "hadamard"))
        if base.N >= 3 and len(base.output) >= 1:
            break
    n = base.N
    members = []

    def member(net, **kw):
        m = {"net": net.to_json(), "optimize": "greedy", "kwargs": {}, "canonicalize": True, "tag": "base"}
        m.update(kw)
        return m

    members.append(member(base))
    inds = [ix for ix in base.size_dict if any(ix in t for t in base.inputs)]
    choices = ["output_order", "size", "optimize", "strip", "impl", "prefer_einsum", "sort", "relabel", "explicit", "via", "impl_custom", "via", "impl_custom",
               "constants", "constants", "preset", "preset", "trees", "trees"]
    rng.shuffle(choices)
    for what in choices[: rng.randint(3, 7)]:
        if what == "output_order" and len(base.output) >= 2:
            out = list(base.output)
            while tuple(out) == base.output:
                rng.shuffle(out)
            members.append(member(gen.Net(base.inputs, out, base.size_dict, base.cls), tag=what))
        elif what == "size":
            sd = dict(base.size_dict)
            ix = rng.choice(inds)
            sd[ix] = sd[ix] + 1
            members.append(member(gen.Net(base.inputs, base.output, sd, base.cls), tag=what))
        elif what == "optimize":
            members.append(member(base, optimize="optimal", tag=what))
        elif what == "strip":
            members.append(member(base, kwargs={"strip_exponent": True}, tag=what))
        elif what == "impl":
            members.append(member(base, kwargs={"implementation": rng.choice(["cotengra", "autoray"])}, tag=what))
        elif what == "prefer_einsum":
            members.append(member(base, kwargs={"prefer_einsum": True}, tag=what))
        elif what == "via" and not any(m["tag"] == "via" for m in members):
            members.append(member(base, kwargs={"via": "VIA"}, tag=what))
        elif what == "impl_custom" and not any(m["tag"] == "impl_custom" for m in members):
            members.append(member(base, kwargs={"implementation": "CUSTOM"}, tag=what))
        elif what == "sort":
            members.append(member(base, kwargs={"sort_contraction_indices": True}, tag=what))
        elif what == "constants" and not any(m["tag"].startswith("const:") for m in members):
            # members differing ONLY in the set of constant operands / in the constant arrays' values; also ALL
            # operands constant (the expression is then called without arguments; FINDINGS_widen-c.md F1, repaired)
            p, q = rng.sample(range(n), 2)
            kw = rng.choice([{}, {}, {"via": "VIA"}, {"prefer_einsum": True}, {"implementation": rng.choice(["cotengra", "autoray"])}])
            variants = [("pos-a/values-1", [p], 1), ("pos-b/values-1", [q], 1), ("pos-a/values-2", [p], 2), ("pos-ab/values-1", sorted([p, q]), 1), ("empty", [], 1),
                        ("all/values-1", list(range(n)), 1), ("all/values-2", list(range(n)), 2)]
            keep = [variants[0]] + rng.sample(variants[1:], rng.randint(1, 3))
            for name, consts, cseed in keep:
                members.append(member(base, kwargs=dict(kw), tag="const:" + name, constants=consts, const_seed=cseed))
        elif what == "preset" and not any(m["tag"].startswith("preset:") for m in members):
            members.append(member(base, optimize="vf13-left", tag="preset:left"))
            members.append(member(base, optimize="vf13-right", tag="preset:right"))
        elif what == "relabel":
            syms = [gen.symbol(40 - k) for k in range(len(base.size_dict))]
            ren = dict(zip(base.size_dict, syms))
            net = gen.Net([[ren[i] for i in t] for t in base.inputs], [ren[i] for i in base.output], {ren[k]: v for k, v in base.size_dict.items()}, base.cls)
            members.append(member(net, tag=what))
        elif what == "trees" and inds and not any(m["tag"].startswith("tree:") for m in members):
            # ContractionTree OBJECTS as optimize: one tree and trees derived from it without modifying it
            # (non-inplace remove_ind).  Each is its own contraction specification; the per-tree cache of
            # compiled contractions must not leak between them whatever the order of the calls
            ssa = gen.random_ssa(rng, n)
            members.append(member(base, optimize={"tree": ssa, "sliced": []}, tag="tree:orig"))
            ix1 = rng.choice(inds)
            members.append(member(base, optimize={"tree": ssa, "sliced": [ix1]}, tag="tree:sliced"))
            rest = [ix for ix in inds if ix != ix1]
            if rest and rng.random() < 0.6:
                members.append(member(base, optimize={"tree": ssa, "sliced": [ix1, rng.choice(rest)]}, tag="tree:sliced2"))
        elif what == "explicit":
            lin = ref.ssa_to_linear_model(gen.random_ssa(rng, n), n)
            form = rng.choice(["tuple", "list", "list_of_lists", "edge"])
            if form == "tuple":
                opt = tuple(tuple(p) for p in lin)
            elif form == "list":
                opt = [tuple(p) for p in lin]
            elif form == "list_of_lists":
                opt = [list(p) for p in lin]
            else:
                opt = list(inds)
                rng.shuffle(opt)
                form = rng.choice(["edge_list", "edge_tuple"])
                if form == "edge_tuple":
                    opt = tuple(opt)
            members.append(member(base, optimize=opt, tag="explicit:" + form))
            # a second explicit path: the two must not be confused
            lin2 = ref.ssa_to_linear_model(gen.random_ssa(rng, n), n)
            if form == "list":
                members.append(member(base, optimize=[tuple(p) for p in lin2], tag="explicit:list"))
            elif form == "list_of_lists":
                members.append(member(base, optimize=[list(p) for p in lin2], tag="explicit:list_of_lists"))
            else:
                members.append(member(base, optimize=tuple(tuple(p) for p in lin2), tag="explicit:tuple2"))
    return members


def collision_pool(rng):
    """path-only pools whose members have equal Python hashes although they differ"""
    kind = rng.choice(["neg_labels", "neg_labels", "big_size", "sizedict_order", "sizedict_order"])
    if kind == "sizedict_order":
        # the same network given with size_dicts that list the indices in different orders: as sequences of
        # values the two dicts agree, as mappings they do not (seeded change S5_C13: key built from .values())
        n = rng.choice([3, 4, 5])
        labels = [gen.symbol(k) for k in range(n + 1)]
        inputs = tuple((labels[k], labels[k + 1]) for k in range(n))
        small, big = rng.choice([2, 3]), rng.choice([50, 100])
        vals = [small if k % 2 == 0 else big for k in range(n + 1)]
        s1 = dict(zip(labels, vals))
        # swap neighbouring keys pairwise: the value sequence stays, every index changes its size
        perm = []
        for k in range(0, n + 1, 2):
            perm += labels[k : k + 2][::-1]
        s2 = dict(zip(perm, vals))
        opt = rng.choice(["greedy", "optimal"])
        return [
            {"raw": {"inputs": inputs, "output": (labels[0], labels[n]), "size_dict": s}, "optimize": opt, "canonicalize": rng.random() < 0.7, "kwargs": {}, "tag": f"sizedict-order-{j}", "path_only": True}
            for j, s in enumerate((s1, s2) if rng.random() < 0.5 else (s2, s1))
        ]
    if kind == "neg_labels":
        # hash(-1) == hash(-2)
        a = ((-1, 5), (5, -2), (-2, 7), (7, 9))
        b = ((-1, 5), (5, -1), (-2, 7), (7, 9))
        if rng.random() < 0.5:
            a, b = b, a
        sizes = {-1: rng.choice([2, 3]), -2: rng.choice([4, 5, 7]), 5: rng.choice([2, 6]), 7: 3, 9: rng.choice([2, 5])}
        out = (9,)
        return [
            {"raw": {"inputs": a, "output": out, "size_dict": sizes}, "optimize": "greedy", "canonicalize": False, "kwargs": {}, "tag": "hashcollide-a", "path_only": True},
            {"raw": {"inputs": b, "output": out, "size_dict": sizes}, "optimize": "greedy", "canonicalize": False, "kwargs": {}, "tag": "hashcollide-b", "path_only": True},
        ]
    # hash(d) == hash(d + 2**61 - 1)
    inputs = (("a", "b"), ("b", "c"), ("c", "d"), ("d", "e"))
    s1 = {"a": 2, "b": 9, "c": 2, "d": 9, "e": 2}
    s2 = dict(s1)
    s2["b"] = 9 + 2**61 - 1 if rng.random() < 0.5 else 2
    s2["c"] = 2 + 2**61 - 1
    return [
        {"raw": {"inputs": inputs, "output": ("a", "e"), "size_dict": s1}, "optimize": "greedy", "canonicalize": rng.random() < 0.5, "kwargs": {}, "tag": "size-a", "path_only": True},
        {"raw": {"inputs": inputs, "output": ("a", "e"), "size_dict": s2}, "optimize": "greedy", "canonicalize": rng.random() < 0.5, "kwargs": {}, "tag": "size-b", "path_only": True},
    ]


# ------------------------------- one call ---------------------------------- #

APIS = ("path", "expr", "einsum_expr", "array_contract", "einsum")


def freeze(x):
    if isinstance(x, (list, tuple)):
        return tuple(freeze(i) for i in x)
    return x


TREE_FAMILY = {}


def tree_of(m):
    """the tree objects of one history: built once (clear_caches() forgets them), the sliced ones DERIVED from
    the original by non-inplace remove_ind, so that they are copies of one another"""
    from cotengra.core import ContractionTree

    spec = m["optimize"]
    net = gen.Net.from_json(m["net"])
    fam = TREE_FAMILY.setdefault(repr(spec["tree"]), {})
    if () not in fam:
        fam[()] = ContractionTree.from_path(net.inputs, net.output, net.size_dict, ssa_path=[tuple(p) for p in spec["tree"]])
    key = ()
    for ix in spec["sliced"]:
        nk = key + (ix,)
        if nk not in fam:
            fam[nk] = fam[key].remove_ind(ix)
        key = nk
    return fam[key]


def thaw_optimize(m):
    """optimize values are stored JSON-ably: restore tuples where the tag says so"""
    opt = m["optimize"]
    tag = m["tag"]
    if tag.startswith("tree:"):
        return tree_of(m)
    if isinstance(opt, str):
        return opt
    if tag.startswith("explicit:tuple"):
        return tuple(tuple(p) for p in opt)
    if tag == "explicit:list":
        return [tuple(p) for p in opt]
    if tag == "explicit:list_of_lists":
        return [list(p) for p in opt]
    if tag == "explicit:edge_list":
        return list(opt)
    if tag == "explicit:edge_tuple":
        return tuple(opt)
    return opt


def split_constants(m, arrays):
    """-> (constants {position: array} or None, the variable arrays) for the FULL operand list ``arrays``"""
    if m.get("constants") is None or arrays is None:
        return None, arrays
    pos = [int(i) for i in m["constants"]]
    return {i: arrays[i] for i in pos}, [a for i, a in enumerate(arrays) if i not in pos]


def build_expr(m, api, cache, arrays):
    """the expression of member ``m`` through ``api`` (expr | einsum_expr); constants taken from ``arrays``"""
    net = gen.Net.from_json(m["net"])
    opt = thaw_optimize(m)
    kw = resolve_kwargs(m["kwargs"])
    consts, _ = split_constants(m, arrays)
    if api == "expr":
        if consts is not None:
            kw["constants"] = consts
        return ctg.array_contract_expression(net.inputs, net.output, net.size_dict, optimize=opt, cache=cache, **kw)
    shapes = list(net.shapes())
    if consts is not None:
        for i, a in consts.items():
            shapes[i] = a
        kw["constants"] = sorted(consts)
    return ctg.einsum_expression(net.eq(), *shapes, optimize=opt, cache=cache, **kw)


def one_call(m, api, cache, arrays):
    """-> ("ok", value) | ("raise", ExceptionTypeName, message)"""
    opt = thaw_optimize(m)
    kw = resolve_kwargs(m["kwargs"])
    try:
        if "raw" in m:
            r = m["raw"]
            inputs = tuple(tuple(t) for t in r["inputs"])
            output = tuple(r["output"])
            sd = {(int(k) if isinstance(k, str) and k.lstrip("-").isdigit() else k): v for k, v in r["size_dict"].items()}
            p = ctg.array_contract_path(inputs, output, sd, optimize=opt, canonicalize=m["canonicalize"], cache=cache)
            return ("ok", freeze(p))
        net = gen.Net.from_json(m["net"])
        if api == "path":
            p = ctg.array_contract_path(net.inputs, net.output, net.size_dict, optimize=opt, cache=cache)
            return ("ok", freeze(p))
        if api in ("expr", "einsum_expr"):
            e = build_expr(m, api, cache, arrays)
            return ("ok", e(*split_constants(m, arrays)[1]))
        if api == "array_contract":
            return ("ok", ctg.array_contract(arrays, net.inputs, net.output, optimize=opt, cache_expression=cache, **kw))
        if api == "einsum":
            return ("ok", ctg.einsum(net.eq(), *arrays, optimize=opt, cache_expression=cache, **kw))
    except Exception as e:
        return ("raise", type(e).__name__, f"{e} | {traceback.format_exc()[-300:]}")
    raise ValueError(api)


def value_of(res, m):
    v = res[1]
    if m["kwargs"].get("strip_exponent"):
        mant, ex = v
        return np.asarray(mant) * 10.0 ** float(ex)
    return np.asarray(v)


def run_history(rep, case):
    warnings.filterwarnings("ignore")
    ensure_presets()
    clear_caches()
    pool = case["pool"]
    last_api_member = {}
    for step, (mi, api, arr_seed) in enumerate(case["calls"]):
        m = pool[mi]
        if "raw" in m:
            api = "path"
            arrays = None
            net = None
        else:
            net = gen.Net.from_json(m["net"])
            arrays = net.arrays(rng_for(case["case_seed"], "arr", arr_seed), "float")
        has_const = m.get("constants") is not None
        if has_const:
            # constants only exist for expressions: the eager calls of such a member become expression calls;
            # the constant arrays depend on the member (const_seed) only and are re-created for every call
            api = {"array_contract": "expr", "einsum": "einsum_expr"}.get(api, api)
            carr = net.arrays(rng_for(case["case_seed"], "const", m["const_seed"]), "float")
            arrays = [carr[i] if i in m["constants"] else a for i, a in enumerate(arrays)]

        def K(kind, flag=has_const and api != "path"):
            # failures observed on an expression with constants carry their own kind
            return ("constants_" + kind) if flag else kind

        if m.get("tag", "").startswith("tree:"):
            rep.mon("tree_objects_as_optimize")
        prev = last_api_member.get(api)
        if prev is not None and prev != mi:
            rep.mon("near_pairs")
            if api != "path" and (has_const or pool[prev].get("constants") is not None):
                rep.mon("constants_near_pairs")
            rep.seen("ordered_pairs", (pool[prev]["tag"], m["tag"], api))
        last_api_member[api] = mi
        first = case["order"][step % len(case["order"])]
        res = {}
        used_custom = {}
        for cache in ([True, False] if first else [False, True]):
            n0 = CUSTOM_CALLS["n"]
            res[cache] = one_call(m, api, cache, arrays)
            used_custom[cache] = CUSTOM_CALLS["n"] - n0
        if api != "path" and "raw" not in m and res[True][0] == "ok" and res[False][0] == "ok":
            wants_custom = m["kwargs"].get("implementation") == "CUSTOM" and net.N >= 2
            rep.mon("custom_impl_observed")
            for cache in (True, False):
                if wants_custom and used_custom[cache] == 0:
                    return ("option_ignored", step, f"step {step}: {api} on member {mi} ({m['tag']}) cache={cache}: the supplied implementation was never called")
                if not wants_custom and used_custom[cache] != 0:
                    return ("option_leaked", step, f"step {step}: {api} on member {mi} ({m['tag']}) cache={cache}: another call's implementation was used")
        rep.mon("cached_vs_uncached")
        if has_const and api != "path":
            rep.mon("constants_cached_vs_uncached")
            if len(m["constants"]) == net.N:
                rep.mon("constants_all_operands")
            rep.count("constants_members", f"{api} | {m['tag']} | {sorted(m['kwargs'])}")
        rep.count("api", api)
        c, u = res[True], res[False]
        where = f"step {step}: {api} on pool member {mi} ({m['tag']})"
        if c[0] != u[0]:
            bad = c if c[0] == "raise" else u
            return (K("raises_differ"), step, f"{where}: cache=True -> {c[0]}, cache=False -> {u[0]} ({bad[1]}: {bad[2][:300]})")
        if c[0] == "raise":
            # every pool member is a valid contraction with a valid optimize argument: the reference has
            # a value, so a call that raises in BOTH modes is a wrong answer too (e.g. a dispatch decision
            # memoised by an earlier, different call)
            rep.count("both_raise", f"{api}:{c[1]}")
            return (K("raises"), step, f"{where}: raises with and without caching ({c[1]}: {c[2][:300]}); calls before: {[(pool[a]['tag'], b) for a, b, _ in case['calls'][:step]][-6:]}")
        if api == "path":
            if m["tag"].startswith("preset:"):
                # a registered preset behaves like the function registered under its name, cached or not
                model = set(ref.path_to_nodes(net.N, model_path(PRESETS[m["optimize"]], net.N)))
                for label, r in (("cached", c), ("uncached", u)):
                    rep.mon("preset_path_model")
                    try:
                        nodes = set(ref.path_to_nodes(net.N, [tuple(int(i) for i in p) for p in r[1]]))
                    except Exception as e:
                        return ("path_invalid", step, f"{where}: {label} path {r[1]!r}: {e!r}")
                    if nodes != model:
                        return ("preset_path_model", step, f"{where}: {label} path {r[1]} does not have the intermediates of {model_path(PRESETS[m['optimize']], net.N)}, "
                                f"the path the function registered as {m['optimize']!r} returns; calls before: {[(pool[a]['tag'], b) for a, b, _ in case['calls'][:step]][-6:]}")
            rep.mon("path_equal")
            if c[1] != u[1]:
                return ("path_differs", step, f"{where}: cached path {c[1]} != uncached path {u[1]}")
            if "raw" in m:
                n_in = len(m["raw"]["inputs"])
            else:
                n_in = net.N
            # (an explicit path is handed back as given: it may be partial, but it must be a LINEAR path)
            msg = ref.check_linear_path(n_in, c[1], allow_incomplete=isinstance(thaw_optimize(m), (list, tuple)))
            if msg:
                return ("path_invalid", step, f"{where}: {msg}")
            continue
        if m["kwargs"].get("via") == "VIA":
            want, bound, nsum = ref.dense_einsum(net.inputs, net.output, [VIA_IN(a) for a in arrays], with_bound=True)
            want, bound = VIA_OUT(want), VIA_OUT(bound)
        else:
            want, bound, nsum = ref.dense_einsum(net.inputs, net.output, arrays, with_bound=True)
        for label, r in (("cached", c), ("uncached", u)):
            try:
                got = value_of(r, m)
            except Exception as e:
                return (K("value"), step, f"{where}: {label} result has unexpected form: {e!r}")
            rep.mon("value_vs_E1")
            if has_const:
                rep.mon("constants_value_vs_E1")
            msg = ref.compare(got, want, bound, nsum, net.N)
            if msg:
                return (K("value"), step, f"{where}: {label} result: {msg}" + (f" (constants at {m['constants']})" if has_const else ""))
        # a cached expression re-applied to NEW arrays of the same shapes
        if api in ("expr", "einsum_expr"):
            try:
                arrays2 = net.arrays(rng_for(case["case_seed"], "arr2", step), "float")
                if has_const:
                    # same constants (same values, new objects), new variable arrays
                    carr = net.arrays(rng_for(case["case_seed"], "const", m["const_seed"]), "float")
                    arrays2 = [carr[i] if i in m["constants"] else a for i, a in enumerate(arrays2)]
                e = build_expr(m, api, True, arrays2)
                got = value_of(("ok", e(*split_constants(m, arrays2)[1])), m)
            except Exception as e2:
                return (K("raises"), step, f"{where}: reusing the cached expression raised {type(e2).__name__}: {e2}")
            if m["kwargs"].get("via") == "VIA":
                w2, b2, n2 = ref.dense_einsum(net.inputs, net.output, [VIA_IN(a) for a in arrays2], with_bound=True)
                w2, b2 = VIA_OUT(w2), VIA_OUT(b2)
            else:
                w2, b2, n2 = ref.dense_einsum(net.inputs, net.output, arrays2, with_bound=True)
            rep.mon("expr_reused_new_arrays")
            if has_const:
                rep.mon("constants_reused_new_arrays")
            msg = ref.compare(got, w2, b2, n2, net.N)
            if msg:
                return (K("value"), step, f"{where}: cached expression on new arrays: {msg}")
    return None


def gen_case(rng, cs, tier):
    if rng.random() < 0.12:
        pool = collision_pool(rng)
        kind = "collision"
    else:
        pool = make_pool(rng, tier)
        kind = "near"
    ncalls = rng.randint(10, budget(tier, 30, 40)) if kind == "near" else rng.randint(3, 6)
    calls = [(rng.randrange(len(pool)), rng.choice(APIS), rng.randrange(1000)) for _ in range(ncalls)]
    if kind == "collision":
        calls = [(0, "path", 0), (1, "path", 0)] + calls
    order = [rng.random() < 0.7 for _ in range(5)]
    return {"pool": pool, "calls": calls, "order": order, "case_seed": cs, "kind": kind}


def run_shard(rep, tier, seed, shard, nshards):
    dl = Deadline(budget(tier, 45, 500))
    for k in range(budget(tier, 600, 12000)):
        if dl.expired():
            break
        cs = f"{seed}/C13/{shard}/{k}"
        case = gen_case(rng_for(cs), cs, tier)
        if case["kind"] == "collision":
            rep.mon("collision_pool")
        tags = tuple(m["tag"] for m in case["pool"])
        try:
            res = run_history(rep, case)
        except Exception as e:
            rep.inconclusive_case(f"harness: {type(e).__name__}: {e} | {traceback.format_exc()[-400:]}")
            continue
        pairs = len({(a, b) for (a, _, _), (b, _, _) in zip(case["calls"], case["calls"][1:]) if a != b})
        rep.case((repr(case["pool"]), tuple(map(tuple, case["calls"]))), pairs > 0, case["kind"],
                 sample={"pool_tags": tags, "calls": case["calls"][:8], "base": case["pool"][0].get("net", case["pool"][0].get("raw"))})
        if res:
            w = dict(case)
            w["calls"] = case["calls"][: res[1] + 1]
            rep.violation(res[0], w, f"pool={tags}: {res[2]}")


def replay(rep, v):
    w = v["witness"]
    w["calls"] = [tuple(c) for c in w["calls"]]
    res = run_history(rep, w)
    if res:
        rep.violation(res[0], w, res[2])
