"""C16 - one optimizer object can serve many contractions, in sequence or across threads.

Every query has a UNIQUE tensor count and disjoint index labels, so a returned tree/path names the
query it belongs to.  Monitors:
  sequential   every ordering of 3-4 distinct contractions (above and below the optimal cutoff)
               through presets and shared optimizer objects via search / __call__ /
               array_contract_tree / array_contract_path, with repeated queries interleaved
  scheduled    2-3 threads sharing one optimizer under the deterministic token scheduler
               (vf/sched.py): yield points at entry/exit of the methods named in the property;
               DFS over schedules with a preemption bound enumerates the orderings
  stress       free-running threads with a tiny switch interval, created and joined in waves so
               that thread identifiers are recycled
"""

import itertools
import sys
import threading
import traceback
import warnings

import cotengra as ctg
from cotengra import presets as _presets
from cotengra import reusable as _reusable
from cotengra.hyperoptimizers import hyper as _hyper
from cotengra.pathfinders.path_basic import ReusableRandomGreedyOptimizer
from cotengra.utils import DiskDict

from .. import ct, gen, ref, sched
from ..common import Deadline, budget, rng_for

PID = "C16"
LEVEL = "exploration"
RULE = (
    "queries = 3-4 networks with pairwise different tensor counts (4-16) and disjoint labels; sequential: all "
    "orderings (with repeats) through each optimizer kind and entry point; scheduled: 2 threads (preemption bound 3) "
    "and 3 threads (bound 2) over method-boundary yield points, DFS over schedules; stress: 8 threads x waves. "
    "distinct = distinct (optimizer kind, entry, query order | interleaving); non-trivial = >=2 different queries "
    "answered by the same object"
)
ASSUMPTIONS = [
    "yield points are method boundaries (entry/exit), attached from the harness; interleavings inside a method body are only reached by the switch-interval stress",
]
REQUIRED_MONITORS = ["reentrant_answers", "sequential_answers", "scheduled_runs", "scheduled_answers", "stress_answers", "interleavings_2threads", "interleavings_3threads",
                     "kind:auto", "kind:auto_nocache", "kind:autohq", "kind:reusable_hyper", "kind:reusable_rg", "kind:preset"]
SHARD_TIMEOUT = {"quick": 500, "thorough": 3600}

KINDS = ("auto", "auto_nocache", "autohq", "autohq_nocache", "reusable_hyper", "reusable_hyper_disk", "reusable_rg", "preset:auto", "preset:auto-hq", "preset:greedy", "preset:optimal", "preset:random-greedy")


def nshards(tier):
    return 16


def classify(v):
    return None


def make_queries(rng, k, big=False):
    """k networks with pairwise different N and disjoint labels"""
    sizes = rng.sample(range(4, 13 if not big else 17), k)
    out = []
    off = 0
    for n in sizes:
        net = gen.graph_net(rng, n, cap=10**9, n_out=rng.randint(0, 2), p_one=0.0)
        ren = {}
        for ix in ref.index_order(net.inputs, net.output):
            ren[ix] = gen.symbol(off)
            off += 1
        net = gen.Net([[ren[i] for i in t] for t in net.inputs], [ren[i] for i in net.output], {ren[k_]: v for k_, v in net.size_dict.items() if k_ in ren}, "graph")
        out.append(net)
    if rng.random() < 0.6:
        # a TWIN: the same tensors with the index order permuted inside tensors and output - a
        # different contraction (different axis order) that reusable caches may legitimately answer
        # from the same entry, but the answer must still be a tree of THIS query
        src = rng.choice(out)
        ins = [list(t) for t in src.inputs]
        for t in ins:
            rng.shuffle(t)
        o = list(src.output)
        rng.shuffle(o)
        twin = gen.Net(ins, o, src.size_dict, "graph")
        if twin.inputs != src.inputs or twin.output != src.output:
            out.append(twin)
    if rng.random() < 0.5:
        # a RESIZED twin: the very same index structure with larger dimensions - a different
        # contraction (other size_dict, other costs); the answer must carry THIS query's sizes
        src = rng.choice(out)
        f = rng.choice([2, 3])
        out.append(gen.Net(src.inputs, src.output, {k_: v * f + rng.choice([0, 1]) for k_, v in src.size_dict.items()}, "graph+resized"))
    return out


def make_optimizer(kind, tmpdir=None, seed=0):
    """-> (object or preset string)"""
    hk = dict(max_repeats=3, parallel=False, optlib="random")
    if kind == "auto":
        return _presets.AutoOptimizer(optimal_cutoff=80, cache=True, **hk)
    if kind == "auto_nocache":
        return _presets.AutoOptimizer(optimal_cutoff=80, cache=False, **hk)
    if kind == "autohq":
        return _presets.AutoHQOptimizer(optimal_cutoff=80, cache=True, methods=["greedy"], **hk)
    if kind == "autohq_nocache":
        return _presets.AutoHQOptimizer(optimal_cutoff=80, cache=False, methods=["greedy"], **hk)
    if kind == "reusable_hyper":
        return ctg.ReusableHyperOptimizer(methods=["greedy"], **hk)
    if kind == "reusable_hyper_disk":
        return ctg.ReusableHyperOptimizer(methods=["greedy"], directory=tmpdir, **hk)
    if kind == "reusable_rg":
        return ReusableRandomGreedyOptimizer(max_repeats=2, parallel=False)
    if kind.startswith("preset:"):
        return kind.split(":", 1)[1]
    raise ValueError(kind)


def ask(opt, net, entry):
    """-> ("tree", tree) | ("path", path)"""
    if isinstance(opt, str):
        if entry in ("search", "tree"):
            return "tree", ctg.array_contract_tree(net.inputs, net.output, net.size_dict, optimize=opt, canonicalize=False)
        return "path", ctg.array_contract_path(net.inputs, net.output, net.size_dict, optimize=opt, canonicalize=False, cache=(entry == "path_cached"))
    if entry == "search":
        return "tree", opt.search(net.inputs, net.output, net.size_dict)
    if entry == "call":
        return "path", opt(net.inputs, net.output, net.size_dict)
    if entry == "tree":
        return "tree", ctg.array_contract_tree(net.inputs, net.output, net.size_dict, optimize=opt, canonicalize=False)
    return "path", ctg.array_contract_path(net.inputs, net.output, net.size_dict, optimize=opt, canonicalize=False)


def answer_ok(net, res):
    what, val = res
    if what == "tree":
        if val.N != net.N:
            return f"returned a tree over {val.N} tensors for a query with {net.N}"
        if tuple(map(tuple, val.inputs)) != net.inputs or tuple(val.output) != net.output:
            return "returned a tree over another network's indices"
        wrong = {k_: (val.size_dict.get(k_), v) for k_, v in net.size_dict.items() if val.size_dict.get(k_) != v}
        if wrong:
            k_ = sorted(wrong)[0]
            return f"returned a tree with the index sizes of another query ({len(wrong)} differ, e.g. {k_!r}: tree says {wrong[k_][0]}, query says {wrong[k_][1]})"
        msg = ref.check_tree_struct(net.N, ct.children_of(val))
        if msg:
            return msg
        m = ref.Costs(net.inputs, net.output, net.size_dict, ct.children_of(val), removed=list(val.sliced_inds), nslices_of={ix: (1 if si.project is not None else net.size_dict[ix]) for ix, si in val.sliced_inds.items()})
        if val.total_flops() != m.total_flops():
            return f"returned tree reports {val.total_flops()} flops but its path costs {m.total_flops()} on the queried contraction"
        return None
    msg = ref.check_linear_path(net.N, val)
    if msg:
        return f"returned path {tuple(val)!r:.120} is not a path of this {net.N}-tensor query: {msg}"
    return None


# ------------------------------ sequential ---------------------------------- #


def run_sequential(rep, case, tmpdir):
    warnings.filterwarnings("ignore")
    nets = [gen.Net.from_json(j) for j in case["nets"]]
    opt = make_optimizer(case["kind"], tmpdir)
    for step, (qi, entry) in enumerate(case["order"]):
        try:
            res = ask(opt, nets[qi], entry)
        except Exception as e:
            return ("raises", f"step {step} query {qi} via {entry}: {type(e).__name__}: {e} | {traceback.format_exc()[-300:]}")
        rep.mon("sequential_answers")
        msg = answer_ok(nets[qi], res)
        if msg:
            return ("wrong_answer", f"step {step}: query {qi} (N={nets[qi].N}) via {entry} after {[(a, b) for a, b in case['order'][:step]]}: {msg}")
    return None


# ------------------------------ scheduled ------------------------------------ #

_ACTIVE = {"sched": None}


def _wrap(cls, name, label):
    orig = cls.__dict__[name]
    if getattr(orig, "_vf_wrapped", False):
        return
    if isinstance(orig, property):
        fget = orig.fget

        def getter(self):
            s = _ACTIVE["sched"]
            if s is not None:
                s.yield_point(label + ":get")
            return fget(self)

        p = property(getter, orig.fset, orig.fdel)
        setattr(cls, name, p)
        return

    def wrapped(self, *a, **k):
        s = _ACTIVE["sched"]
        if s is not None:
            s.yield_point(label + ":enter")
        try:
            return orig(self, *a, **k)
        finally:
            s = _ACTIVE["sched"]
            if s is not None:
                s.yield_point(label + ":exit")

    wrapped._vf_wrapped = True
    setattr(cls, name, wrapped)


def install_yield_points():
    R = _reusable.ReusableOptimizer
    _wrap(R, "search", "R.search")
    _wrap(R, "_maybe_run_optimizer", "R._maybe_run")
    _wrap(R, "_run_optimizer", "R._run")
    _wrap(R, "last_opt", "R.last_opt")
    _wrap(DiskDict, "__getitem__", "DD.get")
    _wrap(DiskDict, "__setitem__", "DD.set")
    _wrap(DiskDict, "__contains__", "DD.in")
    A = _presets.AutoOptimizer
    _wrap(A, "search", "A.search")
    _wrap(A, "_get_optimizer_hyper_threadsafe", "A.get_hyper")
    _wrap(_hyper.HyperOptimizer, "search", "H.search")
    _wrap(_hyper.HyperOptimizer, "_search", "H._search")


def run_schedule(case, nets, opt_factory, prefix, bound):
    """One scheduled execution.  Returns (results, errors, decisions) where decisions[i] =
    (chosen, runnable, preemptions_so_far)."""
    decisions = []
    state = {"last": None, "pre": 0}

    def choose(runnable, trace):
        i = len(decisions)
        default = state["last"] if state["last"] in runnable else runnable[0]
        if i < len(prefix) and prefix[i] in runnable:
            pick = prefix[i]
        else:
            pick = default
        if state["last"] in runnable and pick != state["last"]:
            state["pre"] += 1
        decisions.append((pick, tuple(runnable), state["pre"]))
        state["last"] = pick
        return pick

    s = sched.TokenScheduler(choose, watchdog=30.0)
    opt = opt_factory()
    fns = []
    for qi, entry in case["threads"]:
        fns.append(lambda qi=qi, entry=entry: ask(opt, nets[qi], entry))
    _ACTIVE["sched"] = s
    try:
        results, errors = s.run(fns)
    finally:
        _ACTIVE["sched"] = None
    return results, errors, decisions, s


def explore(rep, case, tmpdir, max_runs, bound):
    """DFS over schedules with a preemption bound."""
    warnings.filterwarnings("ignore")
    warm_up_pool()
    install_yield_points()
    nets = [gen.Net.from_json(j) for j in case["nets"]]
    counter = {"n": 0}

    def factory():
        counter["n"] += 1
        d = None
        if tmpdir:
            import os

            d = os.path.join(tmpdir, f"c{counter['n']}")
        return make_optimizer(case["kind"], d)

    stack = [[]]
    seen_prefixes = set()
    runs = 0
    nthreads = len(case["threads"])
    while stack and runs < max_runs:
        prefix = stack.pop()
        results, errors, decisions, s = run_schedule(case, nets, factory, prefix, bound)
        runs += 1
        rep.mon("scheduled_runs")
        if s.stuck:
            rep.inconclusive_case(f"scheduler watchdog fired for prefix {prefix}")
            continue
        trace_sig = tuple(s.trace)
        rep.seen(f"interleavings_{nthreads}threads_set", trace_sig)
        rep.mon(f"interleavings_{nthreads}threads")
        for ti, (qi, entry) in enumerate(case["threads"]):
            if ti in errors:
                e = errors[ti]
                return ("raises", f"thread {ti} (query {qi} via {entry}) raised {type(e).__name__}: {e} under schedule {[d[0] for d in decisions]}", [d[0] for d in decisions])
            rep.mon("scheduled_answers")
            msg = answer_ok(nets[qi], results[ti])
            if msg:
                return ("wrong_answer", f"thread {ti}: query {qi} (N={nets[qi].N}) via {entry}: {msg}; schedule {[d[0] for d in decisions]}; trace tail {s.trace[-12:]}", [d[0] for d in decisions])
        # expand alternatives beyond the prefix
        for i in range(len(prefix), len(decisions)):
            pick, runnable, pre = decisions[i]
            for alt in runnable:
                if alt == pick:
                    continue
                last = decisions[i - 1][0] if i else None
                extra = 1 if (last in runnable and alt != last) else 0
                pre_before = decisions[i - 1][2] if i else 0
                if pre_before + extra > bound:
                    continue
                np_ = tuple([d[0] for d in decisions[:i]] + [alt])
                if np_ not in seen_prefixes:
                    seen_prefixes.add(np_)
                    stack.append(list(np_))
    rep.count("schedules_left_unexplored", "yes" if stack else "no")
    return None


# -------------------------------- stress -------------------------------------- #


def warm_up_pool():
    """The presets with parallel='auto' import joblib's loky lazily on first use; several threads
    doing that first import at once hit a circular-import race inside joblib (third-party, and
    nothing to do with which tree is returned) - so the first use happens here, in one thread."""
    try:
        from cotengra.parallel import parse_parallel_arg

        parse_parallel_arg("auto")
    except Exception:
        pass


def run_stress(rep, case, tmpdir):
    warnings.filterwarnings("ignore")
    warm_up_pool()
    nets = [gen.Net.from_json(j) for j in case["nets"]]
    opt = make_optimizer(case["kind"], tmpdir)
    bad = []
    lock = threading.Lock()
    old = sys.getswitchinterval()
    sys.setswitchinterval(1e-6)
    try:
        for wave in range(case["waves"]):
            def work(tid):
                r = rng_for(case["case_seed"], "stress", wave, tid)
                for _ in range(case["per_thread"]):
                    qi = r.randrange(len(nets))
                    entry = r.choice(case["entries"])
                    try:
                        res = ask(opt, nets[qi], entry)
                        msg = answer_ok(nets[qi], res)
                    except Exception as e:
                        msg = f"raised {type(e).__name__}: {e}"
                    with lock:
                        rep.mon("stress_answers")
                        if msg:
                            bad.append(f"wave {wave} thread {tid} query {qi} (N={nets[qi].N}) via {entry}: {msg}")
            ts = [threading.Thread(target=work, args=(i,)) for i in range(case["nthreads"])]
            for t in ts:
                t.start()
            for t in ts:
                t.join()
            rep.seen("thread_idents", tuple(sorted(t.ident for t in ts)))
    finally:
        sys.setswitchinterval(old)
    if bad:
        return ("wrong_answer", f"{len(bad)} wrong answers under stress; first: {bad[0]}")
    return None


# --------------------------------- driver ------------------------------------- #


def entries_for(kind):
    if kind.startswith("preset:"):
        return ["tree", "path", "path_cached"]
    return ["search", "call", "tree", "path"]


# ------------------------------ re-entrant use ------------------------------- #
# One thread, one optimizer object, a query made WHILE another query of the same object is being answered: the
# library does this itself (partition based methods order their groups with the shared 'auto-hq' optimizer, which
# may be the very object that is running them).  Here a registered trial method asks the object a nested question.

_NEST = {"opt": None, "net": None, "depth": 0, "asked": 0}


def _nested_method(inputs, output, size_dict, **kw):
    if _NEST["opt"] is not None and _NEST["depth"] == 0:
        _NEST["depth"] += 1
        try:
            n = _NEST["net"]
            _NEST["opt"](n.inputs, n.output, n.size_dict)
            _NEST["asked"] += 1
        finally:
            _NEST["depth"] -= 1
    return _hyper._PATH_FNS["greedy"](inputs, output, size_dict)


def run_reentrant(rep, case, tmpdir):
    warnings.filterwarnings("ignore")
    if "vf16-nested" not in _hyper._PATH_FNS:
        _hyper.register_hyper_function("vf16-nested", _nested_method, {"k": {"type": "INT", "min": 0, "max": 9}})
    nets = [gen.Net.from_json(j) for j in case["nets"]]
    hk = dict(methods=["vf16-nested"], max_repeats=2, parallel=False, optlib="random", on_trial_error="raise")
    if case["kind"] == "reusable_hyper_disk":
        opt = ctg.ReusableHyperOptimizer(directory=tmpdir, **hk)
    elif case["kind"].startswith("autohq"):
        opt = _presets.AutoHQOptimizer(optimal_cutoff=0, cache=True, **hk)
    else:
        opt = ctg.ReusableHyperOptimizer(**hk)
    try:
        for step, (outer, inner, entry) in enumerate(case["pairs"]):
            _NEST.update(opt=opt, net=nets[inner], depth=0)
            try:
                res = ask(opt, nets[outer], entry)
            except Exception as e:
                return ("raises", f"re-entrant step {step}: outer query {outer} (nested {inner}) via {entry}: {type(e).__name__}: {e} | {traceback.format_exc()[-300:]}")
            finally:
                _NEST.update(opt=None)
            rep.mon("reentrant_answers")
            msg = answer_ok(nets[outer], res)
            if msg:
                return ("wrong_answer", f"re-entrant step {step}: outer query {outer} (N={nets[outer].N}) via {entry}, which asked the same object about query {inner} (N={nets[inner].N}) while it ran: {msg}")
            # the nested question itself, asked again afterwards
            res2 = ask(opt, nets[inner], "search")
            msg = answer_ok(nets[inner], res2)
            if msg:
                return ("wrong_answer", f"re-entrant step {step}: nested query {inner} asked again afterwards: {msg}")
    finally:
        _NEST.update(opt=None, depth=0)
    return None


def execute(rep, case):
    import shutil
    import tempfile

    tmp = tempfile.mkdtemp(prefix="vf-c16-", dir="/var/tmp")
    try:
        if case["mode"] == "reentrant":
            return run_reentrant(rep, case, tmp)
        if case["mode"] == "sequential":
            return run_sequential(rep, case, tmp)
        if case["mode"] == "scheduled":
            r = explore(rep, case, tmp if case["kind"].endswith("_disk") else None, case["max_runs"], case["bound"])
            return r[:2] if r else None
        return run_stress(rep, case, tmp)
    finally:
        shutil.rmtree(tmp, ignore_errors=True)


def run_shard(rep, tier, seed, shard, nshards):
    dl = Deadline(budget(tier, 70, 900))
    k = -1
    while not dl.expired() and k < budget(tier, 400, 8000):
        k += 1
        cs = f"{seed}/C16/{shard}/{k}"
        rng = rng_for(cs)
        kind = KINDS[(k + shard) % len(KINDS)]
        mon_kind = "preset" if kind.startswith("preset:") else kind.replace("_disk", "").replace("autohq_nocache", "autohq")
        mode = rng.choice(["sequential", "sequential", "scheduled", "stress"]) if not kind.startswith("preset:") else rng.choice(["sequential", "stress"])
        nets = make_queries(rng, rng.randint(3, 4), big=kind.startswith("preset:"))
        case = {"mode": mode, "kind": kind, "nets": [n.to_json() for n in nets], "case_seed": cs}
        ents = entries_for(kind)
        if mode == "sequential" and kind in ("reusable_hyper", "reusable_hyper_disk", "autohq") and rng.random() < 0.35:
            mode = case["mode"] = "reentrant"
            pairs = []
            for _ in range(rng.randint(2, 4)):
                a, b = rng.sample(range(len(nets)), 2)
                pairs.append((a, b, rng.choice(["search", "tree", "call", "path"])))
            case["pairs"] = pairs
            key = (kind, "reentrant", tuple(pairs), tuple(n.N for n in nets))
        elif mode == "sequential":
            perm = list(range(len(nets)))
            rng.shuffle(perm)
            order = perm + [rng.randrange(len(nets)) for _ in range(rng.randint(2, 6))]
            case["order"] = [(qi, rng.choice(ents)) for qi in order]
            key = (kind, tuple(case["order"]), tuple(n.N for n in nets))
        elif mode == "scheduled":
            nt = rng.choice([2, 2, 3])
            qs = rng.sample(range(len(nets)), nt)
            if rng.random() < 0.3:
                qs[-1] = qs[0]  # two threads asking the same question
            case["threads"] = [(qi, rng.choice(["search", "call"])) for qi in qs]
            case["bound"] = 3 if nt == 2 else 2
            case["max_runs"] = budget(tier, 40, 400)
            key = (kind, "sched", tuple(case["threads"]), tuple(n.N for n in nets))
        else:
            case.update(nthreads=8, waves=budget(tier, 2, 5), per_thread=budget(tier, 6, 25), entries=ents)
            key = (kind, "stress", cs)
        try:
            res = execute(rep, case)
        except Exception as e:
            rep.inconclusive_case(f"harness: {type(e).__name__}: {e} | {traceback.format_exc()[-400:]}")
            continue
        rep.mon("kind:" + mon_kind)
        rep.case(key, True, mode, sample={k_: v_ for k_, v_ in case.items() if k_ != "nets"} | {"Ns": [n.N for n in nets]})
        rep.count("matrix", f"{kind}|{mode}")
        if res:
            rep.violation(res[0], case, f"{kind} {mode}: {res[1]}")


def replay(rep, v):
    res = execute(rep, v["witness"])
    if res:
        rep.violation(res[0], v["witness"], res[1])
