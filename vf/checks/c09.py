"""C09 - the 'optimal' pathfinder really is optimal.

Oracle: for a qualifying network (connected, nothing to pre-simplify) enumerate ALL
(2n-3)!! binary trees (ref.all_trees) and evaluate every objective with the independent
cost model E2 (ref.Costs; per-node figures memoised per network, nothing from cotengra):

    flops   = sum over internal nodes of node_flops      ("total flops")
    size    = max over internal nodes of node_size       ("largest intermediate": every tensor
              a contraction step produces, the final one included; the inputs are not
              intermediates - this is NOT ContractionTree.max_size(), which includes leaves)
    write   = sum over internal nodes of node_size       ("total write")
    max     = max over internal nodes of node_flops      ("most expensive single step" - a flop
              count, not a size)
    combo-k = sum(node_flops + k * node_size)
    limit-k = sum(max(node_flops, k * node_size))

The minimum is taken over all trees (search_outer=True) or over the outer-product-free trees
(search_outer=False).  "Outer product" is read the way the code decides it
(optimize_optimal_connected: two subgraphs may be merged iff their current legs have an index
in common): a step is an outer product iff its two operands have NO index in common at all.
An index carried by leaves on both sides cannot have been contracted away inside either side,
so "common index among the leaves' index sets" and "common surviving leg" coincide; a step
whose operands share only a kept (output / hyper) index is therefore NOT an outer product.
This is the larger of the candidate tree sets, i.e. exactly the set the code searches.

The path cotengra returns is converted to a children dict with the reference path model and
evaluated by a *fresh* ref.Costs; required: cost(returned) == min  (exact integers).
"""

import traceback

from .. import ct, gen, ref
from ..common import Deadline, OpTimeout, budget, rng_for, time_limit

PID = "C09"
LEVEL = "exploration"
RULE = (
    "seeded generator of connected, already-simplified networks (classes graph, hyper, dense incidence, "
    "star, ring/chain; 3-6 tensors in quick, 3-7 in thorough; hyper indices, output indices on several "
    "tensors; size patterns mixed 2-5 / all-2 / {2,5} / {2,3} / a few with size-1 dims); generator rejects anything violating the "
    "statement's preconditions.  Per network: ALL (2n-3)!! trees evaluated by E2, then objectives "
    "{flops,size,write,max,combo[-k],limit[-k], k in 1,2,64,256} x search_outer x cost_cap in "
    "{2, optimum, optimum-1, 10^6} x entry point {optimize_optimal (use_ssa, simplify both ways), "
    "OptimalOptimizer call/ssa_path/search/kwargs, array_contract_path(optimizer | 'optimal' preset)}.  "
    "Every call runs under a logical progress bound (sys.monitoring LINE event on the cost-cap doubling of "
    "optimize_optimal_connected: more than log2(optimum/cap)+1+20 doublings per component = kind no_return).  "
    "Exhaustive per input, sampling over inputs.  case = one network; distinct = distinct networks; "
    "non-trivial = n >= 4 and the tree enumeration has >= 2 distinct total-flops values"
)
ASSUMPTIONS = [
    "the independent cost model (vf/ref.py Costs) is the definition of every objective",
    "ref.all_trees(n) yields every binary tree over n leaves exactly once ((2n-3)!! counted per network)",
    "pure-python optimize_optimal (cotengrust not installed); integer k only for combo/limit",
]
REQUIRED_MONITORS = ["preset_tree_interface", 
    "optimal_vs_exhaustive",
    "trees_enumerated",
    "outer_free_cases",
    "outer_searched_cases",
    "cap_at_optimum",
    "cap_below_optimum",
    "hyper_networks",
    "oracle_selfcheck",
]
SHARD_TIMEOUT = {"quick": 400, "thorough": 3600}
EXHAUSTIVE = None

KS = (1, 2, 64, 256)
DEFAULT_K = 64  # documented default factor of 'combo' / 'limit'
VALUE_NAMES = ("flops", "size", "write", "max") + tuple(f"combo-{k}" for k in KS) + tuple(f"limit-{k}" for k in KS)
VALUE_POS = {name: j for j, name in enumerate(VALUE_NAMES)}
ENTRIES = ("fn", "fn", "fn", "opt_call", "opt_ssa", "opt_search", "opt_kwargs", "acp_opt")
CALL_LIMIT = 60  # seconds; a firing limit is inconclusive, never a verdict


# --------------------------------------------------------------------------- #
#        logical progress bound on the cost-cap loop (no wall clock)          #
# --------------------------------------------------------------------------- #
# optimize_optimal_connected repeats a full bottom-up pass, doubling `cost_cap` after each one that
# did not produce the complete contraction (`cost_cap *= 2`).  Every sub-tree of the optimal tree
# scores at most the optimum, so a pass whose cap is >= the optimum MUST complete; the number of
# doublings in one call is therefore bounded by log2(optimum / initial cap) + 1.  The monitor counts
# executions of that statement with a sys.monitoring LINE event local to that one code object and
# raises NoProgress *into* the search once the count exceeds a generous bound (20 doublings, a factor
# 10^6, beyond the optimum, per connected component): a finder that no longer returns is then a
# definite verdict (kind=no_return) decided on logical steps, not on the watchdog.

import math
import sys


class NoProgress(Exception):
    pass


class CapLoopMonitor:
    TOOL = 4
    SLACK = 20

    def __init__(self):
        self.available = False
        self.count = 0
        self.limit = None
        mon = getattr(sys, "monitoring", None)
        if mon is None:
            return
        try:
            import inspect

            from cotengra.pathfinders.path_basic import ContractionProcessor

            fn = ContractionProcessor.optimize_optimal_connected
            lines, first = inspect.getsourcelines(fn)
            hits = [first + j for j, l in enumerate(lines) if l.strip().replace(" ", "").startswith("cost_cap*=")]
            if len(hits) != 1:
                return
            self.code, self.line = fn.__code__, hits[0]
            mon.use_tool_id(self.TOOL, "vf-c09-caploop")
            mon.register_callback(self.TOOL, mon.events.LINE, self._on_line)
            mon.set_local_events(self.TOOL, self.code, mon.events.LINE)
            self.available = True
        except Exception:
            self.available = False

    def _on_line(self, code, line):
        if code is not self.code or line != self.line:
            return sys.monitoring.DISABLE
        self.count += 1
        if self.limit is not None and self.count > self.limit:
            lim, self.limit = self.limit, None
            raise NoProgress(f"the cost-cap loop doubled its cap {self.count} times (bound {lim}) without completing")

    def arm(self, opt_value, cap0, ncomponents):
        self.count = 0
        need = max(0.0, math.log2(max(float(opt_value), 2.0) / max(float(cap0), 1.0)))
        # 4x the doublings needed (a growth factor as small as 2**0.25 per pass stays inside) plus the slack
        self.limit = int(ncomponents * (4 * math.ceil(need) + 1 + 2 * self.SLACK))

    def disarm(self):
        self.limit = None
        return self.count


_CAPMON = None


def capmon():
    global _CAPMON
    if _CAPMON is None:
        _CAPMON = CapLoopMonitor()
    return _CAPMON


def nshards(tier):
    return 16


def classify(v):
    return None


# --------------------------------------------------------------------------- #
#                    the statement's preconditions (own test)                 #
# --------------------------------------------------------------------------- #


def precondition_violation(inputs, output, size_dict):
    """None if the network qualifies for the statement, else the reason."""
    n = len(inputs)
    if n < 2:
        return "fewer than two tensors"
    where = {}
    for i, t in enumerate(inputs):
        if len(t) == 0:
            return "scalar tensor"
        if len(set(t)) != len(t):
            return "repeated index within a tensor"
        for ix in t:
            where.setdefault(ix, set()).add(i)
    if len(set(output)) != len(output):
        return "repeated output index"
    for ix in output:
        if ix not in where:
            return "output index on no input"
    for ix, ts in where.items():
        if len(ts) == 1 and ix not in output:
            return "index confined to one tensor and absent from the output"
        if len(ts) == n:
            return "index shared by all tensors"
        d = size_dict.get(ix)
        if not isinstance(d, int) or d < 1:
            return "bad size"
    if len({frozenset(t) for t in inputs}) != n:
        return "two tensors with the same index set"
    # connectivity through any common index (union-find)
    parent = list(range(n))

    def find(a):
        while parent[a] != a:
            parent[a] = parent[parent[a]]
            a = parent[a]
        return a

    for ts in where.values():
        ts = sorted(ts)
        for b in ts[1:]:
            ra, rb = find(ts[0]), find(b)
            if ra != rb:
                parent[rb] = ra
    if len({find(a) for a in range(n)}) != 1:
        return "disconnected"
    return None


# --------------------------------------------------------------------------- #
#                               generator                                     #
# --------------------------------------------------------------------------- #

SIZE_MODES = ("mixed", "mixed", "mixed", "mixed", "all2", "two_five", "two_three", "two_three", "with_ones")


def _assign_sizes(rng, indices, mode):
    if mode == "all2":
        return {ix: 2 for ix in indices}
    if mode == "two_five":
        return {ix: rng.choice((2, 5)) for ix in indices}
    if mode == "two_three":
        return {ix: rng.choice((2, 3)) for ix in indices}
    if mode == "with_ones":  # size-1 dimensions are not excluded by the statement
        return {ix: rng.choice((1, 2, 2, 3, 4)) for ix in indices}
    return {ix: rng.randint(2, 5) for ix in indices}


def _finish(rng, terms, output, cls, mode=None):
    terms = [list(t) for t in terms]
    for t in terms:
        rng.shuffle(t)
    output = list(output)
    rng.shuffle(output)
    inds = ref.index_order(terms, output)
    mode = mode or rng.choice(SIZE_MODES)
    return gen.Net(terms, output, _assign_sizes(rng, inds, mode), cls)


def _graph(rng, n, hyper):
    base = gen.graph_net(rng, n, hyper=hyper, dmin=2, dmax=5, cap=10**18, p_one=0.0, n_out=rng.randint(0, 3))
    return _finish(rng, base.inputs, base.output, "hyper" if hyper else "graph")


def _dense(rng, n):
    """random incidence structure: every index sits on 1..n-1 tensors"""
    nidx = rng.randint(n - 1, 2 * n)
    terms = [[] for _ in range(n)]
    output = []
    for k in range(nidx):
        ix = gen.symbol(k)
        a = min(n - 1, rng.choice((2, 2, 2, 2, 3, 3, 4)))
        for t in rng.sample(range(n), a):
            terms[t].append(ix)
        if rng.random() < 0.22:
            output.append(ix)
    for j in range(rng.randint(0, 2)):
        ix = gen.symbol(nidx + j)
        terms[rng.randrange(n)].append(ix)
        output.append(ix)
    return _finish(rng, terms, output, "dense")


def _star(rng, n):
    """a hub and spokes with small hub-spoke bonds: cheapest trees often need outer products"""
    terms = [[] for _ in range(n)]
    output = []
    nxt = 0
    small = []
    for s in range(1, n):
        ix = gen.symbol(nxt)
        nxt += 1
        terms[0].append(ix)
        terms[s].append(ix)
        small.append(ix)
        r = rng.random()
        if r < 0.35:
            ox = gen.symbol(nxt)
            nxt += 1
            terms[s].append(ox)
            output.append(ox)
        elif r < 0.5 and s > 1:
            ex = gen.symbol(nxt)
            nxt += 1
            terms[s].append(ex)
            terms[rng.randrange(1, s)].append(ex)
    if rng.random() < 0.4:
        ox = gen.symbol(nxt)
        nxt += 1
        terms[0].append(ox)
        output.append(ox)
    if rng.random() < 0.3 and n >= 4:
        hx = gen.symbol(nxt)
        nxt += 1
        for t in rng.sample(range(1, n), rng.randint(2, min(3, n - 1))):
            terms[t].append(hx)
        if rng.random() < 0.5:
            output.append(hx)
    net = _finish(rng, terms, output, "star")
    if rng.random() < 0.6:
        for ix in small:
            net.size_dict[ix] = rng.choice((2, 2, 3))
    return net


def _ring(rng, n):
    terms = [[] for _ in range(n)]
    output = []
    nxt = 0
    closed = rng.random() < 0.6 and n >= 3
    for k in range(n if closed else n - 1):
        ix = gen.symbol(nxt)
        nxt += 1
        terms[k].append(ix)
        terms[(k + 1) % n].append(ix)
        if rng.random() < 0.15:
            output.append(ix)
    for k in range(n):
        r = rng.random()
        if r < 0.3 or (not closed and k in (0, n - 1) and r < 0.8):
            ix = gen.symbol(nxt)
            nxt += 1
            terms[k].append(ix)
            output.append(ix)
    for _ in range(rng.randint(0, 2)):
        a, b = rng.sample(range(n), 2)
        ix = gen.symbol(nxt)
        nxt += 1
        terms[a].append(ix)
        terms[b].append(ix)
    return _finish(rng, terms, output, "ring")


BUILDERS = ("graph", "graph", "hyper", "hyper", "dense", "dense", "star", "star", "ring")


def gen_network(rng, n, rep=None):
    """A qualifying network with exactly n tensors (None if 300 attempts all got rejected)."""
    for _ in range(300):
        b = rng.choice(BUILDERS)
        if b == "graph":
            net = _graph(rng, n, 0)
        elif b == "hyper":
            net = _graph(rng, n, rng.randint(1, 3))
        elif b == "dense":
            net = _dense(rng, n)
        elif b == "star":
            net = _star(rng, n)
        else:
            net = _ring(rng, n)
        why = precondition_violation(net.inputs, net.output, net.size_dict)
        if why is None and net.N == n:
            return net
        if rep is not None:
            rep.count("generator_rejected", why or "wrong n")
    return None


def features(net):
    where = {}
    for i, t in enumerate(net.inputs):
        for ix in t:
            where.setdefault(ix, set()).add(i)
    return {
        "hyper": any(len(ts) >= 3 for ts in where.values()),
        "shared_output": any(len(where[ix]) >= 2 for ix in net.output),
        "no_output": len(net.output) == 0,
    }


# --------------------------------------------------------------------------- #
#                       exhaustive oracle for one network                     #
# --------------------------------------------------------------------------- #


class Oracle:
    """min of every objective over all trees / all outer-product-free trees, with one
    minimising tree each.  All figures come from ref.Costs."""

    def __init__(self, net):
        self.net = net
        n = net.N
        C = ref.Costs(net.inputs, net.output, net.size_dict, {})
        leaf_inds = [frozenset(t) for t in net.inputs]
        inds_memo = {}
        size_memo = {}
        flops_memo = {}
        share_memo = {}

        def inds(node):
            r = inds_memo.get(node)
            if r is None:
                r = inds_memo[node] = frozenset().union(*(leaf_inds[i] for i in node))
            return r

        nv = len(VALUE_NAMES)
        self.best = {True: [None] * nv, False: [None] * nv}  # outer searched? -> per value (min, children)
        self.varied = {True: [False] * nv, False: [False] * nv}
        first = {True: None, False: None}
        self.ntrees = 0
        self.nfree = 0
        flops_values = set()
        for ch in ref.all_trees(n):
            self.ntrees += 1
            F = W = S = M = 0
            combos = [0] * len(KS)
            limits = [0] * len(KS)
            free = True
            for p, (l, r) in ch.items():
                key = (l, r)
                f = flops_memo.get(key)
                if f is None:
                    C.children = {p: key}
                    f = flops_memo[key] = C.node_flops(p)
                    share_memo[key] = bool(inds(l) & inds(r))
                s = size_memo.get(p)
                if s is None:
                    s = size_memo[p] = C.node_size(p)
                F += f
                W += s
                if s > S:
                    S = s
                if f > M:
                    M = f
                for j, k in enumerate(KS):
                    combos[j] += f + k * s
                    ks = k * s
                    limits[j] += f if f > ks else ks
                if free and not share_memo[key]:
                    free = False
            vals = (F, S, W, M, *combos, *limits)
            flops_values.add(F)
            self.nfree += free
            for outer in (True, False) if free else (True,):
                best = self.best[outer]
                if first[outer] is None:
                    first[outer] = vals
                    for j, v in enumerate(vals):
                        best[j] = (v, ch)
                else:
                    fv = first[outer]
                    var = self.varied[outer]
                    for j, v in enumerate(vals):
                        if v < best[j][0]:
                            best[j] = (v, ch)
                        if v != fv[j]:
                            var[j] = True
        C.children = {}
        self.n_flops_values = len(flops_values)

    def minimum(self, value_name, search_outer):
        b = self.best[bool(search_outer)][VALUE_POS[value_name]]
        return b  # (min, children) or None when no outer-product-free tree exists


def parse_objective(minimize):
    """'flops' | 'size' | 'write' | 'max' | 'combo' | 'combo-<int>' | 'limit' | 'limit-<int>'
    -> (kind, k, name of the oracle value)"""
    if minimize in ("flops", "size", "write", "max"):
        return minimize, None, minimize
    kind, _, k = minimize.partition("-")
    k = int(k) if k else DEFAULT_K
    if kind not in ("combo", "limit") or k not in KS:
        raise ValueError(minimize)
    return kind, k, f"{kind}-{k}"


def cost_of(net, children, kind, k):
    """objective value of a tree, by a fresh instance of the independent model"""
    C = ref.Costs(net.inputs, net.output, net.size_dict, children)
    if kind == "flops":
        return C.total_flops()
    if kind == "size":
        return C.max_size()
    if kind == "write":
        return C.total_write()
    if kind == "max":
        return C.max_flops()
    if kind == "combo":
        return C.combo(k)
    if kind == "limit":
        return C.limit(k)
    raise ValueError(kind)


# --------------------------------------------------------------------------- #
#                           calling the optimal finder                        #
# --------------------------------------------------------------------------- #


def call_entry(net, cfg):
    """-> (form, path_or_children) with form in {'linear', 'ssa', 'children'}"""
    import cotengra as ctg
    from cotengra.pathfinders.path_basic import OptimalOptimizer, optimize_optimal

    inputs = tuple(tuple(t) for t in net.inputs)
    output = tuple(net.output)
    sd = dict(net.size_dict)
    kw = dict(minimize=cfg["minimize"], cost_cap=cfg["cost_cap"], search_outer=bool(cfg["search_outer"]))
    simp = bool(cfg.get("simplify", True))
    e = cfg["entry"]
    if e == "fn":
        use_ssa = bool(cfg.get("use_ssa"))
        p = optimize_optimal(inputs, output, sd, simplify=simp, use_ssa=use_ssa, **kw)
        return ("ssa" if use_ssa else "linear"), p
    if e == "opt_call":
        return "linear", OptimalOptimizer(simplify=simp, **kw)(inputs, output, sd)
    if e == "opt_ssa":
        return "ssa", OptimalOptimizer(simplify=simp, **kw).ssa_path(inputs, output, sd)
    if e == "opt_search":
        tree = OptimalOptimizer(simplify=simp, **kw).search(inputs, output, sd)
        return "children", ct.children_of(tree)
    if e == "opt_kwargs":
        return "linear", OptimalOptimizer()(inputs, output, sd, simplify=simp, **kw)
    if e == "acp_opt":
        opt = OptimalOptimizer(simplify=simp, **kw)
        return "linear", ctg.array_contract_path(inputs, output, sd, optimize=opt, cache=False)
    if e == "preset":
        # presets: 'optimal' = OptimalOptimizer(), 'optimal-outer' = OptimalOptimizer(search_outer=True)
        if cfg["minimize"] != "flops":
            raise ValueError("the presets minimise flops")
        name = "optimal-outer" if cfg["search_outer"] else "optimal"
        return "linear", ctg.array_contract_path(inputs, output, sd, optimize=name, cache=False)
    if e in ("preset_tree", "preset_dp_tree"):
        # the same presets through the TREE interface (a separately registered callable per preset name)
        if cfg["minimize"] != "flops":
            raise ValueError("the presets minimise flops")
        name = "optimal-outer" if cfg["search_outer"] else ("optimal" if e == "preset_tree" else "dp")
        tree = ctg.array_contract_tree(inputs, output, sd, optimize=name)
        return "children", ct.children_of(tree)
    raise ValueError(e)


def to_children(n, form, got):
    """-> (children, ssa_path_for_the_witness, error)"""
    if form == "children":
        children = dict(got)
        err = ref.check_tree_struct(n, children)
        if err:
            return None, None, err
        return children, ref.children_to_ssa(n, children), None
    try:
        path = [tuple(int(i) for i in step) for step in got]
    except Exception as e:
        return None, None, f"path is not a sequence of integer tuples: {e!r}"
    err = ref.check_ssa_path(n, path) if form == "ssa" else ref.check_linear_path(n, path)
    if err:
        return None, path, err
    if any(len(step) != 2 for step in path):
        return None, path, "a step does not contract exactly two tensors"
    ssa = path if form == "ssa" else ref.linear_to_ssa_model(path, n)
    children = ref.ssa_to_children(n, ssa)
    err = ref.check_tree_struct(n, children)
    if err:
        return None, path, err
    return children, path, None


def compare(rep, net, orc, cfg):
    """One comparison.  Returns None or (kind, witness, message)."""
    kind, k, vname = parse_objective(cfg["minimize"])
    outer = bool(cfg["search_outer"])
    m = orc.minimum(vname, outer)
    if m is None:
        rep.count("skipped", "no outer-product-free tree")
        return None
    opt, best_children = m
    # self-check of the memoised enumeration against a fresh model instance
    if cost_of(net, best_children, kind, k) != opt:
        rep.inconclusive_case(f"oracle self-check failed on {net.eq()} {cfg['minimize']}")
        return None
    rep.mon("oracle_selfcheck")
    wit = dict(cfg)
    wit["net"] = net.to_json()
    wit["optimal_cost"] = opt
    wit["optimal_ssa"] = ref.children_to_ssa(net.N, best_children)
    wit["ntrees"] = orc.ntrees
    wit["ntrees_outer_free"] = orc.nfree
    desc = (
        f"{net.eq()} sizes={net.size_dict} minimize={cfg['minimize']} search_outer={outer} "
        f"cost_cap={cfg['cost_cap']} entry={cfg['entry']} use_ssa={cfg.get('use_ssa')} simplify={cfg.get('simplify', True)}"
    )
    cm = capmon()
    if cm.available:
        cm.arm(opt, cfg["cost_cap"], net.N)
    else:
        rep.count("progress_monitor", "unavailable")
    try:
        try:
            with time_limit(CALL_LIMIT):
                form, got = call_entry(net, cfg)
        finally:
            passes = cm.disarm() if cm.available else 0
        if cm.available:
            rep.mon("cap_loop_bounded")
            rep.count("cap_loop_doublings", str(min(passes, 40)))
    except OpTimeout as e:
        rep.inconclusive_case(f"{desc}: {e}")
        return None
    except NoProgress as e:
        wit["returned_path"] = None
        return ("no_return", wit, f"{desc}: {e} (optimum {opt}; a pass whose cap is >= the optimum must complete)")
    except Exception as e:
        wit["returned_path"] = None
        return ("raises", wit, f"{desc}: {type(e).__name__}: {e} | {traceback.format_exc()[-500:]}")
    children, path, err = to_children(net.N, form, got)
    wit["returned_form"] = form
    wit["returned_path"] = path
    if err:
        return ("bad_path", wit, f"{desc}: returned {form} path {path!r:.300} is not a complete binary tree: {err}")
    cost = cost_of(net, children, kind, k)
    wit["returned_cost"] = cost
    rep.mon("optimal_vs_exhaustive")
    rep.mon("outer_searched_cases" if outer else "outer_free_cases")
    rep.count("objective_x_outer", f"{cfg['minimize']}|{'outer' if outer else 'no-outer'}")
    rep.count("entry", cfg["entry"] + ("/ssa" if cfg["entry"] == "fn" and cfg.get("use_ssa") else ""))
    if orc.varied[outer][VALUE_POS[vname]]:
        rep.mon("comparisons_with_>=2_cost_values")
    if cost > opt:
        return (
            "suboptimal",
            wit,
            f"{desc}: returned {form} path {path} costs {cost} but tree ssa={wit['optimal_ssa']} costs {opt} "
            f"(min over {orc.ntrees if outer else orc.nfree} trees)",
        )
    if cost < opt:
        # only possible if the returned tree lies outside the enumerated set
        return (
            "below_restricted_min",
            wit,
            f"{desc}: returned {form} path {path} costs {cost}, below the minimum {opt} over the "
            f"{orc.nfree} outer-product-free trees (the returned tree contains an outer product)",
        )
    return None


# --------------------------------------------------------------------------- #
#                                 workload                                    #
# --------------------------------------------------------------------------- #


def objectives_for(rng, tier):
    objs = ["flops", "size", "write", "max", "combo", "limit"]
    objs += [f"combo-{k}" for k in KS]
    objs += [f"limit-{k}" for k in KS]
    return objs


def run_network(rep, net, cs, tier):
    rng = rng_for(cs, "configs")
    orc = Oracle(net)
    rep.mon("trees_enumerated", orc.ntrees)
    if orc.ntrees != ref.num_trees(net.N):
        rep.inconclusive_case(f"enumeration produced {orc.ntrees} trees for n={net.N}")
        return
    feat = features(net)
    nontrivial = net.N >= 4 and orc.n_flops_values >= 2
    rep.case(net.key(), nontrivial, net.cls, sample={"eq": net.eq(), "sizes": net.size_dict, "trees": orc.ntrees, "outer_free_trees": orc.nfree})
    rep.count("n_tensors", net.N)
    if feat["hyper"]:
        rep.mon("hyper_networks")
    if feat["shared_output"]:
        rep.mon("shared_output_networks")
    if feat["no_output"]:
        rep.mon("scalar_output_networks")
    for j, name in enumerate(VALUE_NAMES[:4]):
        a, b = orc.best[True][j], orc.best[False][j]
        if b is not None and a[0] < b[0]:
            rep.mon("outer_strictly_better:" + name)
    for minimize in objectives_for(rng, tier):
        kind, k, vname = parse_objective(minimize)
        for outer in (False, True):
            m = orc.minimum(vname, outer)
            if m is None:
                rep.count("skipped", "no outer-product-free tree")
                continue
            opt = m[0]
            caps = [("two", 2), ("optimum", opt), ("large", 10**6)]
            if opt - 1 >= 1:
                caps.append(("optimum-1", opt - 1))
            for label, cap in caps:
                entry = rng.choice(ENTRIES)
                cfg = {
                    "minimize": minimize,
                    "search_outer": outer,
                    "cost_cap": cap,
                    "entry": entry,
                    "use_ssa": (rng.random() < 0.5) if entry == "fn" else None,
                    "simplify": rng.random() < 0.7,
                    "case_seed": cs,
                }
                if label == "optimum":
                    rep.mon("cap_at_optimum")
                elif label == "optimum-1":
                    rep.mon("cap_below_optimum")
                rep.count("cost_cap", label)
                _one(rep, net, orc, cfg)
    # the presets (flops, default cap)
    for outer in (False, True):
        for entry in ("preset", "preset_tree", "preset_dp_tree"):
            cfg = {"minimize": "flops", "search_outer": outer, "cost_cap": 2, "entry": entry, "use_ssa": False, "simplify": True, "case_seed": cs}
            rep.count("cost_cap", "two")
            if entry != "preset":
                rep.mon("preset_tree_interface")
            _one(rep, net, orc, cfg)


def _one(rep, net, orc, cfg):
    res = compare(rep, net, orc, cfg)
    if res:
        kind, wit, msg = res
        rep.violation(kind, wit, msg)


def run_shard(rep, tier, seed, shard, nshards):
    dl = Deadline(budget(tier, 32, 420))
    ncases = budget(tier, 1000, 20000)
    if tier == "quick":
        nchoices = (3, 3, 4, 4, 4, 5, 5, 5, 5, 6, 6, 6)
    else:
        nchoices = (3, 4, 4, 5, 5, 5, 6, 6, 6, 6, 7, 7, 7)
    for k in range(ncases):
        if dl.expired():
            break
        cs = f"{seed}/{PID}/{shard}/{k}"
        rng = rng_for(cs)
        n = rng.choice(nchoices)
        net = gen_network(rng, n, rep)
        if net is None:
            rep.count("generator_rejected", "gave up")
            continue
        run_network(rep, net, cs, tier)


def replay(rep, v):
    w = v["witness"]
    net = gen.Net.from_json(w["net"])
    why = precondition_violation(net.inputs, net.output, net.size_dict)
    if why is not None:
        rep.inconclusive_case(f"witness network does not qualify: {why}")
        return
    orc = Oracle(net)
    cfg = {key: w[key] for key in ("minimize", "search_outer", "cost_cap", "entry") if key in w}
    cfg["use_ssa"] = bool(w.get("use_ssa"))
    cfg["simplify"] = bool(w.get("simplify", True))
    cfg["case_seed"] = w.get("case_seed")
    res = compare(rep, net, orc, cfg)
    if res:
        rep.violation(*res)
