"""C07 - the slice finder's predicted costs are real and its targets are honoured.

For every SliceFinder.search() that returns (indices, ContractionCosts): the prediction is
compared with (a) the tree actually sliced on those indices (remove_ind chain) and (b) the
independent cost model evaluated for that removed set; the requested target must hold on the
sliced tree; forbidden indices must not be chosen.  In addition every cached ContractionCosts
in sf.costs (hundreds of index sets per search, not only the winner) is compared with the
model.  tree.slice(...) post-conditions are checked the same way.
"""

import random
import traceback

from cotengra.slicer import SliceFinder

from .. import ct, gen, ref
from ..common import Deadline, budget, rng_for

PID = "C07"
LEVEL = "exploration"
RULE = (
    "networks from 8 classes (3-10 tensors) x random trees, optionally pre-sliced / pre-projected / annealed x "
    "target kind (size | slices | overhead) x value grid x allow_outer in {True, False, 'only'} x 5 objectives x "
    "temperature in {0, 0.01, 1} x seeds x repeats in {1, 4, 16}; after each search also best(k in {1,2,3,5,8}) with an "
    "optional per-call target override; distinct = distinct (network, tree, pre-removed, "
    "options); non-trivial = the search returned >=1 index"
)
ASSUMPTIONS = ["the independent cost model is the definition of the sliced tree's figures"]
REQUIRED_MONITORS = ["prediction_vs_sliced_tree", "prediction_vs_model", "cached_sets_vs_model", "target_honoured", "forbidden_respected", "tree_slice_postcondition", "tree_reslice_postcondition", "presliced_trees", "best_k_lists", "best_k_vs_model", "per_call_targets"]
SHARD_TIMEOUT = {"quick": 400, "thorough": 3600}
MINIMIZE = ("flops", "size", "write", "combo", "limit")


def nshards(tier):
    return 16


def classify(v):
    return None


def model_for(tree, extra):
    rem, ns = ct.removed_of(tree)
    ns = dict(ns)
    for ix in extra:
        ns[ix] = tree.size_dict[ix]
    return ref.Costs(tree.inputs, tree.output, tree.size_dict, ct.children_of(tree), removed=[ix for ix, _ in rem] + list(extra), nslices_of=ns)


def ct_copy(tree):
    from ..sanitizer import snapshot

    return snapshot(tree)


def check_reslice(rep, net, tree, o, kw, inplace):
    """tree.slice(reslice=True) on an already sliced tree: the existing slices are removed first and
    the search starts again.  Post-conditions on the RETURNED tree: its own figures are true (model),
    target_size holds; target_slices is documented to be 'on top of the current number of slices';
    the overhead is relative to the unsliced tree the search starts from."""
    before_mult = tree.multiplicity
    unsliced = ct_copy(tree)
    unsliced.unslice_all_()
    base_flops = ct.costs_of(unsliced).total_flops()
    src = ct_copy(tree) if inplace else tree
    try:
        t = (src.slice_ if inplace else src.slice)(max_repeats=o["max_repeats"], reslice=True, **kw)
    except (RuntimeError, ValueError, KeyError) as e:
        rep.count("outcome_tree_reslice", f"refused:{type(e).__name__}")
        return None
    rep.mon("tree_reslice_postcondition")
    m = ct.costs_of(t)
    if dict(t.contract_stats()) != {"flops": m.total_flops(), "write": m.total_write(), "size": m.max_size()}:
        return ("tree_slice", f"tree.slice(reslice=True) -> stats {dict(t.contract_stats())} != model")
    if any(si.project is not None for si in tree.sliced_inds.values()):
        return None  # projected indices are restored by the reslice as well: only the self-consistency above is asserted
    if o.get("target_size") is not None and m.max_size() > o["target_size"]:
        return ("tree_slice", f"tree.slice(reslice=True, target_size={o['target_size']}, inplace={inplace}) on a tree sliced on {list(tree.sliced_inds)} -> size {m.max_size()} (sliced {list(t.sliced_inds)})")
    if o.get("target_slices") is not None and m.mult < o["target_slices"] * before_mult:
        return ("tree_slice", f"tree.slice(reslice=True, target_slices={o['target_slices']}) from {before_mult} slices -> only {m.mult}")
    if o.get("target_overhead") is not None and m.total_flops() > o["target_overhead"] * base_flops * (1 + 1e-12):
        return ("tree_slice", f"tree.slice(reslice=True, target_overhead={o['target_overhead']}) -> overhead {m.total_flops() / base_flops} over the unsliced tree")
    if o["allow_outer"] is False and any(ix in net.output for ix in t.sliced_inds):
        return ("tree_slice", f"tree.slice(reslice=True, allow_outer=False) sliced output index {list(t.sliced_inds)}")
    if not inplace and (list(tree.sliced_inds) != list(src.sliced_inds) or tree.multiplicity != before_mult):
        return ("tree_slice", "tree.slice(reslice=True, inplace=False) modified the tree it was called on")
    return None


def check_best_k(rep, net, tree, sf, o, base_flops, base_mult, r):
    """every slicing returned by SliceFinder.best(k=..., [per-call targets]) after a search: predictions
    are real (model), the targets in force for that call hold on the model, forbidden indices absent."""
    k = r.choice([1, 2, 3, 5, 8])
    over = {}
    if r.random() < 0.5:
        which = r.choice(["target_size", "target_overhead", "target_slices"])
        if which == "target_size":
            over[which] = max(1, tree.max_size() // r.choice([1, 2, 4, 16]))
        elif which == "target_overhead":
            over[which] = r.choice([1.0, 1.2, 2.0, 8.0])
        else:
            over[which] = r.choice([1, 2, 4, 9])
    try:
        got = sf.best(k=k, **over)
    except (RuntimeError, ValueError, KeyError) as e:
        rep.count("outcome_best_k", f"refused:{type(e).__name__}")
        return None
    eff = {t: over.get(t, o.get(t)) for t in ("target_size", "target_overhead", "target_slices")}
    if len(got) > k:
        return ("best_k", f"best(k={k}) returned {len(got)} slicings")
    for rank, (ixs, cost) in enumerate(got):
        rep.mon("best_k_entries")
        msg = check_prediction(rep, tree, base_flops, ixs, cost, "best_k_vs_model")
        if msg:
            return ("best_k", f"best(k={k}, {over})[{rank}]: {msg}")
        m = model_for(tree, ixs)
        if eff["target_size"] is not None and m.max_size() > eff["target_size"]:
            return ("best_k", f"best(k={k}, {over})[{rank}] sliced {sorted(ixs)}: size {m.max_size()} > target_size {eff['target_size']}")
        if eff["target_slices"] is not None and m.mult // base_mult < eff["target_slices"]:
            return ("best_k", f"best(k={k}, {over})[{rank}] sliced {sorted(ixs)}: {m.mult // base_mult} new slices < target_slices {eff['target_slices']}")
        if eff["target_overhead"] is not None and m.total_flops() > eff["target_overhead"] * base_flops * (1 + 1e-12):
            return ("best_k", f"best(k={k}, {over})[{rank}] sliced {sorted(ixs)}: overhead {m.total_flops() / base_flops} > target_overhead {eff['target_overhead']}")
        if o["allow_outer"] is False and any(ix in net.output for ix in ixs):
            return ("best_k", f"best(k={k})[{rank}]: allow_outer=False but output index in {sorted(ixs)}")
        if o["allow_outer"] == "only" and any(ix not in net.output for ix in ixs):
            return ("best_k", f"best(k={k})[{rank}]: allow_outer='only' but inner index in {sorted(ixs)}")
    if got:
        rep.mon("best_k_lists")
    return None


def build(case):
    net = gen.Net.from_json(case["net"])
    tree = ct.make_tree(net, case["ssa"])
    if case.get("anneal"):
        tree.simulated_anneal_(tsteps=2, numiter=2, seed=case["anneal"])
    for ix, proj in case["pre"]:
        tree.remove_ind_(ix, project=proj)
    return net, tree


def check_prediction(rep, tree, base_flops, ix_set, cost, label):
    m = model_for(tree, ix_set)
    if tree.N < 2:
        return None
    want = (m.max_size(), m.mult, m.total_flops())
    got = (cost.size, cost.nslices * tree.multiplicity, cost.total_flops * tree.multiplicity)
    rep.mon(label)
    if got != want:
        return f"slicing {sorted(ix_set)}: predicted (size, total slices, total flops) {got} != model {want}"
    if abs(cost.overhead - m.total_flops() / base_flops) > 1e-9 * max(1.0, cost.overhead):
        return f"slicing {sorted(ix_set)}: predicted overhead {cost.overhead} != {m.total_flops() / base_flops}"
    return None


def execute(rep, case):
    net, tree = build(case)
    o = case["opts"]
    random.seed(case["case_seed"])
    base_flops = tree.total_flops()
    base_mult = tree.multiplicity
    if case["pre"]:
        rep.mon("presliced_trees")
    kw = dict(
        target_size=o.get("target_size"), target_overhead=o.get("target_overhead"), target_slices=o.get("target_slices"),
        temperature=o["temperature"], minimize=o["minimize"], allow_outer=o["allow_outer"], seed=o["seed"],
    )
    try:
        if o.get("per_call"):
            # the documented override: targets (and the temperature) given to search() itself; the constructor
            # holds only a weak decoy target (at least 1 new slice), which every slicing meets
            rep.mon("per_call_targets")
            ctor = dict(kw, target_size=None, target_overhead=None, target_slices=1, temperature=0.5)
            sf = SliceFinder(tree, **ctor)
            res = sf.search(
                o["max_repeats"], temperature=o["temperature"],
                **{t: o[t] for t in ("target_size", "target_overhead", "target_slices") if o.get(t) is not None},
            )
            if not (isinstance(res, tuple) and len(res) == 2 and not isinstance(res[0], tuple)):
                return ("per_call", f"search(<per-call targets>) returned {type(res).__name__} {str(res)[:120]} instead of (indices, costs)"), True
            ix_sl, cost = res
        else:
            sf = SliceFinder(tree, **kw)
            ix_sl, cost = sf.search(o["max_repeats"])
    except (RuntimeError, ValueError, KeyError) as e:
        rep.count("outcome", f"refused:{type(e).__name__}:{str(e)[:40]}")
        return None, False
    rep.count("outcome", "returned")
    ix_sl = list(ix_sl)

    # forbidden indices
    rep.mon("forbidden_respected")
    if o["allow_outer"] is False and any(ix in net.output for ix in ix_sl):
        return ("forbidden", f"allow_outer=False but output index chosen: {ix_sl}"), True
    if o["allow_outer"] == "only" and any(ix not in net.output for ix in ix_sl):
        return ("forbidden", f"allow_outer='only' but inner index chosen: {ix_sl}"), True

    # the tree actually sliced
    t2 = tree.copy()
    try:
        for ix in ix_sl:
            t2.remove_ind_(ix)
    except Exception as e:
        return ("unsliceable", f"returned indices {ix_sl} cannot be removed from the tree: {type(e).__name__}: {e}"), True
    stats = t2.contract_stats()
    rep.mon("prediction_vs_sliced_tree")
    got = (cost.size, cost.nslices * base_mult, cost.total_flops * base_mult)
    want = (stats["size"], t2.multiplicity, stats["flops"])
    if got != want:
        return ("prediction", f"sliced on {ix_sl}: predicted (size, total slices, total flops) {got} != sliced tree {want}"), True
    msg = check_prediction(rep, tree, base_flops, frozenset(ix_sl), cost, "prediction_vs_model")
    if msg:
        return ("prediction", msg), True

    # targets, on the sliced tree, measured by the independent model
    m = model_for(tree, ix_sl)
    rep.mon("target_honoured")
    if o.get("target_size") is not None and m.max_size() > o["target_size"]:
        return ("target", f"target_size {o['target_size']} but sliced tree has size {m.max_size()} ({ix_sl})"), True
    if o.get("target_slices") is not None and m.mult // base_mult < o["target_slices"]:
        return ("target", f"target_slices {o['target_slices']} but only {m.mult // base_mult} new slices ({ix_sl})"), True
    if o.get("target_overhead") is not None and m.total_flops() > o["target_overhead"] * base_flops * (1 + 1e-12):
        return ("target", f"target_overhead {o['target_overhead']} but overhead is {m.total_flops() / base_flops} ({ix_sl})"), True

    # every cached slicing
    items = list(sf.costs.items())
    r = rng_for(case["case_seed"], "cached")
    if len(items) > 24:
        items = r.sample(items, 24)
    for ixs, c in items:
        msg = check_prediction(rep, tree, base_flops, ixs, c, "cached_sets_vs_model")
        if msg:
            return ("cached_prediction", msg), True

    # best(k=...) and per-call target overrides: "whenever the slice search returns a set of indices"
    # also covers the ranked list a caller asks for after the search
    # best() falls back on the CONSTRUCTOR's targets
    o_ctor = dict(o, target_size=None, target_overhead=None, target_slices=1) if o.get("per_call") else o
    res = check_best_k(rep, net, tree, sf, o_ctor, base_flops, base_mult, rng_for(case["case_seed"], "best_k"))
    if res:
        return res, True

    # tree.slice post-conditions (also: reslice=True, which first removes the existing slices,
    # and the in-place variant on a copy)
    r2 = rng_for(case["case_seed"], "slice_variant")
    reslice = bool(tree.sliced_inds) and r2.random() < 0.5
    inplace = r2.random() < 0.4
    try:
        if reslice:
            res = check_reslice(rep, net, tree, o, kw, inplace)
            if res:
                return res, True
        t3 = (ct_copy(tree).slice_ if inplace else tree.slice)(max_repeats=o["max_repeats"], **kw)
    except (RuntimeError, ValueError, KeyError) as e:
        rep.count("outcome_tree_slice", f"refused:{type(e).__name__}")
        return None, bool(ix_sl)
    rep.mon("tree_slice_postcondition")
    m3 = ct.costs_of(t3)
    new = [ix for ix in t3.sliced_inds if ix not in tree.sliced_inds]
    if dict(t3.contract_stats()) != {"flops": m3.total_flops(), "write": m3.total_write(), "size": m3.max_size()}:
        return ("tree_slice", f"tree.slice -> stats {dict(t3.contract_stats())} != model"), True
    if o.get("target_size") is not None and m3.max_size() > o["target_size"]:
        return ("tree_slice", f"tree.slice(target_size={o['target_size']}) -> size {m3.max_size()}"), True
    if o.get("target_slices") is not None and m3.mult // base_mult < o["target_slices"]:
        return ("tree_slice", f"tree.slice(target_slices={o['target_slices']}) -> {m3.mult // base_mult} new slices"), True
    if o.get("target_overhead") is not None and m3.total_flops() > o["target_overhead"] * base_flops * (1 + 1e-12):
        return ("tree_slice", f"tree.slice(target_overhead={o['target_overhead']}) -> overhead {m3.total_flops() / base_flops}"), True
    if o["allow_outer"] is False and any(ix in net.output for ix in new):
        return ("tree_slice", f"tree.slice(allow_outer=False) sliced output index {new}"), True
    if o["allow_outer"] == "only" and any(ix not in net.output for ix in new):
        return ("tree_slice", f"tree.slice(allow_outer='only') sliced inner index {new}"), True
    return None, bool(ix_sl)


def gen_case(rng, cs, tier):
    net = gen.network(rng, 3, budget(tier, 10, 14), cap=10**9, classes=("graph", "graph", "hyper", "perverse", "batch", "chain", "lattice", "disconnected", "hadamard"))
    ssa = gen.random_ssa(rng, net.N)
    inds = [ix for ix in net.size_dict if any(ix in t for t in net.inputs)]
    pre = []
    if rng.random() < 0.35:
        for ix in rng.sample(inds, min(len(inds), rng.randint(1, 2))):
            pre.append((ix, rng.randrange(net.size_dict[ix]) if rng.random() < 0.3 else None))
    tree = ct.make_tree(net, ssa)
    size = tree.max_size()
    opts = {
        "temperature": rng.choice([0, 0.01, 1.0]),
        "minimize": rng.choice(MINIMIZE),
        "allow_outer": rng.choice([True, True, False, "only"]),
        "seed": rng.randrange(10**6),
        "max_repeats": rng.choice([1, 4, 16]),
        "per_call": rng.random() < 0.3,
    }
    kind = rng.choice(["size", "slices", "overhead", "size+overhead"])
    if "size" in kind:
        opts["target_size"] = max(1, size // rng.choice([2, 3, 4, 8, 32]))
    if kind == "slices":
        opts["target_slices"] = rng.choice([2, 3, 4, 8, 20])
    if "overhead" in kind:
        opts["target_overhead"] = rng.choice([1.0, 1.01, 1.5, 2.0, 4.0])
    return {"net": net.to_json(), "ssa": ssa, "pre": pre, "anneal": rng.randrange(1, 999) if rng.random() < 0.25 else 0, "opts": opts, "case_seed": cs}


def run_shard(rep, tier, seed, shard, nshards):
    dl = Deadline(budget(tier, 45, 500))
    for k in range(budget(tier, 6000, 100000)):
        if dl.expired():
            break
        cs = f"{seed}/C07/{shard}/{k}"
        case = gen_case(rng_for(cs), cs, tier)
        net = gen.Net.from_json(case["net"])
        try:
            res, nontrivial = execute(rep, case)
        except Exception as e:
            res, nontrivial = ("raises", f"{type(e).__name__}: {e} | {traceback.format_exc()[-500:]}"), True
        rep.case((net.key(), tuple(map(tuple, case["ssa"])), tuple(map(tuple, case["pre"])), repr(sorted(case["opts"].items()))), nontrivial, net.cls,
                 sample={"eq": net.eq(), "ssa": case["ssa"], "pre": case["pre"], "opts": case["opts"]})
        if res:
            rep.violation(res[0], case, f"{net.eq()} pre={case['pre']} opts={case['opts']}: {res[1]}")


def replay(rep, v):
    res, _ = execute(rep, v["witness"])
    if res:
        rep.violation(res[0], v["witness"], res[1])
