"""C08 - the hyper-optimizer returns its best trial and reports that trial's true costs.

Recorded history: a wrapper on HyperOptimizer._maybe_report_result (the boundary where a finished
trial is reported) logs every trial in report order.  Offline checks on the log:
  H1  #trials <= max_repeats and opt.scores == the logged scores in report order
  H2  opt.best is the logged trial with the minimum score (first in report order on ties)
  H3  the returned tree is a complete tree of the queried network
  H4  best['flops'|'write'|'size'] == returned tree's contract_stats() == independent cost model
      (also for every other successful trial that carries a tree) - after post-processing
  H5  failing trials (a registered method that raises / raises BadTrial by script) are skipped:
      the same seeds with and without the faults give the same costs for the surviving trials and
      best is the arg-min over the survivors
Executors: serial; ScriptedPool (vf/sched.py) forcing completion orders - every permutation when
all trials fit in the pre-dispatch window (<=5), seeded orders beyond; a real thread pool;
(thorough) loky / concurrent.futures process pools.
"""

import itertools
import traceback
import warnings

import cotengra as ctg
from cotengra.hyperoptimizers import hyper as _hyper
from cotengra.utils import BadTrial

from .. import ct, gen, ref, sched
from ..common import Deadline, OpTimeout, budget, rng_for, time_limit

PID = "C08"
LEVEL = "exploration"
RULE = (
    "networks of 6-16 tensors x method subsets of {greedy, random-greedy, labels, kahypar, random, verif-faulty} x "
    "objective in {flops,size,write,combo,limit} x post-processing in {none, slicing_opts, reconf_opts, "
    "slicing_reconf_opts, simulated_annealing_opts(+target_size)} x executor in {serial, scripted pool with forced "
    "completion order, thread pool, (thorough) process pools} x max_repeats 1-12 x max_time; distinct = distinct "
    "(network, methods, objective, post-processing, executor, completion order); non-trivial = >=3 trials reported"
)
ASSUMPTIONS = [
    "optlib='random' (seeded) for the with/without-fault comparison; cmaes also exercised for H1-H4",
    "process pools are non-deterministic stress only",
]
REQUIRED_MONITORS = ["H1_count", "H2_best_is_min", "H3_tree_of_query", "H4_costs_true", "H5_faults_skipped", "scripted_orders", "threadpool_runs",
                     "post:none", "post:slicing", "post:reconf", "post:slicing_reconf", "post:anneal", "post:stacked"]
SHARD_TIMEOUT = {"quick": 500, "thorough": 5400}

FAULT = {"calls": 0, "fail_at": {}, "on": False}


def faulty_method(inputs, output, size_dict, k=0, **kw):
    FAULT["calls"] += 1
    how = FAULT["fail_at"].get(FAULT["calls"]) if FAULT["on"] else None
    # the work is done first, so that a failing trial consumes exactly the same global randomness
    # as a succeeding one (the greedy method jitters sizes with the global generator by design) and
    # the with/without-fault runs stay comparable
    tree = _hyper._PATH_FNS["greedy"](inputs, output, size_dict, random_strength=0.01 * (k % 7), temperature=0.0, costmod=1.0)
    if how == "raise":
        raise RuntimeError("verif: scripted trial failure")
    if how == "bad":
        raise BadTrial
    return tree


def install():
    if "verif-faulty" not in _hyper._PATH_FNS:
        _hyper.register_hyper_function("verif-faulty", faulty_method, {"k": {"type": "INT", "min": 0, "max": 1000}})


def nshards(tier):
    return 16


def classify(v):
    return None


POSTS = ("none", "slicing", "reconf", "slicing_reconf", "anneal", "anneal_sliced",
         # stacked options: each wrapper must leave the figures of the FINAL tree in the trial
         "slicing+reconf", "anneal+slicing", "slicing_reconf+reconf", "anneal+slicing+reconf")


def post_opts(post, tree_size):
    if "+" in post:
        out = {}
        for part in post.split("+"):
            out.update(post_opts(part, tree_size))
        return out
    tgt = max(1, tree_size // 4)
    if post == "slicing":
        return {"slicing_opts": {"target_size": tgt, "max_repeats": 2}}
    if post == "reconf":
        return {"reconf_opts": {"subtree_size": 4, "maxiter": 3}}
    if post == "slicing_reconf":
        return {"slicing_reconf_opts": {"target_size": tgt, "max_repeats": 2, "reconf_opts": {"subtree_size": 3, "maxiter": 2}}}
    if post == "anneal":
        return {"simulated_annealing_opts": {"tsteps": 2, "numiter": 2, "seed": 7}}
    if post == "anneal_sliced":
        return {"simulated_annealing_opts": {"tsteps": 2, "numiter": 2, "seed": 7, "target_size": tgt}}
    return {}


def run_search(case, executor, order=None, faults=False, log=None):
    """-> (opt, tree_or_exception, pool)"""
    net = gen.Net.from_json(case["net"])
    FAULT["calls"] = 0
    FAULT["on"] = faults
    FAULT["fail_at"] = {int(k): v for k, v in case.get("fail_at", {}).items()}
    kw = dict(
        methods=case["methods"], minimize=case["minimize"], max_repeats=case["max_repeats"], max_time=case.get("max_time"),
        optlib=case["optlib"], on_trial_error="ignore", progbar=False,
    )
    if case["optlib"] == "random":
        kw["seed"] = case["opt_seed"]
    kw.update(post_opts(case["post"], case["tree_size"]))
    pool = None
    if executor == "serial":
        kw["parallel"] = False
    elif executor == "scripted":
        pool = sched.ScriptedPool(order, max_workers=1)
        kw["parallel"] = pool
    elif executor == "threads":
        import concurrent.futures

        pool = concurrent.futures.ThreadPoolExecutor(3)
        kw["parallel"] = pool
    elif executor in ("loky", "concurrent.futures"):
        kw["parallel"] = executor
    opt = ctg.HyperOptimizer(**kw)
    orig = opt._maybe_report_result

    def recording(setting, trial):
        if log is not None:
            log.append({"t": len(log), "method": setting["method"], "params": dict(setting["params"]), "trial": trial})
        return orig(setting, trial)

    opt._maybe_report_result = recording
    import random

    random.seed(case["case_seed"])
    if executor in ("serial", "scripted"):
        # trial functions draw from the global generator (greedy jitter, the 'random' method, the slice
        # finder): pin its state at the start of every trial, so that a trial's outcome is a function of
        # its own setting and not of how much randomness earlier (possibly failing) trials consumed.
        # In these two executors the trial runs immediately after its setting is requested.
        get_setting = opt._optimizer["get_setting"]
        counter = {"n": 0}

        def seeded_get_setting(self_):
            setting = get_setting(self_)
            counter["n"] += 1
            random.seed(f"{case['case_seed']}/trial/{counter['n']}")
            return setting

        opt._optimizer = dict(opt._optimizer, get_setting=seeded_get_setting)
    try:
        res = opt.search(net.inputs, net.output, net.size_dict)
    except Exception as e:
        res = e
    finally:
        if executor == "threads":
            pool.shutdown(wait=True)
    return opt, res, pool


def check_log(rep, case, net, opt, res, log, label):
    finite = [e for e in log if e["trial"]["score"] < float("inf")]
    # H1
    rep.mon("H1_count")
    if len(log) > case["max_repeats"]:
        return ("H1", f"{label}: {len(log)} trials reported for max_repeats={case['max_repeats']}")
    if list(opt.scores) != [e["trial"]["score"] for e in log]:
        return ("H1", f"{label}: opt.scores is not the sequence of reported trial scores")
    if len(opt.costs_flops) != len(log) or len(opt.method_choices) != len(log):
        return ("H1", f"{label}: per-trial records have inconsistent lengths")
    if not finite:
        if not isinstance(res, Exception):
            return ("H3", f"{label}: search returned {res!r} although every trial failed")
        return None
    if isinstance(res, Exception):
        return ("raises", f"{label}: search raised {type(res).__name__}: {res} with {len(finite)} successful trials")
    # H2
    rep.mon("H2_best_is_min")
    best_entry = min(finite, key=lambda e: (e["trial"]["score"], e["t"]))
    if opt.best is not best_entry["trial"]:
        got = next((e["t"] for e in log if e["trial"] is opt.best), None)
        return ("H2", f"{label}: best is reported trial #{got} (score {opt.best.get('score')}), minimum is #{best_entry['t']} (score {best_entry['trial']['score']}); scores={[round(e['trial']['score'], 6) for e in log]}")
    if opt.best["score"] != min(opt.scores):
        return ("H2", f"{label}: best score {opt.best['score']} != min(scores) {min(opt.scores)}")
    if res is not opt.best.get("tree"):
        return ("H2", f"{label}: returned tree is not the best trial's tree")
    if opt.best["params"].get("method") != best_entry["method"]:
        return ("H2", f"{label}: best params name method {opt.best['params'].get('method')} but the best trial used {best_entry['method']}")
    for k_, v_ in best_entry["params"].items():
        if opt.best["params"].get(k_) != v_:
            return ("H2", f"{label}: best['params'][{k_}] is not the winning trial's setting")
    # H3
    rep.mon("H3_tree_of_query")
    tree = res
    if tuple(map(tuple, tree.inputs)) != net.inputs or tuple(tree.output) != net.output:
        return ("H3", f"{label}: returned tree is not over the queried network")
    msg = ref.check_tree_struct(net.N, ct.children_of(tree))
    if msg:
        return ("H3", f"{label}: returned tree: {msg}")
    # H4 (all successful trials with a tree, the winner first)
    for e in [best_entry] + [x for x in finite if x is not best_entry]:
        t = e["trial"]
        tr = t.get("tree")
        if tr is None:
            continue
        rep.mon("H4_costs_true")
        stats = dict(tr.contract_stats())
        rec = {k: t[k] for k in ("flops", "write", "size")}
        m = ct.costs_of(tr)
        model = {"flops": m.total_flops(), "write": m.total_write(), "size": m.max_size()}
        if rec != stats:
            return ("H4", f"{label}: trial #{e['t']} ({e['method']}) recorded {rec} but its tree reports {stats}")
        if stats != model:
            return ("H4_tree_misreports", f"{label}: trial #{e['t']} tree reports {stats}, independent model {model}")
        i = e["t"]
        if (opt.costs_flops[i], opt.costs_write[i], opt.costs_size[i]) != (rec["flops"], rec["write"], rec["size"]):
            return ("H4", f"{label}: optimizer's per-trial cost lists disagree with trial #{i}")
    return None


def trial_sig(e):
    t = e["trial"]
    return (e["method"], tuple(sorted((k, repr(v)) for k, v in e["params"].items())), t.get("flops"), t.get("write"), t.get("size"))


def execute(rep, case):
    install()
    net = gen.Net.from_json(case["net"])
    ex = case["executor"]
    for part in case["post"].split("+"):
        rep.mon("post:" + {"anneal_sliced": "anneal"}.get(part, part))
    if "+" in case["post"]:
        rep.mon("post:stacked")
    if ex == "scripted":
        n = case["max_repeats"]
        if case.get("perm") is not None:
            orders = [case["perm"]]
        elif n <= 5:
            orders = list(itertools.permutations(range(n)))
            if case.get("max_orders") and len(orders) > case["max_orders"]:
                r = rng_for(case["case_seed"], "orders")
                orders = r.sample(orders, case["max_orders"])
        else:
            r = rng_for(case["case_seed"], "orders")
            orders = []
            for _ in range(case.get("max_orders", 8)):
                p = list(range(n))
                r.shuffle(p)
                orders.append(p)
        base_sigs = None
        for perm in orders:
            log = []
            opt, res, pool = run_search(case, "scripted", order=sched.order_from_permutation(list(perm)), faults=bool(case.get("fail_at")), log=log)
            rep.mon("scripted_orders")
            rep.seen("completion_orders", tuple(pool.completion_order))
            bad = check_log(rep, case, net, opt, res, log, f"completion order {pool.completion_order}")
            if bad:
                return bad[0], bad[1], {"perm": list(perm)}
            if case.get("max_time") is None:
                sigs = sorted(map(repr, map(trial_sig, log)))
                if base_sigs is None:
                    base_sigs = sigs
                elif case["optlib"] == "random" and sigs != base_sigs:
                    return "order_dependence", f"the set of trial records changed with the completion order {pool.completion_order}", {"perm": list(perm)}
        return None
    log = []
    opt, res, _ = run_search(case, ex, faults=bool(case.get("fail_at")), log=log)
    if ex == "threads":
        rep.mon("threadpool_runs")
    if ex in ("loky", "concurrent.futures"):
        rep.mon("processpool_runs")
    bad = check_log(rep, case, net, opt, res, log, ex)
    if bad:
        return bad[0], bad[1], {}
    # H5: with / without faults
    if case.get("fail_at") and ex == "serial" and case["optlib"] == "random" and case.get("max_time") is None:
        log_b = []
        opt_b, res_b, _ = run_search(case, ex, faults=False, log=log_b)
        rep.mon("H5_faults_skipped")
        if len(log_b) != len(log):
            return "H5", f"{len(log)} trials with faults vs {len(log_b)} without", {}
        nfail = 0
        for a, b in zip(log, log_b):
            if (a["method"], a["params"]) != (b["method"], b["params"]):
                return "H5", f"trial #{a['t']}: settings differ with/without faults", {}
            if a["trial"]["score"] == float("inf") and b["trial"]["score"] < float("inf"):
                nfail += 1
                continue
            if trial_sig(a) != trial_sig(b):
                return "H5", f"trial #{a['t']} ({a['method']}): costs {trial_sig(a)[2:]} with faults elsewhere vs {trial_sig(b)[2:]} without", {}
        rep.count("faults_injected", nfail)
    return None


def gen_case(rng, cs, tier):
    install()
    net = gen.network(rng, 6, budget(tier, 14, 20), cap=10**12, classes=("graph", "graph", "hyper", "lattice", "chain", "batch", "disconnected", "perverse"))
    methods = rng.sample(["greedy", "random-greedy", "labels", "kahypar", "random", "verif-faulty"], rng.randint(1, 3))
    tree = ct.make_tree(net, gen.random_ssa(rng, net.N))
    case = {
        "net": net.to_json(), "methods": methods, "minimize": rng.choice(["flops", "size", "write", "combo", "limit"]),
        "post": rng.choice(POSTS), "tree_size": tree.max_size(), "max_repeats": rng.randint(1, 12),
        "optlib": rng.choice(["random", "random", "random", "cmaes"]), "opt_seed": rng.randrange(10**6),
        "max_time": rng.choice([None, None, None, "equil:2", "rate:1e9"]), "case_seed": cs,
        "executor": rng.choice(["serial", "serial", "scripted", "scripted", "threads"]),
    }
    if "verif-faulty" in methods:
        case["fail_at"] = {str(rng.randint(1, 6)): rng.choice(["raise", "bad"]) for _ in range(rng.randint(1, 3))}
    if case["executor"] == "scripted":
        case["max_repeats"] = rng.choice([2, 3, 4, 5, 5, 8, 12])
        case["max_orders"] = budget(tier, 12, 120)
    if tier == "thorough" and rng.random() < 0.06:
        case["executor"] = rng.choice(["loky", "concurrent.futures"])
        case["methods"] = [m for m in methods if m != "verif-faulty"] or ["greedy"]
        case.pop("fail_at", None)
    return case


def run_shard(rep, tier, seed, shard, nshards):
    warnings.filterwarnings("ignore")
    dl = Deadline(budget(tier, 60, 900))
    for k in range(budget(tier, 250, 6000)):
        if dl.expired():
            break
        cs = f"{seed}/C08/{shard}/{k}"
        rng = rng_for(cs)
        case = gen_case(rng, cs, tier)
        if k < 2:
            # make sure the fault comparison is exercised in every shard
            case.update(executor="serial", optlib="random", max_time=None, methods=["verif-faulty", "greedy"], fail_at={"1": "raise", "3": "bad"}, max_repeats=8)
        net = gen.Net.from_json(case["net"])
        try:
            with time_limit(120):
                res = execute(rep, case)
        except OpTimeout as e:
            rep.inconclusive_case(str(e))
            continue
        except Exception as e:
            res = ("harness", f"{type(e).__name__}: {e} | {traceback.format_exc()[-600:]}", {})
        rep.case((net.key(), tuple(case["methods"]), case["minimize"], case["post"], case["executor"], case["max_repeats"], case["optlib"], case.get("max_time"), repr(case.get("fail_at"))),
                 case["max_repeats"] >= 3, net.cls,
                 sample={k_: v_ for k_, v_ in case.items() if k_ != "net"} | {"eq": net.eq() if net.N < 10 else f"{net.N} tensors"})
        rep.count("executor", case["executor"])
        rep.count("matrix", f"{case['post']}|{case['executor']}|{case['minimize']}")
        if res:
            if res[0] == "harness":
                rep.inconclusive_case(res[1])
                continue
            w = dict(case)
            w.update(res[2])
            rep.violation(res[0], w, f"methods={case['methods']} post={case['post']} executor={case['executor']} minimize={case['minimize']}: {res[1]}")


def replay(rep, v):
    res = execute(rep, v["witness"])
    if res:
        rep.violation(res[0], v["witness"], res[1])
