"""C08 - the hyper-optimizer returns its best trial and reports that trial's true costs.

Recorded history: a wrapper on HyperOptimizer._maybe_report_result (the boundary where a finished
trial is reported) logs every trial in report order.  Offline checks on the log:
  H1  #trials <= max_repeats and opt.scores == the logged scores in report order
  H2  opt.best is the logged trial with the minimum score (first in report order on ties)
  H3  the returned tree is a complete tree of the queried network
  H4  best['flops'|'write'|'size'] == returned tree's contract_stats() == independent cost model
      (also for every other successful trial that carries a tree) - after post-processing
  H5  failing trials (a registered method that raises / raises BadTrial by script) are skipped:
      the same seeds with and without the faults give the same costs for the surviving trials and
      best is the arg-min over the survivors
Executors: serial; ScriptedPool (vf/sched.py) forcing completion orders - every permutation when
all trials fit in the pre-dispatch window (<=5), seeded orders beyond; a real thread pool;
(thorough) loky / concurrent.futures process pools.

Widened (the ways a user READS "the figures it records", and configurations never driven before):
  S1  every successful trial's score is the score of ITS tree: |score - objective(tree)**score_compression|
      <= 1e-5 (the smudge), objective(tree) from the independent cost model (flops/write/size/combo/limit,
      also given as Objective instances with non-default parameters, and a plain function log2(flops) of the
      trial - for which H4 demands that the recorded flops/write/size are nevertheless the tree's)
  S2  the returned tree's true objective value is the minimum over the true values of all successful trials
  R1  get_trials(): row i is trial i in report order - its method, its params, its size/flops/write; the
      winner's row carries the independent model's figures of the RETURNED tree
  R2  get_trials(sort=...): every successful trial keeps its own (method, figures, params) record in every
      sorted view and no record appears that no trial produced (whether failed trials are listed is not asserted)
  R3  print_trials(): one line per trial with that trial's method / log figures / params
  R4  to_df() / to_dfs_parametrized(): the rows are, one to one, the reported trials - method, score, a logarithm
      of each figure and (parametrized) the parameters that trial ran with; rows are matched by content, the
      numbering of the `run` column is not asserted; without pandas: counted under extra.unobserved, not required
  R5  get_tree() / .tree / .path / __call__ (opt_einsum interface) all describe the returned best tree
  P1  a SECOND search on the same optimizer after switching `opt.parallel` (serial <-> scripted pool <->
      thread pool): each search runs <= max_repeats trials, the pool that was set is the one used, and
      H1-H4 hold over the whole record
  C1  HyperCompressedOptimizer (chi, compressed objectives, reconf_opts -> windowed reconfiguration): the
      winner's recorded figures and score are those of the returned tree, recomputed on a tree rebuilt from
      the returned contraction order with the user's chi (None = square of the largest dimension)
plus: numeric max_time, progbar=True, methods=None / a single string, optlib=None, on_trial_error='warn',
forested reconfiguration options, parallel='threads' and (one forced case in every 4th shard) the default
parallel='auto', which is a loky process pool on this installation.
"""

import contextlib
import io
import itertools
import math
import traceback
import warnings

import cotengra as ctg
from cotengra.hyperoptimizers import hyper as _hyper
from cotengra.utils import BadTrial

from .. import ct, gen, ref, sched
from ..common import Deadline, OpTimeout, budget, rng_for, time_limit

PID = "C08"
LEVEL = "exploration"
RULE = (
    "networks of 6-16 tensors x method subsets of {greedy, random-greedy, labels, kahypar, random, verif-faulty} x "
    "objective in {flops,size,write,combo,limit} x post-processing in {none, slicing_opts, reconf_opts, "
    "slicing_reconf_opts, simulated_annealing_opts(+target_size)} x executor in {serial, scripted pool with forced "
    "completion order, thread pool, (thorough) process pools} x max_repeats 1-12 x max_time; distinct = distinct "
    "(network, methods, objective, post-processing, executor, completion order); non-trivial = >=3 trials reported. "
    "Widened dimensions (drawn from a derived generator, the base case stream is unchanged): objective given as an "
    "Objective instance with non-default parameters or as a plain function of the trial dict (post-processing 'none' only); methods=None / one string; optlib=None; numeric max_time "
    "{0, 3ms, 30s}; progbar; on_trial_error='warn'; forested reconf / slicing_reconf; parallel='auto'/'threads'; "
    "api search / __call__; a second search on the same object after switching opt.parallel; "
    "HyperCompressedOptimizer x chi {None,2,4,8} x 6 compressed objectives x reconf_opts (windowed) on/off; "
    "after every search the record is read back through get_trials / print_trials / to_df / to_dfs_parametrized"
)
ASSUMPTIONS = [
    "optlib='random' (seeded) for the with/without-fault comparison; cmaes also exercised for H1-H4",
    "process pools are non-deterministic stress only",
    "the score smudge (gauss, sigma 1e-6) stays below 1e-5; score_compression is read from the optimizer object",
    "compressed figures: CompressedStatsTracker of a tree rebuilt from the returned path is the reference (a second route, "
    "not an independent model); 'size' may be the tracker's max_size or peak_size (write for write-compressed) as the objectives record",
    "to_dfs_parametrized reports write as log2 and to_df as log10: either logarithm is accepted for every figure column",
    "HyperMultiOptimizer / TrialTreeMulti is outside the statement (no constructor sets varmults/numconfigs, not in the quantifier)",
    "a plain function as minimize (documented: 'a custom callable [taking] a trial dict') is only combined with post-processing "
    "'none': slicing_opts / reconf_opts / simulated_annealing_opts need Objective methods (score_slice_index, cost_local_tree_node) "
    "that a plain function cannot offer, so those combinations are outside what the library can promise",
]
REQUIRED_MONITORS = ["H1_count", "H2_best_is_min", "H3_tree_of_query", "H4_costs_true", "H5_faults_skipped", "scripted_orders", "threadpool_runs",
                     "post:none", "post:slicing", "post:reconf", "post:slicing_reconf", "post:anneal", "post:stacked",
                     "S1_score_of_tree", "S2_true_min", "R1_get_trials", "R2_sorted_views", "R3_print_trials", "R4_dataframes",
                     "R5_get_tree_path", "H1_after_aborted_search", "P1_second_search", "P1_pool_switch", "C1_compressed_figures", "cfg:compressed_reconf",
                     "cfg:objective_instance", "cfg:plain_callable", "cfg:max_time_seconds", "cfg:progbar", "cfg:call_api", "cfg:forest"]
SHARD_TIMEOUT = {"quick": 500, "thorough": 5400}

FAULT = {"calls": 0, "fail_at": {}, "on": False}


import importlib.util as _ilu

if _ilu.find_spec("pandas") is None:
    # to_df / to_dfs_parametrized cannot be observed without pandas: counted under extra.unobserved, never a failure
    REQUIRED_MONITORS.remove("R4_dataframes")


def faulty_method(inputs, output, size_dict, k=0, **kw):
    FAULT["calls"] += 1
    how = FAULT["fail_at"].get(FAULT["calls"]) if FAULT["on"] else None
    # the work is done first, so that a failing trial consumes exactly the same global randomness
    # as a succeeding one (the greedy method jitters sizes with the global generator by design) and
    # the with/without-fault runs stay comparable
    tree = _hyper._PATH_FNS["greedy"](inputs, output, size_dict, random_strength=0.01 * (k % 7), temperature=0.0, costmod=1.0)
    if how == "raise":
        raise RuntimeError("verif: scripted trial failure")
    if how == "bad":
        raise BadTrial
    return tree


def install():
    if "verif-faulty" not in _hyper._PATH_FNS:
        _hyper.register_hyper_function("verif-faulty", faulty_method, {"k": {"type": "INT", "min": 0, "max": 1000}})


def nshards(tier):
    return 16


def classify(v):
    return None


POSTS = ("none", "slicing", "reconf", "slicing_reconf", "anneal", "anneal_sliced",
         # stacked options: each wrapper must leave the figures of the FINAL tree in the trial
         "slicing+reconf", "anneal+slicing", "slicing_reconf+reconf", "anneal+slicing+reconf")

COMPRESSED_METHODS = ("greedy-compressed", "greedy-span", "kahypar-agglom")
COMPRESSED_OBJECTIVES = ("peak-compressed", "size-compressed", "max-compressed", "flops-compressed", "write-compressed", "combo-compressed")
# Objective instances with non-default parameters: (class name in cotengra.scoring, kwargs)
OBJECTIVE_SPECS = (
    ("FlopsObjective", {"secondary_weight": 0.0}), ("FlopsObjective", {"secondary_weight": 0.05}),
    ("SizeObjective", {"secondary_weight": 0.01}), ("WriteObjective", {"secondary_weight": 0.0}),
    ("ComboObjective", {"factor": 256}), ("ComboObjective", {"factor": 1}), ("LimitObjective", {"factor": 8}),
)
# HyperOptimizer(minimize=<plain function of the trial dict>): F-C08-1 of FINDINGS_widen-d.md, repaired in /repo by
# cc45b0a (ComputeScore fills in flops / write / size from the trial's tree).  Generated only WITHOUT post-processing
# options: slicing / reconfiguration / annealing call Objective methods on the tree's default objective, which a
# plain function does not have (see ASSUMPTIONS).
PLAIN_CALLABLE_MINIMIZE = True


def post_opts(post, tree_size):
    if "+" in post:
        out = {}
        for part in post.split("+"):
            out.update(post_opts(part, tree_size))
        return out
    tgt = max(1, tree_size // 4)
    if post == "slicing":
        return {"slicing_opts": {"target_size": tgt, "max_repeats": 2}}
    if post == "reconf":
        return {"reconf_opts": {"subtree_size": 4, "maxiter": 3}}
    if post == "slicing_reconf":
        return {"slicing_reconf_opts": {"target_size": tgt, "max_repeats": 2, "reconf_opts": {"subtree_size": 3, "maxiter": 2}}}
    if post == "anneal":
        return {"simulated_annealing_opts": {"tsteps": 2, "numiter": 2, "seed": 7}}
    if post == "anneal_sliced":
        return {"simulated_annealing_opts": {"tsteps": 2, "numiter": 2, "seed": 7, "target_size": tgt}}
    if post == "reconf_forest":
        return {"reconf_opts": {"forested": True, "num_trees": 2, "num_restarts": 2, "subtree_size": 4, "subtree_maxiter": 3, "seed": 5}}
    if post == "slicing_reconf_forest":
        return {"slicing_reconf_opts": {"forested": True, "target_size": tgt, "num_trees": 2, "max_repeats": 2, "reconf_opts": {"subtree_size": 3, "maxiter": 2}}}
    if post.startswith("creconf"):
        # compressed optimizer: reconf_opts -> CompressedReconfTrial -> windowed_reconfigure_
        w = post[len("creconf"):]
        return {"reconf_opts": ({"window_size": int(w), "max_iterations": 3, "seed": 3} if w else {"max_iterations": 2})}
    return {}


def plain_flops_objective(trial):
    return math.log2(trial["tree"].total_flops())


def minimize_arg(case):
    spec = case.get("minimize_obj")
    if spec == "plain-callable":
        return plain_flops_objective
    if spec:
        from cotengra import scoring

        return getattr(scoring, spec[0])(**spec[1])
    return case["minimize"]


def make_executor(executor, order):
    """-> (value for parallel=, pool object or None)"""
    if executor == "serial":
        return False, None
    if executor == "scripted":
        pool = sched.ScriptedPool(order, max_workers=1)
        return pool, pool
    if executor == "threads":
        import concurrent.futures

        pool = concurrent.futures.ThreadPoolExecutor(3)
        return pool, pool
    if executor == "auto":
        # the default a user gets (here: cotengra's reusable loky process pool; methods registered only in
        # this process fail there, which is one more source of skipped trials)
        return "auto", None
    if executor == "threads_str":
        return "threads", None
    if executor in ("loky", "concurrent.futures"):
        return executor, None
    raise ValueError(executor)


class Run:
    """what one (possibly two-round) search left behind"""


def run_search(case, executor, order=None, faults=False, log=None):
    """-> Run(opt, res = tree or exception, pool, marks, path, pool2)"""
    net = gen.Net.from_json(case["net"])
    FAULT["calls"] = 0
    FAULT["on"] = faults
    FAULT["fail_at"] = {int(k): v for k, v in case.get("fail_at", {}).items()}
    methods = case["methods"]
    form = case.get("methods_form", "list")
    kw = dict(
        methods=None if form == "none" else methods[0] if form == "str" else methods,
        minimize=minimize_arg(case), max_repeats=case["max_repeats"], max_time=case.get("max_time"),
        optlib=case["optlib"], on_trial_error=case.get("on_trial_error", "ignore"), progbar=bool(case.get("progbar")),
    )
    if case["optlib"] == "random":
        kw["seed"] = case["opt_seed"]
    kw.update(post_opts(case["post"], case["tree_size"]))
    kw["parallel"], pool = make_executor(executor, order)
    r = Run()
    r.pool, r.pool2, r.path, r.marks, r.parallel_values = pool, None, None, [], [kw["parallel"]]
    if case.get("kind") == "compressed":
        opt = ctg.HyperCompressedOptimizer(chi=case["chi"], **kw)
        r.minimize = kw["minimize"] if case["chi"] is None else f"{kw['minimize']}-{case['chi']}"
    else:
        opt = ctg.HyperOptimizer(**kw)
        r.minimize = kw["minimize"]
    r.opt = opt
    orig = opt._maybe_report_result

    def recording(setting, trial):
        if log is not None:
            log.append({"t": len(log), "method": setting["method"], "params": dict(setting["params"]), "trial": trial})
        return orig(setting, trial)

    opt._maybe_report_result = recording
    # a search that stops early on a pool the harness does not own (cotengra's shared thread / process pool)
    # leaves trials running after it returned: they draw from the global generator while the NEXT case runs.
    # Remember the futures the optimizer abandons and wait for them before going on.
    leftover = []
    cancel = opt._maybe_cancel_futures

    def cancel_and_remember():
        leftover.extend(f for _, f in getattr(opt, "_futures", None) or [])
        return cancel()

    opt._maybe_cancel_futures = cancel_and_remember
    import random

    random.seed(case["case_seed"])
    if executor in ("serial", "scripted"):
        # trial functions draw from the global generator (greedy jitter, the 'random' method, the slice
        # finder): pin its state at the start of every trial, so that a trial's outcome is a function of
        # its own setting and not of how much randomness earlier (possibly failing) trials consumed.
        # In these two executors the trial runs immediately after its setting is requested.
        get_setting = opt._optimizer["get_setting"]
        counter = {"n": 0}

        def seeded_get_setting(self_):
            setting = get_setting(self_)
            counter["n"] += 1
            random.seed(f"{case['case_seed']}/trial/{counter['n']}")
            return setting

        opt._optimizer = dict(opt._optimizer, get_setting=seeded_get_setting)

    def one_round():
        with contextlib.redirect_stderr(io.StringIO()) if case.get("progbar") else contextlib.nullcontext():
            if case.get("api") == "call":
                # opt_einsum interface: the path comes back, the tree is read through get_tree()
                r.path = opt(net.inputs, net.output, net.size_dict)
                return opt.get_tree()
            return opt.search(net.inputs, net.output, net.size_dict)

    pools = [pool] if executor == "threads" else []
    try:
        r.res = one_round()
        r.marks.append(len(log) if log is not None else 0)
        second = case.get("second")
        if second and not isinstance(r.res, Exception):
            order2 = None
            if second["executor"] == "scripted":
                perm = list(range(case["max_repeats"]))
                rng_for(case["case_seed"], "second").shuffle(perm)
                order2 = sched.order_from_permutation(perm)
            value, r.pool2 = make_executor(second["executor"], order2)
            if second["executor"] == "threads":
                pools.append(r.pool2)
            opt.parallel = value
            r.parallel_values.append(value)
            r.res = one_round()
            r.marks.append(len(log) if log is not None else 0)
    except Exception as e:
        r.res = e
        r.marks.append(len(log) if log is not None else 0)
    finally:
        for p_ in pools:
            p_.shutdown(wait=True)
        for f in leftover:
            try:
                if hasattr(f, "exception"):
                    f.exception(timeout=60)
            except BaseException:   # cancelled / timed out: nothing is running any more (or it is hopeless)
                pass
    return r


# ------------------------------ independent objective values ---------------- #


def objective_spec(case):
    """-> (name, params) of the exact objective the case minimizes"""
    spec = case.get("minimize_obj")
    if spec == "plain-callable":
        return ("plain", {})
    if spec:
        return (spec[0][: -len("Objective")].lower(), dict(spec[1]))
    return (case["minimize"], {})


def objective_value(spec, m):
    """the documented objective from the independent cost model ``m`` (ref.Costs)"""
    name, p = spec
    F, W, S = m.total_flops(), m.total_write(), m.max_size()
    sw = p.get("secondary_weight", 1e-3)
    if name == "plain":
        return math.log2(F)
    if name == "flops":
        return math.log2(F) + sw * math.log2(W) + sw * math.log2(S)
    if name == "write":
        return sw * math.log2(F) + math.log2(W) + sw * math.log2(S)
    if name == "size":
        return sw * math.log2(F) + sw * math.log2(W) + math.log2(S)
    factor = p.get("factor", 64)
    if name == "combo":
        return math.log2(F + factor * W)
    if name == "limit":
        return math.log2(m.mult * sum(max(m.node_flops(q), factor * m.node_size(q)) for q in m.children))
    raise ValueError(name)


def compressed_reference(case, net, tree):
    """figures of the contraction order ``tree`` describes, recomputed on a tree rebuilt from its path with the
    chi the USER asked for -> dict(flops, write, sizes=set of acceptable 'size' figures, value=objective)"""
    from cotengra.core import ContractionTreeCompressed

    chi = case["chi"] if case["chi"] is not None else max(net.size_dict.values()) ** 2
    fresh = ContractionTreeCompressed.from_path(net.inputs, net.output, net.size_dict, path=tree.get_path())
    st = fresh.compressed_contract_stats(chi, compress_late=False)
    which = case["minimize"]
    l2 = math.log2
    if which == "peak-compressed":
        value = l2(st.peak_size) + 1e-3 * l2(st.flops) + 1e-3 * l2(st.write)
    elif which in ("size-compressed", "max-compressed"):
        value = l2(st.max_size) + 1e-3 * l2(st.flops) + 1e-3 * l2(st.write)
    elif which == "write-compressed":
        value = l2(st.write) + 1e-3 * l2(st.flops) + 1e-3 * l2(st.peak_size)
    elif which == "flops-compressed":
        value = l2(st.flops) + 1e-3 * l2(st.write) + 1e-3 * l2(st.peak_size)
    else:
        value = l2(st.flops + 64 * st.write)
    sizes = {st.max_size, st.peak_size} | ({st.write} if which == "write-compressed" else set())
    return {"flops": st.flops, "write": st.write, "sizes": sizes, "value": value}


SMUDGE = 1e-5


def score_mismatch(opt, score, value):
    want = value ** opt.score_compression
    return None if abs(score - want) <= SMUDGE + 1e-12 * abs(want) else want


# ------------------------------ reading the record back --------------------- #


def close(a, b):
    if a == b:
        return True
    try:
        a, b = float(a), float(b)
        if math.isinf(a) or math.isinf(b) or a != a or b != b:
            return False
        return abs(a - b) <= 1e-9 * max(1.0, abs(b))
    except (TypeError, ValueError, OverflowError):
        return False


def logs_of(x):
    return (math.log2(x), math.log10(x))


def same_value(a, b):
    """a value read back from a DataFrame cell vs the python value that was recorded"""
    try:
        if a == b:
            return True
    except Exception:
        pass
    if isinstance(b, (int, float)) and not isinstance(b, bool):
        return close(a, b)
    return str(a) == str(b)


def records_of(df):
    cols = list(df.columns)
    return [dict(zip(cols, row)) for row in df.itertuples(index=False, name=None)]


def check_records(rep, case, opt, log, label, winner_figures, heavy):
    """R1-R4: the per-trial record as a user reads it.  ``winner_figures`` = (index of the winning trial in
    the log, {flops, write, size} of the RETURNED tree from the reference model) or None."""
    # R1
    rep.mon("R1_get_trials")
    rows = opt.get_trials()
    if len(rows) != len(log):
        return ("R1", f"{label}: get_trials() has {len(rows)} rows for {len(log)} reported trials")
    for i, (row, e) in enumerate(zip(rows, log)):
        t = e["trial"]
        method, size, flops, write, params = row
        if method != e["method"] or dict(params) != e["params"]:
            return ("R1", f"{label}: get_trials() row {i} names ({method}, {params}) but trial #{i} ran ({e['method']}, {e['params']})")
        if (size, flops, write) != (t["size"], t["flops"], t["write"]):
            return ("R1", f"{label}: get_trials() row {i} says size/flops/write {(size, flops, write)} but trial #{i} recorded {(t['size'], t['flops'], t['write'])}")
    if winner_figures is not None:
        wi, fig = winner_figures
        _, size, flops, write, _ = rows[wi]
        if (flops, write) != (fig["flops"], fig["write"]) or size not in fig["sizes"]:
            return ("R1", f"{label}: get_trials() row {wi} (the winner) says size/flops/write {(size, flops, write)}; the returned tree has {fig}")
    if not heavy:
        return None
    # R2
    rep.mon("R2_sorted_views")
    # every successful trial keeps its own record in every sorted view and no record appears that no trial
    # produced (whether failed trials are listed there is not promised)
    import collections

    base = collections.Counter(map(repr, rows))
    must = collections.Counter(repr(r_) for r_, e in zip(rows, log) if e["trial"]["score"] < float("inf"))
    for how in ("method", "combo", "size", "flops", "write"):
        view = collections.Counter(map(repr, opt.get_trials(sort=how)))
        if view - base or must - view:
            return ("R2", f"{label}: get_trials(sort={how!r}) does not list the trials' records: foreign rows {list(view - base)[:2]}, missing rows {list(must - view)[:2]}")
    # R3
    rep.mon("R3_print_trials")
    how = (None, "flops", "size", "method")[len(log) % 4]
    buf = io.StringIO()
    with contextlib.redirect_stdout(buf):
        opt.print_trials(how) if how else opt.print_trials()
    lines = [ln for ln in buf.getvalue().splitlines() if ln.strip()][1:]
    want_rows = opt.get_trials(sort=how) if how else rows
    if len(lines) != len(want_rows):
        return ("R3", f"{label}: print_trials({how!r}) printed {len(lines)} rows for {len(want_rows)} trials")
    for ln, (method, size, flops, write, params) in zip(lines, want_rows):
        parts = ln.split(None, 4)
        want = [method, f"{math.log2(size):.2f}", f"{math.log10(flops):.2f}", f"{math.log10(write):.2f}", str(params)]
        if parts != want:
            return ("R3", f"{label}: print_trials({how!r}) printed {parts} for the trial {want}")
    # R4
    try:
        import pandas  # noqa: F401
    except ImportError:
        rep.count("unobserved", "pandas not importable: to_df / to_dfs_parametrized skipped")
        return None
    rep.mon("R4_dataframes")

    def figures_match(rec, method, i):
        e = log[i]
        t = e["trial"]
        return method == e["method"] and close(rec["score"], t["score"]) and all(any(close(rec[c], v) for v in logs_of(t[c])) for c in ("size", "flops", "write"))

    def params_match(rec, i):
        return all(same_value(rec.get(k_), v_) for k_, v_ in log[i]["params"].items() if k_ not in ("run", "time", "size", "flops", "write", "score"))

    def take(pool_, method, rec, with_params):
        """the not yet matched trial this DataFrame row describes (rows are matched to trials by content:
        the numbering of the ``run`` column is not part of the property)"""
        for i in pool_:
            if figures_match(rec, method, i) and (not with_params or params_match(rec, i)):
                pool_.remove(i)
                return i
        return None

    df = opt.to_df()
    left = list(range(len(log)))
    for rec in records_of(df):
        if take(left, rec["method"], rec, False) is None:
            return ("R4", f"{label}: to_df() has the row {rec} which is no reported trial's (method, score, log figures); unmatched trials {[(log[i]['method'], log[i]['trial']['score'], log[i]['trial']['flops']) for i in left][:3]}")
    if any(log[i]["trial"]["score"] < float("inf") for i in left):
        return ("R4", f"{label}: to_df() lacks the successful trials {left}")
    dfs = opt.to_dfs_parametrized()
    left = list(range(len(log)))
    for method, d in dfs.items():
        for rec in records_of(d):
            if take(left, method, rec, True) is None:
                cand = [i for i in left if figures_match(rec, method, i)]
                if cand:
                    return ("R4", f"{label}: to_dfs_parametrized()[{method!r}] has the row {rec}: the figures are those of trial(s) {cand} but the parameters are not (trial #{cand[0]} ran with {log[cand[0]]['params']})")
                return ("R4", f"{label}: to_dfs_parametrized()[{method!r}] has the row {rec} which is no reported {method} trial's (score, log figures)")
    if any(log[i]["trial"]["score"] < float("inf") for i in left):
        return ("R4", f"{label}: to_dfs_parametrized() lacks the successful trials {left}")
    return None


def check_log(rep, case, net, run, log, label, heavy=True):
    opt, res = run.opt, run.res
    compressed = case.get("kind") == "compressed"
    finite = [e for e in log if e["trial"]["score"] < float("inf")]
    # H1
    rep.mon("H1_count")
    rounds = len(run.marks)
    if len(log) > case["max_repeats"] * rounds:
        return ("H1", f"{label}: {len(log)} trials reported for max_repeats={case['max_repeats']} x {rounds} search(es)")
    for a, b in zip([0] + run.marks, run.marks):
        if b - a > case["max_repeats"]:
            return ("H1", f"{label}: one search reported {b - a} trials for max_repeats={case['max_repeats']} (trials per search: {[y - x for x, y in zip([0] + run.marks, run.marks)]})")
    if list(opt.scores) != [e["trial"]["score"] for e in log]:
        return ("H1", f"{label}: opt.scores is not the sequence of reported trial scores")
    if len(opt.costs_flops) != len(log) or len(opt.method_choices) != len(log):
        return ("H1", f"{label}: per-trial records have inconsistent lengths")
    if not finite:
        if not isinstance(res, Exception):
            return ("H3", f"{label}: search returned {res!r} although every trial failed")
        rep.count("all_trials_failed", case.get("kind", "exact") + "|" + case["post"])
        return check_records(rep, case, opt, log, label, None, heavy)
    if isinstance(res, Exception):
        return ("raises", f"{label}: search raised {type(res).__name__}: {res} with {len(finite)} successful trials")
    # H2
    rep.mon("H2_best_is_min")
    best_entry = min(finite, key=lambda e: (e["trial"]["score"], e["t"]))
    if opt.best is not best_entry["trial"]:
        got = next((e["t"] for e in log if e["trial"] is opt.best), None)
        return ("H2", f"{label}: best is reported trial #{got} (score {opt.best.get('score')}), minimum is #{best_entry['t']} (score {best_entry['trial']['score']}); scores={[round(e['trial']['score'], 6) for e in log]}")
    if opt.best["score"] != min(opt.scores):
        return ("H2", f"{label}: best score {opt.best['score']} != min(scores) {min(opt.scores)}")
    if res is not opt.best.get("tree"):
        return ("H2", f"{label}: returned tree is not the best trial's tree")
    if opt.best["params"].get("method") != best_entry["method"]:
        return ("H2", f"{label}: best params name method {opt.best['params'].get('method')} but the best trial used {best_entry['method']}")
    for k_, v_ in best_entry["params"].items():
        if opt.best["params"].get(k_) != v_:
            return ("H2", f"{label}: best['params'][{k_}] is not the winning trial's setting")
    # H3
    rep.mon("H3_tree_of_query")
    tree = res
    if tuple(map(tuple, tree.inputs)) != net.inputs or tuple(tree.output) != net.output:
        return ("H3", f"{label}: returned tree is not over the queried network")
    msg = ref.check_tree_struct(net.N, ct.children_of(tree))
    if msg:
        return ("H3", f"{label}: returned tree: {msg}")
    # R5: the other ways of asking for the answer
    rep.mon("R5_get_tree_path")
    if opt.get_tree() is not tree or opt.tree is not tree:
        return ("R5", f"{label}: get_tree() / .tree is not the returned tree")
    if opt.minimize is not run.minimize and opt.minimize != run.minimize:
        return ("R5", f"{label}: opt.minimize reads {opt.minimize!r}, the search was asked to minimize {run.minimize!r}")
    path_ = [tuple(p) for p in opt.path]
    if ref.check_linear_path(net.N, path_) or set(ref.path_to_nodes(net.N, path_)) != set(ct.children_of(tree)):
        return ("R5", f"{label}: .path does not build the returned tree")
    if run.path is not None:
        msg = ref.check_linear_path(net.N, [tuple(p) for p in run.path])
        if msg:
            return ("R5", f"{label}: __call__ returned path: {msg}")
        if set(ref.path_to_nodes(net.N, [tuple(p) for p in run.path])) != set(ct.children_of(tree)):
            return ("R5", f"{label}: __call__ returned a path that does not build the best tree")
    s1_bad = None
    if compressed:
        # C1: winner's figures and score vs the returned contraction order, rebuilt, with the user's chi
        rep.mon("C1_compressed_figures")
        if case["post"].startswith("creconf"):
            rep.mon("cfg:compressed_reconf")
        if type(tree).__name__ != "ContractionTreeCompressed":
            return ("C1", f"{label}: the compressed optimizer returned a {type(tree).__name__}")
        values = {}
        for e in [best_entry] + [x for x in finite if x is not best_entry]:
            t = e["trial"]
            if t.get("tree") is None:
                continue
            fig = compressed_reference(case, net, t["tree"])
            values[e["t"]] = fig["value"]
            if e is best_entry:
                winner = (e["t"], fig)
            if (t["flops"], t["write"]) != (fig["flops"], fig["write"]) or t["size"] not in fig["sizes"]:
                return ("C1", f"{label}: trial #{e['t']} ({e['method']}) recorded flops/write/size {(t['flops'], t['write'], t['size'])}; its contraction order rebuilt with chi={case['chi']} gives {fig}")
            want = score_mismatch(opt, t["score"], fig["value"])
            if want is not None:
                return ("C1", f"{label}: trial #{e['t']} ({e['method']}) score {t['score']} but its contraction order scores {want} under {case['minimize']} chi={case['chi']}")
            i = e["t"]
            if (opt.costs_flops[i], opt.costs_write[i], opt.costs_size[i]) != (t["flops"], t["write"], t["size"]):
                return ("C1", f"{label}: optimizer's per-trial cost lists disagree with trial #{i}")
    else:
        # H4 (all successful trials with a tree, the winner first)
        spec = objective_spec(case)
        values = {}
        winner = None
        for e in [best_entry] + [x for x in finite if x is not best_entry]:
            t = e["trial"]
            tr = t.get("tree")
            if tr is None:
                continue
            rep.mon("H4_costs_true")
            stats = dict(tr.contract_stats())
            rec = {k: t[k] for k in ("flops", "write", "size")}
            m = ct.costs_of(tr)
            model = {"flops": m.total_flops(), "write": m.total_write(), "size": m.max_size()}
            if rec != stats:
                return ("H4", f"{label}: trial #{e['t']} ({e['method']}) recorded {rec} but its tree reports {stats}")
            if stats != model:
                return ("H4_tree_misreports", f"{label}: trial #{e['t']} tree reports {stats}, independent model {model}")
            i = e["t"]
            if (opt.costs_flops[i], opt.costs_write[i], opt.costs_size[i]) != (rec["flops"], rec["write"], rec["size"]):
                return ("H4", f"{label}: optimizer's per-trial cost lists disagree with trial #{i}")
            if e is best_entry:
                winner = (i, {"flops": model["flops"], "write": model["write"], "sizes": {model["size"]}})
            # S1: the trial's score is the score of its (final) tree
            rep.mon("S1_score_of_tree")
            values[i] = objective_value(spec, m)
            want = score_mismatch(opt, t["score"], values[i])
            if want is not None and s1_bad is None:
                s1_bad = ("S1", f"{label}: trial #{i} ({e['method']}) score {t['score']} but its tree scores {want} (= {values[i]} ** {opt.score_compression}) under {spec}")
    # S2: the returned tree is truly the best of the trees that were tried (the statement itself; S1 is the
    # per-trial mechanism behind it and is reported second)
    if best_entry["t"] in values:
        rep.mon("S2_true_min")
        vb = values[best_entry["t"]] ** opt.score_compression
        for i, v in values.items():
            if v ** opt.score_compression < vb - 2 * SMUDGE:
                return ("S2", f"{label}: the returned tree (trial #{best_entry['t']}) has objective value {values[best_entry['t']]} but trial #{i}'s tree has {v}")
    if s1_bad:
        return s1_bad
    return check_records(rep, case, opt, log, label, winner, heavy)


def check_second(rep, case, run, log, label):
    """P1: what the second search on the same object must have done"""
    if len(run.marks) < 2:
        return None
    rep.mon("P1_second_search")
    opt = run.opt
    if opt.parallel is not run.parallel_values[-1] and opt.parallel != run.parallel_values[-1]:
        return ("P1", f"{label}: opt.parallel reads {opt.parallel!r} after being set to {run.parallel_values[-1]!r}")
    n1, n2 = run.marks[0], run.marks[1] - run.marks[0]
    first, second = case["executor"], case["second"]["executor"]
    if case.get("max_time") is None and n2 == 0:
        return ("P1", f"{label}: the second search ran no trial")
    # the pool that is set is the pool that is used
    if first in ("scripted", "threads") or second in ("scripted", "threads"):
        rep.mon("P1_pool_switch")
    if second == "scripted" and run.pool2.n_submitted < n2:
        return ("P1", f"{label}: {n2} trials reported in the second search but only {run.pool2.n_submitted} were submitted to the pool set through opt.parallel")
    if first == "scripted" and run.pool.n_submitted < n1:
        return ("P1", f"{label}: {n1} trials reported in the first search but only {run.pool.n_submitted} were submitted to its pool")
    if first == "scripted" and second != "scripted" and run.pool.n_submitted > case["max_repeats"]:
        return ("P1", f"{label}: the first pool received {run.pool.n_submitted} trials although opt.parallel was switched away after {n1}")
    return None


def trial_sig(e):
    t = e["trial"]
    return (e["method"], tuple(sorted((k, repr(v)) for k, v in e["params"].items())), t.get("flops"), t.get("write"), t.get("size"))


def unlimited(case):
    mt = case.get("max_time")
    return mt is None or (isinstance(mt, (int, float)) and mt >= 30)


def execute(rep, case):
    install()
    net = gen.Net.from_json(case["net"])
    ex = case["executor"]
    for part in case["post"].split("+"):
        name = {"anneal_sliced": "anneal", "reconf_forest": "reconf", "slicing_reconf_forest": "slicing_reconf"}.get(part, part)
        rep.mon("post:" + ("reconf" if name.startswith("creconf") else name))
        if part.endswith("_forest"):
            rep.mon("cfg:forest")
    if "+" in case["post"]:
        rep.mon("post:stacked")
    if case.get("minimize_obj") == "plain-callable":
        rep.mon("cfg:plain_callable")
    elif case.get("minimize_obj"):
        rep.mon("cfg:objective_instance")
    if isinstance(case.get("max_time"), (int, float)):
        rep.mon("cfg:max_time_seconds")
    if case.get("progbar"):
        rep.mon("cfg:progbar")
    if case.get("api") == "call":
        rep.mon("cfg:call_api")
    if ex == "scripted":
        n = case["max_repeats"]
        if case.get("perm") is not None:
            orders = [case["perm"]]
        elif n <= 5:
            orders = list(itertools.permutations(range(n)))
            if case.get("max_orders") and len(orders) > case["max_orders"]:
                r = rng_for(case["case_seed"], "orders")
                orders = r.sample(orders, case["max_orders"])
        else:
            r = rng_for(case["case_seed"], "orders")
            orders = []
            for _ in range(case.get("max_orders", 8)):
                p = list(range(n))
                r.shuffle(p)
                orders.append(p)
        base_sigs = None
        for k, perm in enumerate(orders):
            log = []
            run = run_search(case, "scripted", order=sched.order_from_permutation(list(perm)), faults=bool(case.get("fail_at")), log=log)
            pool = run.pool
            rep.mon("scripted_orders")
            rep.seen("completion_orders", tuple(pool.completion_order))
            label = f"completion order {pool.completion_order}"
            bad = check_log(rep, case, net, run, log, label, heavy=(k == 0)) or check_second(rep, case, run, log, label)
            if bad:
                return bad[0], bad[1], {"perm": list(perm)}
            if unlimited(case) and not case.get("second"):
                sigs = sorted(map(repr, map(trial_sig, log)))
                if base_sigs is None:
                    base_sigs = sigs
                elif case["optlib"] == "random" and sigs != base_sigs:
                    return "order_dependence", f"the set of trial records changed with the completion order {pool.completion_order}", {"perm": list(perm)}
        return None
    log = []
    run = run_search(case, ex, faults=bool(case.get("fail_at")), log=log)
    if ex in ("threads", "threads_str", "auto"):
        rep.mon("threadpool_runs")
    if ex in ("loky", "concurrent.futures"):
        rep.mon("processpool_runs")
    bad = check_log(rep, case, net, run, log, ex) or check_second(rep, case, run, log, ex)
    if bad:
        return bad[0], bad[1], {}
    # H5: with / without faults
    if case.get("fail_at") and ex == "serial" and case["optlib"] == "random" and unlimited(case) and not case.get("second"):
        log_b = []
        run_search(case, ex, faults=False, log=log_b)
        rep.mon("H5_faults_skipped")
        if len(log_b) != len(log):
            return "H5", f"{len(log)} trials with faults vs {len(log_b)} without", {}
        nfail = 0
        for a, b in zip(log, log_b):
            if (a["method"], a["params"]) != (b["method"], b["params"]):
                return "H5", f"trial #{a['t']}: settings differ with/without faults", {}
            if a["trial"]["score"] == float("inf") and b["trial"]["score"] < float("inf"):
                nfail += 1
                continue
            if trial_sig(a) != trial_sig(b):
                return "H5", f"trial #{a['t']} ({a['method']}): costs {trial_sig(a)[2:]} with faults elsewhere vs {trial_sig(b)[2:]} without", {}
        rep.count("faults_injected", nfail)
    return None


def gen_case(rng, cs, tier):
    install()
    net = gen.network(rng, 6, budget(tier, 14, 20), cap=10**12, classes=("graph", "graph", "hyper", "lattice", "chain", "batch", "disconnected", "perverse"))
    methods = rng.sample(["greedy", "random-greedy", "labels", "kahypar", "random", "verif-faulty"], rng.randint(1, 3))
    tree = ct.make_tree(net, gen.random_ssa(rng, net.N))
    case = {
        "net": net.to_json(), "methods": methods, "minimize": rng.choice(["flops", "size", "write", "combo", "limit"]),
        "post": rng.choice(POSTS), "tree_size": tree.max_size(), "max_repeats": rng.randint(1, 12),
        "optlib": rng.choice(["random", "random", "random", "cmaes"]), "opt_seed": rng.randrange(10**6),
        "max_time": rng.choice([None, None, None, "equil:2", "rate:1e9"]), "case_seed": cs,
        "executor": rng.choice(["serial", "serial", "scripted", "scripted", "threads"]),
    }
    if "verif-faulty" in methods:
        case["fail_at"] = {str(rng.randint(1, 6)): rng.choice(["raise", "bad"]) for _ in range(rng.randint(1, 3))}
    if case["executor"] == "scripted":
        case["max_repeats"] = rng.choice([2, 3, 4, 5, 5, 8, 12])
        case["max_orders"] = budget(tier, 12, 120)
    if tier == "thorough" and rng.random() < 0.06:
        case["executor"] = rng.choice(["loky", "concurrent.futures"])
        case["methods"] = [m for m in methods if m != "verif-faulty"] or ["greedy"]
        case.pop("fail_at", None)
    widen(case, cs)
    return case


def widen(case, cs):
    """the widened dimensions, from a generator of their own (the base case above is what it always was)"""
    rw = rng_for(cs, "widen")
    case["kind"] = "exact"
    pools = case["executor"] in ("loky", "concurrent.futures")
    if rw.random() < 0.06 and not pools:
        # HyperCompressedOptimizer (the windowed reconfiguration is the expensive part: few trials, few orders)
        case.update(
            kind="compressed", chi=rw.choice([None, 2, 4, 8]), minimize=rw.choice(COMPRESSED_OBJECTIVES),
            methods=rw.sample(COMPRESSED_METHODS, rw.randint(1, 3)),
            post=rw.choice(["none", "creconf4", "creconf4", "creconf3", "creconf6", "creconf"]),
            max_repeats=min(case["max_repeats"], 5),
        )
        if case["executor"] == "scripted":
            case["max_orders"] = 4
        case.pop("fail_at", None)
    elif rw.random() < 0.2:
        name, kw_ = rw.choice(OBJECTIVE_SPECS)
        case["minimize_obj"] = [name, dict(kw_)]
    elif PLAIN_CALLABLE_MINIMIZE and rw.random() < 0.06:
        case["minimize_obj"] = "plain-callable"
        case["post"] = "none"   # see ASSUMPTIONS
    if case["kind"] == "exact":
        if rw.random() < 0.03 and case.get("minimize_obj") != "plain-callable":
            case["post"] = rw.choice(["reconf_forest", "slicing_reconf_forest", "slicing+reconf_forest"])
            case["max_repeats"] = min(case["max_repeats"], 4)   # a forest per trial is expensive
        if "verif-faulty" not in case["methods"]:
            u = rw.random()
            if u < 0.04:
                case["methods_form"] = "none"   # the default method set
            elif u < 0.2 and len(case["methods"]) == 1:
                case["methods_form"] = "str"
    if case["optlib"] == "cmaes" and rw.random() < 0.3:
        case["optlib"] = None   # the library default
    if rw.random() < 0.12:
        case["max_time"] = rw.choice([0.0, 0.003, 30.0, 30.0])
    if rw.random() < 0.1:
        case["progbar"] = True
    if rw.random() < 0.3:
        case["on_trial_error"] = "warn"
    if rw.random() < 0.15:
        case["api"] = "call"
    if case["executor"] == "threads" and rw.random() < 0.25:
        # (parallel='auto' is a loky process pool here, a second per search: one forced case in every 4th shard)
        case["executor"] = "threads_str"
    if case["executor"] in ("serial", "threads", "scripted") and rw.random() < (0.05 if case["executor"] == "scripted" else 0.12):
        case["second"] = {"executor": rw.choice(["serial", "scripted", "scripted", "threads"])}
        if case["executor"] == "scripted":
            case["max_orders"] = min(case.get("max_orders", 4), 4)   # two searches per forced order


# --------------------- a search that is aborted, then the same object searches again --------------------- #

_ABORT = {"calls": 0, "fail_at": None}


def _abort_method(inputs, output, size_dict, **kw):
    _ABORT["calls"] += 1
    if _ABORT["calls"] == _ABORT["fail_at"]:
        raise RuntimeError("vf08: injected trial failure")
    return _hyper._PATH_FNS["greedy"](inputs, output, size_dict)


class ImmediatePool:
    """runs every submitted trial at once in the calling thread: the futures handed back are already done"""

    def __init__(self):
        self.n_submitted = 0
        self._max_workers = 2  # what the optimizer sizes its pre-dispatch with

    def submit(self, fn, *args, **kwargs):
        import concurrent.futures

        self.n_submitted += 1
        f = concurrent.futures.Future()
        try:
            f.set_result(fn(*args, **kwargs))
        except BaseException as e:  # delivered when the optimizer asks for the result
            f.set_exception(e)
        return f

    def shutdown(self, *a, **k):
        pass


def aborted_then_search(rep, cs):
    """H1 across an abnormal end: a pooled search with on_trial_error='raise' dies on its k-th trial with
    pre-dispatched trials still outstanding; the next search on the SAME object must run and report at most
    max_repeats trials of its own (nothing left over from the dead search)."""
    import concurrent.futures

    if "vf08-abort" not in _hyper._PATH_FNS:
        _hyper.register_hyper_function("vf08-abort", _abort_method, {"k": {"type": "INT", "min": 0, "max": 9}})
    rng = rng_for(cs)
    net = gen.graph_net(rng, rng.randint(6, 10), cap=10**9, n_out=rng.randint(0, 2), p_one=0.0)
    kind = rng.choice(["immediate", "immediate", "threads"])
    pool = ImmediatePool() if kind == "immediate" else concurrent.futures.ThreadPoolExecutor(2)
    R = rng.randint(5, 9)
    fail_at = rng.randint(2, 4)
    try:
        opt = ctg.HyperOptimizer(methods=["vf08-abort"], max_repeats=R, parallel=pool, optlib="random", seed=rng.randrange(10**6),
                                 on_trial_error="raise", progbar=False)
        _ABORT.update(calls=0, fail_at=fail_at)
        try:
            opt.search(net.inputs, net.output, net.size_dict)
            rep.count("aborted_search", "first search did not abort")
            return None
        except RuntimeError as e:
            if "vf08" not in str(e):
                return ("raises", f"aborted-search scenario: first search raised {type(e).__name__}: {e}")
        if kind == "threads":
            pool.submit(lambda: None).result()
            import time

            time.sleep(0.05)
        _ABORT.update(fail_at=None)
        n0, c0 = len(opt.scores), _ABORT["calls"]
        try:
            tree = opt.search(net.inputs, net.output, net.size_dict)
        except Exception as e:
            return ("raises", f"aborted-search scenario ({kind} pool): the search after the aborted one raised {type(e).__name__}: {e} | {traceback.format_exc()[-300:]}")
        rep.mon("H1_after_aborted_search")
        reported = len(opt.scores) - n0
        ran = _ABORT["calls"] - c0
        if reported > R:
            return ("H1", f"aborted-search scenario ({kind} pool, first search died at trial {fail_at} of {R}): the next search was asked for {R} trials but reported {reported}")
        if kind == "immediate" and reported > ran:
            return ("H1", f"aborted-search scenario: the second search reported {reported} trials but ran only {ran} (results left over from the dead search)")
        msg = ref.check_tree_struct(net.N, ct.children_of(tree))
        if msg:
            return ("H3", f"aborted-search scenario: returned tree: {msg}")
        if abs(opt.best["score"] - min(opt.scores[n0:] + [opt.best["score"]])) > 1e-9 and opt.best["score"] > min(opt.scores) + 1e-9:
            return ("H2", "aborted-search scenario: best score is not the minimum of the recorded scores")
        return None
    finally:
        _ABORT.update(fail_at=None)
        if kind == "threads":
            pool.shutdown(wait=True)


def run_shard(rep, tier, seed, shard, nshards):
    warnings.filterwarnings("ignore")
    for k in range(budget(tier, 6, 40)):
        cs = f"{seed}/C08/abort/{shard}/{k}"
        try:
            res = aborted_then_search(rep, cs)
        except Exception as e:
            rep.inconclusive_case(f"aborted-search harness: {type(e).__name__}: {e} | {traceback.format_exc()[-300:]}")
            continue
        rep.case(("abort", cs), True, "aborted_then_search")
        if res:
            rep.violation(res[0], {"what": "aborted_then_search", "case_seed": cs}, res[1])
    dl = Deadline(budget(tier, 60, 900))
    for k in range(budget(tier, 500, 6000)):
        if dl.expired():
            break
        cs = f"{seed}/C08/{shard}/{k}"
        rng = rng_for(cs)
        case = gen_case(rng, cs, tier)
        if k < 2:
            # make sure the fault comparison is exercised in every shard
            case.update(executor="serial", optlib="random", max_time=None, methods=["verif-faulty", "greedy"], fail_at={"1": "raise", "3": "bad"}, max_repeats=8,
                        kind="exact", minimize=case["minimize"] if case.get("kind") != "compressed" else "flops")
            for k_ in ("second", "methods_form", "chi"):
                case.pop(k_, None)
            if case["post"].startswith("creconf"):
                case["post"] = "none"
        elif k == 2:
            # ... and the compressed optimizer with its windowed reconfiguration
            case.update(kind="compressed", chi=(None, 2, 4, 8)[shard % 4], minimize=COMPRESSED_OBJECTIVES[shard % 6], methods=list(COMPRESSED_METHODS[: 1 + shard % 3]),
                        post="creconf4", executor=("serial", "scripted", "threads")[shard % 3], max_repeats=4, max_orders=budget(tier, 6, 24))
            for k_ in ("fail_at", "minimize_obj", "methods_form", "second"):
                case.pop(k_, None)
        elif k == 4 and shard % 4 == 1:
            # ... and the default parallel='auto'
            case["executor"] = "auto"
            case["max_repeats"] = min(case["max_repeats"], 4)
            case.pop("second", None)
        elif k == 3:
            # ... and a second search after switching the executor through opt.parallel
            case["executor"] = ("serial", "threads", "serial", "scripted")[shard % 4]
            case["second"] = {"executor": ("scripted", "serial", "threads", "serial")[shard % 4]}
            case["max_repeats"] = 4
            case["max_orders"] = budget(tier, 12, 120)
        net = gen.Net.from_json(case["net"])
        try:
            with time_limit(120):
                res = execute(rep, case)
        except OpTimeout as e:
            rep.inconclusive_case(str(e))
            continue
        except Exception as e:
            res = ("harness", f"{type(e).__name__}: {e} | {traceback.format_exc()[-600:]}", {})
        rep.case((net.key(), tuple(case["methods"]), case["minimize"], repr(case.get("minimize_obj")), case.get("chi"), case["post"], case["executor"], repr(case.get("second")),
                  case["max_repeats"], case["optlib"], case.get("max_time"), repr(case.get("fail_at")), case.get("api"), case.get("methods_form")),
                 case["max_repeats"] >= 3, net.cls,
                 sample={k_: v_ for k_, v_ in case.items() if k_ != "net"} | {"eq": net.eq() if net.N < 10 else f"{net.N} tensors"})
        rep.count("executor", case["executor"])
        rep.count("kind", case.get("kind", "exact"))
        rep.count("matrix", f"{case['post']}|{case['executor']}|{case['minimize']}")
        if res:
            if res[0] == "harness":
                rep.inconclusive_case(res[1])
                continue
            w = dict(case)
            w.update(res[2])
            rep.violation(res[0], w, f"kind={case.get('kind')} methods={case['methods']} post={case['post']} executor={case['executor']} second={case.get('second')} minimize={case.get('minimize_obj') or case['minimize']}: {res[1]}")


def replay(rep, v):
    if v["witness"].get("what") == "aborted_then_search":
        res = aborted_then_search(rep, v["witness"]["case_seed"])
        if res:
            rep.violation(res[0], v["witness"], res[1])
        return
    res = execute(rep, v["witness"])
    if res:
        rep.violation(res[0], v["witness"], res[1])
