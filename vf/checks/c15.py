"""C15 - a crash while writing the on-disk cache never poisons later runs.

Fault enumeration.  For each case (new entry / overwrite / update_from_tree; flat, split and
not-yet-existing directories) the unmodified writer is run once under the libc interposer
(vf/crash_shim.c) to learn how many bytes and filesystem events it produces under the cache
directory; then it is killed (_exit at the syscall boundary) after EVERY byte count 0..B and
before/after EVERY event 1..N.  After each kill, fresh reader processes are pointed at the
directory:
  search      ReusableHyperOptimizer(directory, overwrite=False).search(query), twice
  cache_only  may raise KeyError ('absent'); anything else must be a complete old/new answer
  diskdict    raw DiskDict read of the entry
  other       an entry stored before the crash must still be readable
The disk state after each kill is classified (absent / complete-old / complete-new / partial /
stray temp files) so the evidence shows which states were actually produced.
"""

import os
import shutil
import tempfile
import traceback

from .. import crash, gen
from ..common import Deadline, budget, rng_for

PID = "C15"
LEVEL = "fault_enumeration"
RULE = (
    "cases = {new entry, overwrite existing entry, update_from_tree} x {flat, split, non-existing directory} over "
    "seeded small networks x cache directory on the filesystem of the system temp dir (/var/tmp) or on another one "
    "(/dev/shm, when present); per case EVERY byte offset 0..len(entry) and before/after EVERY filesystem event of the "
    "writer under the cache directory is a crash point (exhaustive per case); distinct = distinct (case, crash point); "
    "non-trivial = the kill happened strictly inside the write sequence (not before the first or after the last event)"
)
ASSUMPTIONS = [
    "kill = _exit at a libc call boundary (process death, not power loss: the page cache survives)",
    "readers are forked from a warmed-up interpreter: no optimizer / DiskDict object pre-exists",
]
REQUIRED_MONITORS = ["crash_points", "byte_points", "event_points", "reader_search", "reader_cache_only", "reader_diskdict", "other_entry_readable", "killed_mid_write"]
SHARD_TIMEOUT = {"quick": 500, "thorough": 3600}
EXHAUSTIVE = "per case: every byte offset of the stored entry and every filesystem event (before/after) of the writer"

KINDS = ("new_split", "new_flat", "new_nodir", "overwrite_split", "overwrite_flat", "update_from_tree")


def nshards(tier):
    return 16


def classify(v):
    return None


def make_case(rng, cs, kind):
    net = gen.network(rng, 4, 7, cap=10**9, classes=("graph", "chain", "lattice", "hyper"))
    other = gen.network(rng, 4, 6, cap=10**9, classes=("graph", "chain"))
    q = lambda n: {"inputs": [list(t) for t in n.inputs], "output": list(n.output), "size_dict": n.size_dict}  # noqa
    return {
        "kind": kind, "query": q(net), "other": q(other), "N": net.N, "seed_old": rng.randrange(1000), "seed_new": rng.randrange(1000, 2000),
        "ssa": gen.random_ssa(rng, net.N), "case_seed": cs, "reader_split_auto": rng.random() < 0.5,
    }


def writer_spec(case, d, which):
    split = "flat" not in case["kind"]
    spec = {"op": "write", "dir": d, "directory_split": split, "query": case["query"], "action": "search"}
    if which == "other":
        spec.update(query=case["other"], seed=1, overwrite=False)
    elif which == "old":
        spec.update(seed=case["seed_old"], overwrite=False, max_repeats=1)
    else:
        spec.update(seed=case["seed_new"], overwrite=True, max_repeats=3)
        if case["kind"] == "update_from_tree":
            spec.update(action="update_from_tree", ssa=case["ssa"])
    return spec


def reader_spec(case, d, reader, query=None):
    split = "flat" not in case["kind"]
    spec = {"op": "read", "dir": d, "reader": reader, "query": query or case["query"], "directory_split": split, "attempts": 2}
    if case.get("reader_split_auto"):
        spec["reader_split"] = "auto"
    return spec


def cache_roots():
    """Where the cache directory lives is part of the environment: /var/tmp (same filesystem as the
    system temp dir here) and, when present, a writable directory on ANOTHER filesystem than the
    system temp dir (/dev/shm) - a rename from the temp dir into the cache is only atomic on one
    filesystem."""
    roots = ["/var/tmp"]
    try:
        tmpdev = os.stat(tempfile.gettempdir()).st_dev
        for cand in ("/dev/shm",):
            if os.path.isdir(cand) and os.access(cand, os.W_OK) and os.stat(cand).st_dev != tmpdev:
                roots.append(cand)
    except OSError:
        pass
    return roots


class Harness:
    def __init__(self, rep, base="/var/tmp"):
        self.rep = rep
        self.srv = crash.CrashServer()
        self.base = base
        self.root = tempfile.mkdtemp(prefix="vf-c15-", dir=base)

    def close(self):
        self.srv.close()
        shutil.rmtree(self.root, ignore_errors=True)

    def fresh(self, name):
        p = os.path.join(self.root, name)
        shutil.rmtree(p, ignore_errors=True)
        return p

    def prepare(self, case):
        """-> dict with template dir, reference info; None if the case is uninformative"""
        tmpl = self.fresh("tmpl")
        os.makedirs(tmpl)
        cache = os.path.join(tmpl, "cache")
        if case["kind"] != "new_nodir":
            os.makedirs(cache)
            # an unrelated entry stored before the crash
            r = self.srv.call(writer_spec(case, cache, "other"))
            if r["exit"] != 0:
                raise RuntimeError(f"could not store the other entry: {r}")
        old_files = {}
        if case["kind"].startswith("overwrite") or case["kind"] == "update_from_tree":
            before = crash.snapshot_dir(cache)
            r = self.srv.call(writer_spec(case, cache, "old"))
            if r["exit"] != 0:
                raise RuntimeError(f"could not store the old entry: {r}")
            after = crash.snapshot_dir(cache)
            old_files = {k: v for k, v in after.items() if v is not None and before.get(k) != v}
        pre_snapshot = crash.snapshot_dir(cache) if os.path.exists(cache) else {}
        # reference: the complete, un-killed writer
        refd = self.fresh("ref")
        shutil.copytree(tmpl, refd)
        rc = os.path.join(refd, "cache")
        log = os.path.join(self.root, "events.log")
        if os.path.exists(log):
            os.remove(log)
        spec = writer_spec(case, rc, "new")
        spec["env"] = {"VF_KILL_PREFIX": rc, "VF_KILL_LOG": log}
        r = self.srv.call(spec)
        if r["exit"] != 0:
            raise RuntimeError(f"reference writer failed: {r}")
        events = [l.split(" ", 3) for l in open(log).read().splitlines()] if os.path.exists(log) else []
        post = crash.snapshot_dir(rc)
        if case.get("audit"):
            self.audit(case, tmpl, sum(int(e[2]) for e in events if e[1] in ("write", "pwrite", "writev")))
        new_files = {k: v for k, v in post.items() if v is not None and pre_snapshot.get(k) != v}
        if len(new_files) != 1:
            return None
        target = next(iter(new_files))
        nbytes = sum(int(e[2]) for e in events if e[1] in ("write", "pwrite", "writev"))
        # what complete answers look like
        ans = {}
        for label, d in (("new", rc),):
            rr = self.srv.call(reader_spec(case, d, "cache_only"))
            ans[label] = rr["result"]["attempts"][0]
        if old_files:
            rr = self.srv.call(reader_spec(case, cache, "cache_only"))
            ans["old"] = rr["result"]["attempts"][0]
            if old_files.get(target) == new_files[target]:
                return None  # old and new entries identical: overwrite not observable
        other_ans = None
        if case["kind"] != "new_nodir":
            rr = self.srv.call(reader_spec(case, cache, "cache_only", query=case["other"]))
            other_ans = rr["result"]["attempts"][0]
        return {
            "tmpl": tmpl, "events": events, "nbytes": nbytes, "target": target, "new_sig": new_files[target], "old_sig": old_files.get(target),
            "answers": ans, "other": other_ans,
        }

    def audit(self, case, tmpl, shim_bytes):
        """Independent witness for the enumeration's completeness: the same writer, in a fresh interpreter
        without the interposer, under strace.  Every content/namespace-changing syscall that touches the
        cache directory must be one the interposer sees, and the bytes must add up - otherwise crash points
        exist that were not enumerated and the run is INCONCLUSIVE (never 'held')."""
        rep = self.rep
        ad = self.fresh("audit")
        shutil.copytree(tmpl, ad)
        cache = os.path.join(ad, "cache")
        spec = writer_spec(case, cache, "new")
        res = crash.strace_audit(spec, cache)
        if "error" in res:
            rep.count("syscall_audit_unavailable", res["error"][:80])
            return
        rep.count("syscall_audit_calls", " ".join(f"{k}x{v}" for k, v in sorted(res["calls"].items())))
        if res["unintercepted"]:
            rep.inconclusive_case(f"syscall audit ({case['kind']}, cache under {self.base}): the writer changes the cache directory through {res['unintercepted']}, which the interposer does not see: crash points inside them are not enumerated")
            rep.count("syscall_audit_unintercepted", ",".join(res["unintercepted"]))
            return
        if res["bytes"] != shim_bytes:
            rep.inconclusive_case(f"syscall audit ({case['kind']}): strace saw {res['bytes']} bytes written under the cache, the interposer {shim_bytes}")
            return
        rep.mon("syscall_audit_clean")

    def run_point(self, case, info, point):
        """-> None | (kind, message).  ``point`` = ("bytes", k) | ("event", n, "before"|"after")"""
        rep = self.rep
        work = self.fresh("work")
        shutil.copytree(info["tmpl"], work)
        cache = os.path.join(work, "cache")
        spec = writer_spec(case, cache, "new")
        env = {"VF_KILL_PREFIX": cache}
        if point[0] == "bytes":
            env["VF_KILL_AFTER"] = point[1]
        else:
            env["VF_KILL_EVENT"] = f"{point[1]}:{point[2]}"
        spec["env"] = env
        r = self.srv.call(spec)
        rep.mon("crash_points")
        rep.mon("byte_points" if point[0] == "bytes" else "event_points")
        killed = r["exit"] == 137
        if not killed and r["exit"] != 0:
            return ("harness", f"writer exited {r['exit']}: {r['result']}")
        # ---- classify the disk state --------------------------------------------
        snap = crash.snapshot_dir(cache) if os.path.exists(cache) else {}
        t = snap.get(info["target"])
        if t is None:
            state = "absent"
        elif t == info["new_sig"]:
            state = "complete-new"
        elif info["old_sig"] and t == info["old_sig"]:
            state = "complete-old"
        else:
            state = "partial"
        tmpl_snap_files = set(crash.snapshot_dir(os.path.join(info["tmpl"], "cache"))) if os.path.exists(os.path.join(info["tmpl"], "cache")) else set()
        stray = [k for k, v in snap.items() if v is not None and k != info["target"] and k not in tmpl_snap_files]
        rep.count("disk_states", state + ("+stray" if stray else ""))
        if killed and state not in ("complete-new",) or (killed and point[0] == "event"):
            rep.mon("killed_mid_write")
        where = f"{case['kind']} killed at {point} -> disk state {state}{' + stray ' + str(stray) if stray else ''}"
        ok_paths = [a["path"] for a in info["answers"].values() if a.get("ok")]

        # ---- readers --------------------------------------------------------------
        rr = self.srv.call(reader_spec(case, cache, "search"))
        rep.mon("reader_search")
        res = rr["result"]
        if rr["exit"] != 0 or res is None or "attempts" not in res:
            return ("reader_died", f"{where}: search reader died: {rr}")
        for i, a in enumerate(res["attempts"]):
            if not a["ok"]:
                rep.count("reader_outcomes", f"search:{a['err']}")
                return ("fails", f"{where}: a fresh optimizer on the directory fails on attempt {i + 1}: {a['err']}: {a.get('msg')}")
            if not a["complete"] or a["n"] != case["N"]:
                return ("bad_tree", f"{where}: search returned an incomplete / wrong tree")
        if res["searches"] == 0 and res["attempts"][0]["path"] not in ok_paths:
            return ("partial_used", f"{where}: an entry was used that is neither the complete old nor the complete new one")
        rep.count("reader_outcomes", "search:found" if res["searches"] == 0 else "search:searched-again")

        # after the search reader (which may have re-stored the entry) copy state is different; use a second copy for the rest
        work2 = self.fresh("work2")
        shutil.copytree(info["tmpl"], work2)
        cache2 = os.path.join(work2, "cache")
        spec2 = dict(spec, dir=cache2, env=dict(env, VF_KILL_PREFIX=cache2))
        self.srv.call(spec2)

        rr = self.srv.call(reader_spec(case, cache2, "cache_only"))
        rep.mon("reader_cache_only")
        res = rr["result"]
        if rr["exit"] != 0 or res is None or "attempts" not in res:
            return ("reader_died", f"{where}: cache_only reader died: {rr}")
        a = res["attempts"][0]
        if a["ok"]:
            rep.count("reader_outcomes", "cache_only:found")
            if a["path"] not in ok_paths or not a["complete"]:
                return ("partial_used", f"{where}: cache_only returned a tree that is neither the complete old nor new entry")
        elif a["err"] == "KeyError":
            rep.count("reader_outcomes", "cache_only:KeyError")
        else:
            rep.count("reader_outcomes", f"cache_only:{a['err']}")
            return ("fails", f"{where}: cache_only reader raised {a['err']}: {a.get('msg')} (only KeyError = 'absent' is acceptable)")
        if res["searches"]:
            return ("cache_only_searched", f"{where}: cache_only reader searched")

        key = info["target"].split("/")
        key = key if len(key) > 1 else key[0]
        rr = self.srv.call({"op": "read", "dir": cache2, "reader": "diskdict", "key": key})
        rep.mon("reader_diskdict")
        res = rr["result"]
        if rr["exit"] != 0 or res is None:
            return ("reader_died", f"{where}: DiskDict reader died: {rr}")
        if res.get("ok"):
            v = res["value"]
            if [list(p) for p in v.get("path", [])] not in ok_paths:
                return ("partial_used", f"{where}: DiskDict returned a value that is neither the old nor the new entry: {v}")
            rep.count("reader_outcomes", "diskdict:value")
        elif res.get("err") == "KeyError":
            rep.count("reader_outcomes", "diskdict:KeyError")
        else:
            rep.count("reader_outcomes", f"diskdict:{res.get('err')}")
            return ("fails", f"{where}: DiskDict read raised {res.get('err')}: {res.get('msg')}")

        if info["other"] is not None:
            # by a reader that is told the layout and by one that guesses it (directory_split='auto', the default)
            for auto in (False, True):
                spec = reader_spec(dict(case, reader_split_auto=auto), cache2, "cache_only", query=case["other"])
                rr = self.srv.call(spec)
                rep.mon("other_entry_readable")
                a = (rr["result"] or {}).get("attempts", [{}])[0]
                if not a.get("ok") or a["path"] != info["other"]["path"]:
                    return ("lost_entry", f"{where}: an entry stored before the crash is no longer readable{' (reader with directory_split=auto)' if auto else ''}: {a}")
        return None


def run_shard(rep, tier, seed, shard, nshards):
    if not crash.shim_available():
        rep.inconclusive_case("crash_shim.so not built (no compiler?)")
        return
    dl = Deadline(budget(tier, 90, 1200))
    roots = cache_roots()
    hs = {}
    try:
        ncases = budget(tier, 24, 192)
        for c in range(ncases):
            kind = KINDS[c % len(KINDS)]
            cs = f"{seed}/C15/{c}"  # cases are the same in every shard; crash points are split
            case = make_case(rng_for(cs), cs, kind)
            base = roots[(c // len(KINDS)) % len(roots)]
            case["cache_base"] = base
            case["audit"] = (c % nshards) == shard  # each case is audited by one shard
            if base not in hs:
                hs[base] = Harness(rep, base)
            h = hs[base]
            rep.count("cache_filesystem", f"{base} ({'same filesystem as' if base == roots[0] else 'OTHER filesystem than'} the system temp dir)")
            if base != roots[0]:
                rep.mon("cache_on_other_filesystem")
            try:
                info = h.prepare(case)
            except Exception as e:
                rep.inconclusive_case(f"prepare {kind}: {type(e).__name__}: {e} | {traceback.format_exc()[-300:]}")
                continue
            if info is None:
                rep.count("cases_skipped", kind)
                continue
            n_events = len(info["events"])
            points = [("bytes", k) for k in range(info["nbytes"] + 1)]
            points += [("event", n, ba) for n in range(1, n_events + 1) for ba in ("before", "after")]
            if shard == 0:
                rep.count("case_shapes", f"{kind}: {info['nbytes']} bytes, events {[e[1] for e in info['events']]}")
            for j, point in enumerate(points):
                if j % nshards != shard:
                    continue
                if dl.expired():
                    rep.note(f"deadline: case {c} ({kind}) stopped at point {j}/{len(points)}")
                    break
                inside = (point[0] == "bytes" and 0 < point[1] < info["nbytes"]) or (point[0] == "event" and not (point[1] == n_events and point[2] == "after"))
                rep.case((cs, point), inside, kind, sample={"kind": kind, "point": point, "bytes": info["nbytes"], "events": [e[1] for e in info["events"]]})
                try:
                    res = h.run_point(case, info, point)
                except Exception as e:
                    res = ("harness", f"{type(e).__name__}: {e} | {traceback.format_exc()[-400:]}")
                if res and res[0] == "harness":
                    rep.inconclusive_case(res[1])
                elif res:
                    rep.violation(res[0], {"case": case, "point": list(point)}, res[1])
            if dl.expired():
                break
    finally:
        for h in hs.values():
            h.close()


def replay(rep, v):
    w = v["witness"]
    base = w["case"].get("cache_base", "/var/tmp")
    h = Harness(rep, base if os.path.isdir(base) and os.access(base, os.W_OK) else "/var/tmp")
    try:
        info = h.prepare(w["case"])
        res = h.run_point(w["case"], info, tuple(w["point"]))
        if res:
            rep.violation(res[0], w, res[1])
    finally:
        h.close()


def finalize(rep, tier):
    bad = rep.extra.get("syscall_audit_unintercepted")
    if bad:
        return {"inconclusive_reason": f"syscall audit: the writer changes the cache directory through syscalls the crash interposer does not see ({dict(bad)}); crash points inside them were not enumerated"}
    return {}
