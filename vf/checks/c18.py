"""C18 - internal cost simulators agree; reported costs are those of what is returned.

Step agreement: one pairwise SSA path is replayed, step by step, through

  (i)   the ContractionTree                  (get_legs / get_size / get_flops),
  (ii)  the HyperGraph                       (compute_contracted_inds / candidate_contraction_size(chi=None)
                                              / contract_pair_cost before, contract + get_node / node_size after),
  (iii) the ContractionProcessor             (compute_contracted / compute_flops / compute_size, contract_nodes
                                              with flops tracking, the compute_con_cost_* rules of 'optimal'),
  (iv)  compute_contracted_info (annealing)  (chained on its own outputs, and fed the tree's legs),

and through the independent cost model ref.Costs, which arbitrates: at every step the SET of
surviving indices of the new tensor, its size and the step's operation count must be equal.

Reported cost: RandomGreedyOptimizer.best_flops, the flops returned by
optimize_random_greedy_track_flops and the score stored by ReusableRandomGreedyOptimizer (all
log10 of an integer operation count) must equal the total operation count of the tree built from
the path that is returned / stored.
"""

import math
import traceback

from cotengra.core import ContractionTree

from .. import ct, gen, ref
from ..common import Deadline, budget, rng_for

PID = "C18"
LEVEL = "exploration"
RULE = (
    "seeded generator over 10 network classes (graph, hyper, perverse, chain, lattice, disconnected, outer, "
    "hadamard, batch + 'special': hyper indices, batch / near-batch indices in or out of the output, output "
    "indices on several tensors, size-1 dims; 2-12 tensors) x {random uniform / caterpillar / balanced orders, "
    "orders produced by greedy, random-greedy, optimal, array_contract_path}; every pairwise step replayed "
    "through tree, hypergraph (networks without a repeated index inside a tensor), processor and annealing "
    "evaluator and compared with the independent model; plus a reported-cost workload over "
    "{RandomGreedyOptimizer, optimize_random_greedy_track_flops, ReusableRandomGreedyOptimizer} x "
    "simplify on/off. distinct = distinct (network, order) resp. (network, optimizer, parameters); non-trivial = "
    "the network has a hyper index (on >= 3 tensors) or an output index sitting on >= 2 tensors"
)
ASSUMPTIONS = [
    "the independent cost model (vf/ref.py Costs, no cotengra imports) is the definition of legs / size / flops",
    "hypergraph domain: no index repeated inside one tensor; its leaves are NOT single-term simplified, so its "
    "pair cost is compared with the model evaluated on the raw leaf terms",
    "processor: only its own simplify_single_terms() is applied before the replay (simplify_batch / "
    "simplify_hadamard transform the network and are observed through the reported-cost monitor)",
    "pure python code paths only (accel=False, parallel=False); cotengrust is not installed",
    "reported costs are log10 of an integer: compared exactly after rounding 10**x (and to 1e-9 in log space)",
]
REQUIRED_MONITORS = [
    "step_tree_vs_model",
    "step_hypergraph_vs_model",
    "step_processor_vs_model",
    "step_anneal_vs_model",
    "reported_cost_vs_tree",
    "reported:hyper",
]
SHARD_TIMEOUT = {"quick": 400, "thorough": 3600}

KNOWN_KEY = "rg-flops-omits-batch-simplified-index"
# per shard, how many violations of one already-classified mechanism are stored with a witness
# (all of them are counted in the evidence under "mechanism"); keeps the 40-violation budget of
# a shard for anything that is NOT explained by the known mechanism
MAX_PER_MECHANISM = 3


def nshards(tier):
    return 16


# --------------------------------------------------------------------------- #
#                                  helpers                                    #
# --------------------------------------------------------------------------- #


def _prod(sizes, ixs):
    p = 1
    for ix in ixs:
        p *= sizes[ix]
    return p


def tensors_of(inputs):
    """index -> number of distinct tensors it sits on"""
    on = {}
    for t in inputs:
        for ix in set(t):
            on[ix] = on.get(ix, 0) + 1
    return on


def batch_removed(inputs):
    """The indices ContractionProcessor.simplify_batch drops: those sitting on every tensor."""
    n = len(inputs)
    on = tensors_of(inputs)
    return sorted(ix for ix, c in on.items() if c >= n)


def is_nontrivial(net):
    on = tensors_of(net.inputs)
    if any(c >= 3 for c in on.values()):
        return True
    return any(on.get(ix, 0) >= 2 for ix in net.output)


def features(net):
    on = tensors_of(net.inputs)
    f = []
    if any(c >= 3 for c in on.values()):
        f.append("hyper")
    if any(on.get(ix, 0) >= 2 for ix in net.output):
        f.append("multi_tensor_output")
    if net.N >= 2 and any(c >= net.N for c in on.values()):
        f.append("batch_in_output" if any(on.get(ix, 0) >= net.N for ix in net.output) else "batch_summed")
    if any(d == 1 for d in net.size_dict.values()):
        f.append("size1")
    if net.has_repeat():
        f.append("repeat")
    if any(len(t) == 0 for t in net.inputs):
        f.append("scalar")
    return f


def already_simplified(net):
    """no leaf needs a single-term simplification (repeated index / index summed on one tensor):
    the documented precondition of ``simplify=False``"""
    costs = ref.Costs(net.inputs, net.output, net.size_dict, {})
    return not any(costs.leaf_needs_preprocessing(i) for i in range(net.N))


def normalise_ssa(n, ssa):
    """An SSA path that may contain single-term steps (i,) -> the equivalent path of PAIRS with
    fresh SSA numbering.  None if a step has more than two operands or the path is incomplete."""
    alias = {i: i for i in range(n)}
    out = []
    nxt_in = n
    nxt_out = n
    for step in ssa:
        step = tuple(step)
        if len(step) == 1:
            alias[nxt_in] = alias.pop(step[0])
        elif len(step) == 2:
            a, b = alias.pop(step[0]), alias.pop(step[1])
            out.append((min(a, b), max(a, b)))
            alias[nxt_in] = nxt_out
            nxt_out += 1
        else:
            return None
        nxt_in += 1
    if len(out) != n - 1:
        return None
    return out


def special_net(rng, n, cap):
    """graph / hyper base plus the features the property statement singles out."""
    base = gen.graph_net(rng, n, hyper=rng.randint(0, 3), cap=10**18, dmin=2, dmax=5, p_one=0.12, cls="special")
    terms = [list(t) for t in base.inputs]
    output = list(base.output)
    sd = dict(base.size_dict)
    nxt = len(sd)

    def fresh():
        nonlocal nxt
        while gen.symbol(nxt) in sd:
            nxt += 1
        s = gen.symbol(nxt)
        nxt += 1
        return s

    r = rng.random()
    if r < 0.45:
        # batch index on all tensors
        b = fresh()
        sd[b] = rng.choice([1, 2, 2, 3, 5])
        for t in terms:
            t.insert(rng.randint(0, len(t)), b)
        if rng.random() < 0.5:
            output.append(b)
        if rng.random() < 0.25:
            b2 = fresh()
            sd[b2] = rng.choice([2, 3])
            for t in terms:
                t.insert(rng.randint(0, len(t)), b2)
            if rng.random() < 0.5:
                output.append(b2)
    elif r < 0.65 and n >= 3:
        # near batch: on all tensors but one (the boundary of the simplify_batch rule)
        b = fresh()
        sd[b] = rng.choice([2, 3, 4])
        skip = rng.randrange(n)
        for k, t in enumerate(terms):
            if k != skip:
                t.insert(rng.randint(0, len(t)), b)
        if rng.random() < 0.5:
            output.append(b)
    # inner / hyper indices that are also kept in the output
    on = tensors_of(terms)
    multi = sorted(ix for ix, c in on.items() if c >= 2 and ix not in output)
    rng.shuffle(multi)
    for ix in multi[: rng.choice([0, 1, 1, 2])]:
        output.append(ix)
    rng.shuffle(output)
    sd = gen._cap_sizes(terms, output, sd, cap, rng)
    return gen.Net(terms, output, sd, "special")


CLASS_WEIGHTS = (
    ("special", 6),
    ("hyper", 3),
    ("batch", 3),
    ("hadamard", 2),
    ("perverse", 3),
    ("graph", 2),
    ("chain", 1),
    ("lattice", 1),
    ("disconnected", 1),
    ("outer", 1),
)


def gen_net(rng, nmin, nmax, cap):
    tot = sum(w for _, w in CLASS_WEIGHTS)
    x = rng.randrange(tot)
    for cls, w in CLASS_WEIGHTS:
        if x < w:
            break
        x -= w
    for _ in range(20):
        if cls == "special":
            net = special_net(rng, rng.randint(nmin, nmax), cap)
        else:
            net = gen.network(rng, nmin, nmax, cap=cap, cls=cls)
        if nmin <= net.N <= max(nmax, 12):
            return net
    return special_net(rng, nmin, cap)


# --------------------------------------------------------------------------- #
#                         step agreement: the simulators                      #
# --------------------------------------------------------------------------- #


class Mismatch(Exception):
    def __init__(self, sim, step, field, got, want, extra=""):
        super().__init__(f"{sim} step {step} {field}: got {got!r} expected {want!r} {extra}")
        self.sim, self.step, self.field, self.got, self.want, self.extra = sim, step, field, got, want, extra


class Model:
    """ref.Costs evaluated along the path: per step the parent node, the expected legs (set),
    size and flops."""

    def __init__(self, net, ssa):
        self.net = net
        self.N = net.N
        self.ssa = [tuple(s) for s in ssa]
        self.children = ref.ssa_to_children(net.N, self.ssa)
        self.costs = ref.Costs(net.inputs, net.output, net.size_dict, self.children)
        self.node_of = {i: frozenset([i]) for i in range(net.N)}
        self.steps = []
        nxt = net.N
        for a, b in self.ssa:
            p = self.node_of[a] | self.node_of[b]
            self.node_of[nxt] = p
            self.steps.append(
                {
                    "a": a,
                    "b": b,
                    "new": nxt,
                    "node": p,
                    "legs": frozenset(self.costs.legs(p)),
                    "size": self.costs.node_size(p),
                    "flops": self.costs.node_flops(p),
                }
            )
            nxt += 1

    def legs_dict(self, node):
        """legs with their multiplicities, the representation the tree / annealer use"""
        return {ix: self.costs.count(node, ix) for ix in self.costs.legs(node)}

    def raw_inds(self, ssa_id):
        """indices a simulator WITHOUT leaf simplification holds for this operand"""
        node = self.node_of[ssa_id]
        if len(node) == 1:
            return set(self.net.inputs[next(iter(node))])
        return set(self.costs.legs(node))


def _cmp(sim, k, field, got, want, extra=""):
    if got != want:
        if isinstance(got, (set, frozenset)):
            got, want = sorted(got), sorted(want)
        raise Mismatch(sim, k, field, got, want, extra)


def sim_tree(rep, net, model):
    tree = ct.make_tree(net, model.ssa)
    for i in range(net.N):
        leaf = frozenset([i])
        _cmp("tree", -1, f"leaf {i} legs", set(tree.get_legs(leaf)), set(model.costs.legs(leaf)))
    for k, st in enumerate(model.steps):
        p = st["node"]
        _cmp("tree", k, "legs", set(tree.get_legs(p)), st["legs"])
        _cmp("tree", k, "size", tree.get_size(p), st["size"])
        _cmp("tree", k, "flops", tree.get_flops(p), st["flops"])
        _cmp("tree", k, "involved", set(tree.get_involved(p)), set(model.costs.involved(p)))
        rep.mon("step_tree_vs_model")
    _cmp("tree", len(model.steps), "total_flops", tree.total_flops(), model.costs.total_flops())
    _cmp("tree", len(model.steps), "max_size", tree.max_size(), model.costs.max_size())
    return tree


def sim_hypergraph(rep, net, model):
    import cotengra

    hg = cotengra.get_hypergraph([tuple(t) for t in net.inputs], tuple(net.output), dict(net.size_dict), accel=False)
    ids = {i: i for i in range(net.N)}
    sd = net.size_dict
    for k, st in enumerate(model.steps):
        i, j = ids[st["a"]], ids[st["b"]]
        pred = list(hg.compute_contracted_inds((i, j)))
        _cmp("hypergraph", k, "compute_contracted_inds", set(pred), st["legs"])
        _cmp("hypergraph", k, "compute_contracted_inds duplicates", len(pred), len(set(pred)))
        _cmp("hypergraph", k, "candidate_contraction_size", hg.candidate_contraction_size(i, j), st["size"])
        # chi >= every bond can never truncate: same size
        _cmp(
            "hypergraph",
            k,
            "candidate_contraction_size(chi=inf)",
            hg.candidate_contraction_size(i, j, chi=10**30),
            st["size"],
        )
        raw = model.raw_inds(st["a"]) | model.raw_inds(st["b"])
        want_cost = _prod(sd, raw)
        _cmp("hypergraph", k, "contract_pair_cost", hg.contract_pair_cost(i, j), want_cost)
        if want_cost == st["flops"]:
            rep.mon("step_hypergraph_flops_eq_model")
        new = hg.contract(i, j)
        got = hg.get_node(new)
        _cmp("hypergraph", k, "legs", set(got), st["legs"])
        _cmp("hypergraph", k, "legs duplicates", len(got), len(set(got)))
        _cmp("hypergraph", k, "node_size", hg.node_size(new), st["size"])
        ids[st["new"]] = new
        rep.mon("step_hypergraph_vs_model")
    _cmp("hypergraph", len(model.steps), "num_nodes", hg.get_num_nodes(), 1)


def _merge_sorted(ilegs, jlegs):
    """sorted union of two (ix, count) leg lists with counts added: the merge loop that
    optimize_optimal_connected performs before calling compute_con_cost_*"""
    d = {}
    for ix, c in ilegs:
        d[ix] = d.get(ix, 0) + c
    for ix, c in jlegs:
        d[ix] = d.get(ix, 0) + c
    return sorted(d.items())


def sim_processor(rep, net, model):
    from cotengra.pathfinders import path_basic as pb

    cp = pb.ContractionProcessor(
        [tuple(t) for t in net.inputs], tuple(net.output), dict(net.size_dict), track_flops=True
    )
    cp.simplify_single_terms()
    if cp.flops != 0:
        raise Mismatch("processor", -1, "flops after simplify_single_terms", cp.flops, 0)
    ids = {i: i for i in range(net.N)}
    for pos, step in enumerate(cp.ssa_path):
        if len(step) != 1:
            raise Mismatch("processor", -1, "simplify_single_terms step", step, "(i,)")
        ids[step[0]] = net.N + pos
    label = {v: k for k, v in cp.indmap.items()}

    def labels(legs):
        return [label[ix] for ix, _ in legs]

    for i in range(net.N):
        got = labels(cp.nodes[ids[i]])
        _cmp("processor", -1, f"leaf {i} legs", set(got), set(model.costs.legs(frozenset([i]))))
        _cmp("processor", -1, f"leaf {i} legs duplicates", len(got), len(set(got)))

    for k, st in enumerate(model.steps):
        i, j = ids[st["a"]], ids[st["b"]]
        ilegs, jlegs = cp.nodes[i], cp.nodes[j]
        # the module level rules, as used by greedy
        pred = pb.compute_contracted(ilegs, jlegs, cp.appearances)
        _cmp("processor", k, "compute_contracted", set(labels(pred)), st["legs"])
        _cmp("processor", k, "compute_contracted duplicates", len(pred), len(set(labels(pred))))
        _cmp("processor", k, "compute_size", pb.compute_size(pred, cp.sizes), st["size"])
        _cmp("processor", k, "compute_flops", pb.compute_flops(ilegs, jlegs, cp.sizes), st["flops"])
        # the rules used by the dynamic programme of 'optimal'
        for name, want in (
            ("flops", st["flops"]),
            ("size", st["size"]),
            ("write", st["size"]),
            ("max", st["flops"]),
        ):
            tmp = _merge_sorted(ilegs, jlegs)
            got = getattr(pb, f"compute_con_cost_{name}")(tmp, cp.appearances, cp.sizes, 0, 0)
            _cmp("processor", k, f"compute_con_cost_{name}", got, want)
            _cmp("processor", k, f"compute_con_cost_{name} legs", set(labels(tmp)), st["legs"])
        tmp = _merge_sorted(ilegs, jlegs)
        got = pb.compute_con_cost_combo(tmp, cp.appearances, cp.sizes, 0, 0, 64)
        _cmp("processor", k, "compute_con_cost_combo", got, st["flops"] + 64 * st["size"])
        tmp = _merge_sorted(ilegs, jlegs)
        got = pb.compute_con_cost_limit(tmp, cp.appearances, cp.sizes, 0, 0, 64)
        _cmp("processor", k, "compute_con_cost_limit", got, max(st["flops"], 64 * st["size"]))
        rep.mon("step_processor_concost")
        # the stateful step with flops tracking
        f0 = cp.flops
        new = cp.contract_nodes(i, j)
        legs = cp.nodes[new]
        _cmp("processor", k, "legs", set(labels(legs)), st["legs"])
        _cmp("processor", k, "legs duplicates", len(legs), len(set(labels(legs))))
        _cmp("processor", k, "size", pb.compute_size(legs, cp.sizes), st["size"])
        _cmp("processor", k, "tracked flops", cp.flops - f0, st["flops"])
        if list(legs) != sorted(legs):
            raise Mismatch("processor", k, "legs sorted", list(legs), sorted(legs))
        ids[st["new"]] = new
        rep.mon("step_processor_vs_model")
    _cmp("processor", len(model.steps), "total tracked flops", cp.flops, model.costs.total_flops())
    _cmp("processor", len(model.steps), "nodes left", len(cp.nodes), 1)


def sim_anneal(rep, net, model, tree):
    from cotengra.pathfinders.path_simulated_annealing import compute_contracted_info

    appear = dict(model.costs.appear)
    sd = dict(net.size_dict)
    chained = {i: model.legs_dict(frozenset([i])) for i in range(net.N)}
    for k, st in enumerate(model.steps):
        a, b = st["a"], st["b"]
        # chained on its own results, both operand orders
        for tag, (x, y) in (("ab", (a, b)), ("ba", (b, a))):
            legs, cost, size = compute_contracted_info(dict(chained[x]), dict(chained[y]), appear, sd)
            _cmp("anneal", k, f"legs[{tag}]", set(legs), st["legs"])
            _cmp("anneal", k, f"cost[{tag}]", cost, st["flops"])
            _cmp("anneal", k, f"size[{tag}]", size, st["size"])
            if len(st["node"]) != model.N:
                # multiplicities feed the following steps (irrelevant for the root)
                _cmp("anneal", k, f"leg counts[{tag}]", dict(legs), model.legs_dict(st["node"]))
        chained[st["new"]] = legs
        rep.mon("step_anneal_vs_model")
        # fed exactly what the annealer feeds it: the tree's legs
        if tree is not None:
            na, nb = model.node_of[a], model.node_of[b]
            legs, cost, size = compute_contracted_info(
                tree.get_legs(na), tree.get_legs(nb), tree.appearances, tree.size_dict
            )
            p = st["node"]
            _cmp("anneal(tree legs)", k, "legs vs tree", set(legs), set(tree.get_legs(p)))
            _cmp("anneal(tree legs)", k, "cost vs tree", cost, tree.get_flops(p))
            _cmp("anneal(tree legs)", k, "size vs tree", size, tree.get_size(p))
            _cmp("anneal(tree legs)", k, "legs", set(legs), st["legs"])
            _cmp("anneal(tree legs)", k, "cost", cost, st["flops"])
            _cmp("anneal(tree legs)", k, "size", size, st["size"])
            rep.mon("step_anneal_tree_fed")


def execute_step(rep, case):
    """-> list of (kind, message, detail dict); empty when every simulator agrees"""
    net = gen.Net.from_json(case["net"])
    ssa = [tuple(s) for s in case["ssa"]]
    bad = ref.check_ssa_path(net.N, ssa)
    if bad or any(len(s) != 2 for s in ssa):
        rep.inconclusive_case(f"generated path is not a complete pairwise ssa path: {bad}")
        return []
    try:
        model = Model(net, ssa)
    except Exception as e:
        rep.inconclusive_case(f"model failed: {e!r}")
        return []
    out = []

    def run(name, fn, *a):
        try:
            return fn(rep, net, model, *a)
        except Mismatch as m:
            out.append(
                (
                    f"step_{name}",
                    str(m),
                    {"sim": m.sim, "step": m.step, "field": m.field, "got": m.got, "want": m.want},
                )
            )
        except Exception as e:
            out.append(
                (
                    f"step_{name}_raises",
                    f"{type(e).__name__}: {e} | {traceback.format_exc()[-500:]}",
                    {"sim": name, "step": None, "field": "exception", "got": repr(e), "want": None},
                )
            )
        return None

    tree = run("tree", sim_tree)
    if not net.has_repeat():
        run("hypergraph", sim_hypergraph)
    else:
        rep.count("hypergraph_domain", "skipped_repeated_index")
    run("processor", sim_processor)
    run("anneal", sim_anneal, tree)
    return out


# --------------------------------------------------------------------------- #
#                               reported cost                                 #
# --------------------------------------------------------------------------- #


def _int_of_log10(x):
    """the integer whose log10 is x (reported costs are math.log10(int)); None if x is not
    the log10 of an integer to 1e-9"""
    if x != x or x in (float("inf"), float("-inf")):
        return None
    v = round(10.0**x)
    if v <= 0:
        return None
    if abs(math.log10(v) - x) > 1e-9 * max(1.0, abs(x)):
        return None
    return v


def _tree_flops(net, path=None, ssa_path=None):
    if ssa_path is not None:
        tree = ContractionTree.from_path(
            net.inputs, net.output, net.size_dict, ssa_path=[tuple(p) for p in ssa_path], autocomplete=False
        )
    else:
        tree = ContractionTree.from_path(
            net.inputs, net.output, net.size_dict, path=[tuple(p) for p in path], autocomplete=False
        )
    if not tree.is_complete():
        raise ValueError("returned path does not contract the network completely")
    return tree, tree.total_flops()


def _model_flops(net, tree):
    return ct.costs_of(tree).total_flops()


def execute_reported(rep, case):
    """-> list of (kind, message, detail)"""
    from cotengra.pathfinders import path_basic as pb

    net = gen.Net.from_json(case["net"])
    inputs = [tuple(t) for t in net.inputs]
    output = tuple(net.output)
    sd = dict(net.size_dict)
    which = case["which"]
    simplify = bool(case["simplify"])
    seed = int(case["opt_seed"])
    reps = int(case["repeats"])
    observations = []  # (label, reported log10, path kind, path)
    try:
        if which == "rg":
            opt = pb.RandomGreedyOptimizer(
                max_repeats=reps, seed=seed, simplify=simplify, accel=False, parallel=False
            )
            for call in range(int(case.get("calls", 1))):
                path = opt(inputs, output, sd)
                observations.append((f"RandomGreedyOptimizer call {call}: best_flops vs returned path", opt.best_flops, "path", path))
                observations.append((f"RandomGreedyOptimizer call {call}: best_flops vs best_ssa_path", opt.best_flops, "ssa", opt.best_ssa_path))
        elif which == "rg_search":
            opt = pb.RandomGreedyOptimizer(
                max_repeats=reps, seed=seed, simplify=simplify, accel=False, parallel=False
            )
            tree = opt.search(inputs, output, sd)
            observations.append(("RandomGreedyOptimizer.search: best_flops vs tree.get_path()", opt.best_flops, "path", tree.get_path()))
        elif which == "track":
            kw = {}
            if case.get("costmod") is not None:
                kw["costmod"] = float(case["costmod"])
            if case.get("temperature") is not None:
                kw["temperature"] = float(case["temperature"])
            use_ssa = bool(case.get("use_ssa", True))
            path, flops = pb.optimize_random_greedy_track_flops(
                inputs, output, sd, ntrials=reps, seed=seed, simplify=simplify, use_ssa=use_ssa, **kw
            )
            observations.append(("optimize_random_greedy_track_flops", flops, "ssa" if use_ssa else "path", path))
        elif which == "reusable":
            import cotengra

            opt = cotengra.ReusableRandomGreedyOptimizer(
                max_repeats=reps, seed=seed, simplify=simplify, accel=False, parallel=False
            )
            if case.get("via") == "call":
                path = opt(inputs, output, sd)
            else:
                path = opt.search(inputs, output, sd).get_path()
            h, missing = opt.hash_query(inputs, output, sd)
            if missing:
                return [("reported_cost", "ReusableRandomGreedyOptimizer stored nothing for the query", {"field": "cache"})]
            con = opt._cache[h]
            observations.append(("ReusableRandomGreedyOptimizer stored score vs stored path", con["score"], "path", con["path"]))
            observations.append(("ReusableRandomGreedyOptimizer stored score vs returned path", con["score"], "path", path))
            # second query is served from the cache: same path, same stored score
            path2 = opt(inputs, output, sd)
            con2 = opt._cache[h]
            observations.append(("ReusableRandomGreedyOptimizer (cached) stored score vs returned path", con2["score"], "path", path2))
        elif which == "hyper":
            import random as _random

            import cotengra

            _random.seed(seed)  # trial wrappers draw from the global generator
            post = case.get("post", "none")
            kw = {}
            if post == "reconf":
                kw["reconf_opts"] = {"subtree_size": 4, "maxiter": 3}
            elif post == "anneal":
                kw["simulated_annealing_opts"] = {"tsteps": 3, "numiter": 4, "tstart": 2.0, "seed": seed}
            opt = cotengra.HyperOptimizer(
                methods=["greedy"], max_repeats=max(2, reps), parallel=False, optlib="random", seed=seed, minimize="flops",
                progbar=False, on_trial_error="raise", **kw,
            )
            if case.get("via") == "call":
                path = opt(inputs, output, sd)
            else:
                path = opt.search(inputs, output, sd).get_path()
            observations.append((f"HyperOptimizer({post}).best['flops'] vs returned path", math.log10(opt.best["flops"]), "path", path))
            observations.append((f"HyperOptimizer({post}).best['flops'] vs opt.path", math.log10(opt.best["flops"]), "path", opt.path))
        else:
            raise ValueError(which)
    except Exception as e:
        rep.inconclusive_case(f"optimizer raised on {net.eq()} ({which}): {type(e).__name__}: {e}")
        rep.count("optimizer_raises", which)
        return []

    out = []
    for label, reported, pk, path in observations:
        try:
            tree, tf = _tree_flops(net, **({"ssa_path": path} if pk == "ssa" else {"path": path}))
        except Exception as e:
            out.append(("reported_path", f"{label}: cannot build a tree from the returned path {path!r}: {type(e).__name__}: {e}", {"field": "path"}))
            break
        mf = _model_flops(net, tree)
        rep.mon("reported_cost_vs_tree")
        rep.mon(f"reported:{which}")
        if mf != tf:
            out.append(("step_tree", f"{label}: tree.total_flops()={tf} but the independent model says {mf}", {"field": "tree_vs_model", "tree_flops": tf, "model_flops": mf}))
            break
        rint = _int_of_log10(reported)
        ok = rint is not None and rint == tf and abs(reported - math.log10(tf)) <= 1e-9 * max(1.0, abs(reported))
        if not ok:
            removed = batch_removed(inputs) if simplify else []
            out.append(
                (
                    "reported_cost",
                    f"{label}: reported log10 flops {reported!r} (= {rint if rint is not None else 10.0 ** reported if reported == reported and abs(reported) < 300 else reported}) "
                    f"but the tree built from the path {list(map(tuple, path))!r} costs {tf} (log10 {math.log10(tf):.12g}); "
                    f"indices on every tensor (dropped by simplify_batch): {removed} sizes {[sd[ix] for ix in removed]}",
                    {
                        "field": label,
                        "reported_log10": reported,
                        "reported_int": rint,
                        "tree_flops": tf,
                        "model_flops": mf,
                        "path": [list(p) for p in path],
                        "path_kind": pk,
                        "batch_removed": removed,
                    },
                )
            )
            break
    return out


# --------------------------------------------------------------------------- #
#                               classification                                #
# --------------------------------------------------------------------------- #


def classify(v):
    """mechanism key for KNOWN_FINDINGS.  Only from the witness, no library code.

    rg-flops-omits-batch-simplified-index: ContractionProcessor.simplify_batch() removes every
    index that sits on all tensors *before* the tracked flops are accumulated, and nothing
    multiplies the sizes back: the reported cost is the true one divided by the product of the
    sizes of those indices (such an index takes part in every pairwise step)."""
    try:
        if v.get("kind") != "reported_cost":
            return None
        w = v["witness"]
        if w.get("monitor") != "reported" or not w.get("simplify"):
            return None
        d = w.get("detail") or {}
        rint, tf = d.get("reported_int"), d.get("tree_flops")
        if not isinstance(rint, int) or not isinstance(tf, int) or isinstance(rint, bool):
            return None
        net = w["net"]
        removed = batch_removed([tuple(t) for t in net["inputs"]])
        if not removed or len(net["inputs"]) < 2:
            return None
        factor = 1
        for ix in removed:
            factor *= int(net["size_dict"][ix])
        if factor > 1 and rint * factor == tf and d.get("model_flops") == tf:
            return KNOWN_KEY
    except Exception:
        return None
    return None


# --------------------------------------------------------------------------- #
#                                  workload                                   #
# --------------------------------------------------------------------------- #

ORDER_KINDS = ("uniform", "uniform", "caterpillar", "balanced", "greedy", "random_greedy", "optimal", "acp_greedy")


def make_order(rng, net, kind):
    """-> pairwise ssa path (list of pairs) or None.  The library is used here only as a
    *generator* of orders, never as an oracle."""
    from cotengra.pathfinders import path_basic as pb

    inputs = [tuple(t) for t in net.inputs]
    output = tuple(net.output)
    sd = dict(net.size_dict)
    n = net.N
    if kind in ("uniform", "caterpillar", "balanced"):
        return [tuple(p) for p in gen.random_ssa(rng, n, kind)]
    try:
        if kind == "greedy":
            ssa = pb.optimize_greedy(
                inputs, output, sd, costmod=rng.choice([1.0, 0.5, 2.0]), temperature=rng.choice([0.0, 0.0, 0.5]),
                simplify=rng.random() < 0.8, use_ssa=True,
            )
        elif kind == "random_greedy":
            ssa, _ = pb.optimize_random_greedy_track_flops(
                inputs, output, sd, ntrials=rng.randint(1, 3), seed=rng.getrandbits(30), simplify=rng.random() < 0.8, use_ssa=True
            )
        elif kind == "optimal":
            if n > 7:
                return None
            ssa = pb.optimize_optimal(
                inputs, output, sd, minimize=rng.choice(["flops", "size", "write", "combo", "max", "limit"]),
                search_outer=rng.random() < 0.3, simplify=rng.random() < 0.8, use_ssa=True,
            )
        elif kind == "acp_greedy":
            import cotengra

            path = cotengra.array_contract_path(inputs, output, size_dict=sd, optimize="greedy", cache=False)
            ssa = ref.linear_to_ssa_model([tuple(p) for p in path], n)
        else:
            return None
    except Exception:
        return None
    return normalise_ssa(n, ssa)


def gen_step_case(rng, cs, tier):
    cap = rng.choice([10**4, 10**6, 10**9])
    net = gen_net(rng, 2, 12, cap)
    kind = rng.choice(ORDER_KINDS)
    ssa = make_order(rng, net, kind)
    if ssa is None or ref.check_ssa_path(net.N, ssa):
        kind = "uniform"
        ssa = [tuple(p) for p in gen.random_ssa(rng, net.N, "uniform")]
    return {"monitor": "step", "net": net.to_json(), "ssa": [list(p) for p in ssa], "order": kind, "case_seed": cs}


def gen_reported_case(rng, cs, tier):
    cap = rng.choice([10**4, 10**6, 10**9])
    net = gen_net(rng, 2, 10, cap)
    which = rng.choice(["rg", "rg", "rg_search", "track", "track", "reusable", "hyper", "hyper"])
    # simplify=False is documented as valid only when "the input indices are already in a
    # simplified form": no repeated index inside a tensor, no index summed on a single tensor
    simplify = rng.random() < 0.7 or not already_simplified(net)
    case = {
        "monitor": "reported",
        "net": net.to_json(),
        "which": which,
        "simplify": simplify,
        "opt_seed": rng.getrandbits(30),
        "repeats": rng.choice([1, 1, 2, 4, 8]),
        "case_seed": cs,
    }
    if which == "rg":
        case["calls"] = rng.choice([1, 2, 2, 3])
    if which == "track":
        case["use_ssa"] = rng.random() < 0.5
        if rng.random() < 0.3:
            case["costmod"] = rng.choice([0.5, 1.0, 2.0])
            case["temperature"] = rng.choice([0.0, 0.01, 1.0])
    if which == "reusable":
        case["via"] = rng.choice(["search", "call"])
    if which == "hyper":
        case["via"] = rng.choice(["search", "call"])
        case["post"] = rng.choice(["none", "reconf", "anneal", "anneal"])
    return case


def _record(rep, case, problems, state):
    net = gen.Net.from_json(case["net"])
    for kind, msg, detail in problems:
        w = dict(case)
        w["detail"] = detail
        key = classify({"kind": kind, "witness": w})
        rep.count("mechanism", f"{kind}:{key}")
        if key is not None:
            state[key] = state.get(key, 0) + 1
            if state[key] > MAX_PER_MECHANISM:
                continue
        if case["monitor"] == "step":
            head = f"{net.eq()} sizes={net.size_dict} ssa={case['ssa']} ({case.get('order')})"
        else:
            head = f"{net.eq()} sizes={net.size_dict} {case['which']}(repeats={case['repeats']}, seed={case['opt_seed']}, simplify={case['simplify']})"
        rep.violation(kind, w, f"{head}: {msg}")


def _register(rep, case):
    net = gen.Net.from_json(case["net"])
    if case["monitor"] == "step":
        key = ("step", net.key(), tuple(map(tuple, case["ssa"])))
        sample = {"eq": net.eq(), "sizes": net.size_dict, "ssa": case["ssa"], "order": case.get("order")}
        rep.count("order_kind", case.get("order"))
        rep.count("ntensors_step", net.N)
    else:
        key = (
            "reported",
            net.key(),
            case["which"],
            case["simplify"],
            case["opt_seed"],
            case["repeats"],
            repr(sorted((k, v) for k, v in case.items() if k in ("calls", "use_ssa", "costmod", "temperature", "via"))),
        )
        sample = {"eq": net.eq(), "sizes": net.size_dict, "which": case["which"], "simplify": case["simplify"], "repeats": case["repeats"]}
        rep.count("reported_which", f"{case['which']}:simplify={case['simplify']}")
        if case["simplify"] and any(net.size_dict[ix] > 1 for ix in batch_removed(net.inputs)):
            rep.count("reported_batch_removed_nontrivial", case["which"])
    rep.case(key, is_nontrivial(net), f"{case['monitor']}:{net.cls}", sample=sample)
    for f in features(net):
        rep.count(f"features_{case['monitor']}", f)


def run_case(rep, case, state):
    _register(rep, case)
    if case["monitor"] == "step":
        problems = execute_step(rep, case)
    else:
        problems = execute_reported(rep, case)
    _record(rep, case, problems, state)


def run_shard(rep, tier, seed, shard, nshards):
    state = {}
    # the fixed witness of F10 and its neighbours (shard 0 only, deterministic)
    if shard == 0:
        for eq_in, eq_out, d in (
            (("ab", "bc"), "ac", 3),
            (("ab", "bc"), "ac", 1),
            (("xab", "xbc", "xcd"), "ad", 3),
            (("xab", "xbc", "xcd"), "xad", 2),
        ):
            sizes = {ix: d for t in eq_in for ix in t}
            net = gen.Net([tuple(t) for t in eq_in], tuple(eq_out), sizes, "fixed")
            for which in ("rg", "track", "reusable"):
                for simplify in (True, False):
                    case = {
                        "monitor": "reported", "net": net.to_json(), "which": which, "simplify": simplify,
                        "opt_seed": 0, "repeats": 2, "case_seed": f"{seed}/C18/fixed",
                    }
                    run_case(rep, case, state)
            case = {"monitor": "step", "net": net.to_json(), "ssa": [list(p) for p in gen.random_ssa(rng_for("c18fixed"), net.N, "caterpillar")], "order": "caterpillar", "case_seed": f"{seed}/C18/fixed"}
            run_case(rep, case, state)

    dl = Deadline(budget(tier, 40, 400))
    n_step = budget(tier, 4000, 60000)
    for k in range(n_step):
        if dl.expired():
            break
        cs = f"{seed}/C18/step/{shard}/{k}"
        run_case(rep, gen_step_case(rng_for(cs), cs, tier), state)
    dl2 = Deadline(budget(tier, 40, 400))
    n_rep = budget(tier, 2000, 30000)
    for k in range(n_rep):
        if dl2.expired():
            break
        cs = f"{seed}/C18/reported/{shard}/{k}"
        run_case(rep, gen_reported_case(rng_for(cs), cs, tier), state)


def replay(rep, v):
    case = dict(v["witness"])
    case.pop("detail", None)
    if case.get("monitor") == "step":
        problems = execute_step(rep, case)
    else:
        problems = execute_reported(rep, case)
    for kind, msg, detail in problems:
        w = dict(case)
        w["detail"] = detail
        rep.violation(kind, w, msg)
