"""C02 - tree transformations never change the value the tree computes.

History driver (E5) + TreeSanitizer I1/I4 at quiescent points + value oracle (E1, or the
fixed-index section when indices are projected) after EVERY prefix, on deep snapshots so the
observation does not perturb the history.  Aliasing monitor: trees left behind by copy() /
out-of-place operations must keep their digest and their value.
"""

import traceback

import numpy as np

from .. import ct, gen, history, ref, sanitizer
from ..common import OpTimeout, time_limit, Deadline, budget, rng_for

PID = "C02"
LEVEL = "exploration"
RULE = (
    "seeded histories of 3-12 (thorough: up to 20) public tree operations with randomised valid "
    "parameters on networks of 4-9 tensors (>=2 output indices where the class allows) from random/"
    "greedy initial trees; after every prefix: sanitizer I1+I4, value vs dense reference under two "
    "option sets, ghosts (aliasing). distinct = distinct (network, tree, op-kind sequence); "
    "non-trivial = >=2 mutating ops executed"
)
ASSUMPTIONS = [
    "dense reference evaluator is correct (cross-checked with numpy in C01)",
    "forest/temper variants run with parallel=False",
]
REQUIRED_MONITORS = ["value_after_op", "sanitizer_I1", "sanitizer_I4", "ghost_checks", "projected_value"] + [
    "ok:" + m for m in history.MUTATORS
]
SHARD_TIMEOUT = {"quick": 400, "thorough": 5400}

VALUE_OPTS = ({}, {"prefer_einsum": True})

OP_LIMIT = 30


def nshards(tier):
    return 16


def classify(v):
    return None


class Fail(Exception):
    def __init__(self, kind, step, msg):
        super().__init__(msg)
        self.kind, self.step, self.msg = kind, step, msg


def expected_value(net, arrays, tree):
    fixed = {ix: si.project for ix, si in tree.sliced_inds.items() if si.project is not None}
    want, bound, nsum = ref.dense_einsum(net.inputs, net.output, arrays, fixed=fixed, with_bound=True)
    return want, bound, nsum, bool(fixed)


def digest(tree):
    s = sanitizer.snapshot(tree)
    return (
        tuple(s.get_ssa_path()),
        tuple((ix, si.project) for ix, si in s.sliced_inds.items()),
        tuple(sorted(s.contract_stats().items())),
    )


def check_value(rep, net, arrays, tree, step, exact, label="value"):
    want, bound, nsum, projected = expected_value(net, arrays, tree)
    for k, opts in enumerate(VALUE_OPTS):
        snap = sanitizer.snapshot(tree)
        try:
            got = snap.contract(arrays, **opts)
        except Exception as e:
            raise Fail("raises_on_contract", step, f"contract({opts}) raised {type(e).__name__}: {e}")
        rep.mon("value_after_op")
        if projected:
            rep.mon("projected_value")
        if exact:
            got = np.asarray(got)
            if got.shape != want.shape or not np.array_equal(got, want):
                raise Fail(label, step, f"contract({opts}) shape {got.shape} vs {want.shape}; exact data mismatch")
        else:
            msg = ref.compare(got, want, bound, nsum, net.N)
            if msg:
                raise Fail(label, step, f"contract({opts}): {msg}")


def applicable(tree, op):
    name = op["op"]
    if name == "remove_ind":
        if op.get("expect_refusal"):
            return op["ind"] in tree.sliced_inds
        return op["ind"] not in tree.sliced_inds
    if name == "restore_ind":
        return op["ind"] in tree.sliced_inds
    if name == "unslice_rand":
        return bool(tree.sliced_inds)
    return True


def run_history(rep, case, gen_rng=None, nops=0, observe=True):
    """Execute a history.  With ``gen_rng`` the ops are drawn online for the current tree
    state and appended to case["ops"]; otherwise the stored ops are replayed (ops that are
    not applicable in the current state are skipped).  Raises Fail at the first broken monitor."""
    import random

    net = gen.Net.from_json(case["net"])
    arrays = net.arrays(rng_for(case["case_seed"], "arrays"), case["kind"])
    exact = case["kind"] == "int"
    # some library paths draw from the global generator (that is C17's business): pin it so
    # that a stored history replays identically
    random.seed(case["case_seed"])
    tree = ct.make_tree(net, case["ssa"])
    ghosts = []
    n_mut = 0
    prev = "init"
    step = -1
    stored = list(case["ops"])
    while True:
        step += 1
        if gen_rng is not None:
            if step >= nops:
                break
            motif = case.get("motif") or []
            if step < len(motif):
                # directed prefix: populate caches / install custom orders before the random part
                op = history._gen(gen_rng, tree, motif[step]) or history.gen_op(gen_rng, tree)
                if op["op"] == "sort_contraction_indices" and gen_rng.random() < 0.7:
                    op.update(make_output_contig=False, priority=gen_rng.choice(["root", "size", "leaves", "flops"]))
            else:
                op = history.gen_op(gen_rng, tree)
            case["ops"].append(op)
        else:
            if step >= len(stored):
                break
            op = stored[step]
            if not applicable(tree, op):
                continue
        before = tree
        rep.count("state_class_before", (op["op"], history.state_class(tree)))
        raised = None
        try:
            with time_limit(OP_LIMIT):
                after, result, refused = history.apply_op(tree, op, arrays)
        except OpTimeout as e:
            rep.inconclusive_case(f"{op['op']}: {e}")
            return n_mut
        except Exception as e:
            # weaker reading: an operation that raises is not by itself a change of value;
            # but whatever state it leaves behind is still observed below
            raised = f"{type(e).__name__}: {e}"
            after, result, refused = tree, None, None
            rep.count("op_exceptions", f"{op['op']}:{type(e).__name__}:{str(e)[:60]}")
        ok = not refused and not raised
        rep.count("ops", op["op"] + (":refused" if refused else ":raised" if raised else ""))
        if ok:
            rep.mon("ok:" + op["op"])
        rep.seen("bigrams", (prev, op["op"]))
        prev = op["op"]
        if history.is_mutator(op) and ok:
            n_mut += 1
        if op["op"] == "contract" and ok:
            want, bound, nsum, _ = expected_value(net, arrays, tree)
            msg = ref.compare(result, want, bound, nsum, net.N)
            rep.mon("contract_op_value")
            if msg:
                raise Fail("value", step, f"contract op {history.CONTRACT_OPTS[op['opts']]}: {msg}")
        if after is not before:
            ghosts.append((before, digest(before)))
            ghosts = ghosts[-2:]
        tree = after
        if not observe:
            continue
        tag = f"after {op['op']}" + (f" (which raised {raised})" if raised else "")
        probs = sanitizer.check_tree(tree, want=("I1", "I4"))
        rep.mon("sanitizer_I1")
        rep.mon("sanitizer_I4")
        if probs:
            code, msg = probs[0]
            raise Fail("sanitizer_" + code, step, f"{tag}: {msg}")
        try:
            check_value(rep, net, arrays, tree, step, exact)
        except Fail as f:
            f.msg = f"{tag}: {f.msg}"
            raise
        for g, dg in ghosts:
            rep.mon("ghost_checks")
            if digest(g) != dg:
                raise Fail("aliasing", step, f"a tree left behind changed {tag} on its successor")
            gp = sanitizer.check_tree(g, want=("I1", "I4"))
            if gp:
                raise Fail("aliasing", step, f"ghost tree broke {gp[0][0]} {tag}: {gp[0][1]}")
            check_value(rep, net, arrays, g, step, exact, label="aliasing")
    return n_mut


def gen_case(rng, cs, tier):
    for _ in range(50):
        net = gen.network(
            rng, 4, budget(tier, 8, 10), cap=budget(tier, 6000, 30000),
            classes=("graph", "graph", "hyper", "perverse", "batch", "chain", "lattice", "disconnected", "hadamard"),
        )
        if net.N >= 3:
            break
    kind = rng.choice(["float", "int", "float"])
    ssa = gen.random_ssa(rng, net.N)
    return {"net": net.to_json(), "ssa": ssa, "kind": kind, "case_seed": cs, "ops": []}


def _fails_same(rep_cls, case, kind):
    def fails(ops):
        from ..common import Report

        c = dict(case, ops=ops)
        try:
            run_history(Report("C02", "shrink", 0), c)
        except Fail as f:
            return f.kind == kind
        return False

    return fails


def repo_tests_under_sanitizer(rep):
    """thorough, shard 0: the repository's own tree / slicer / interface tests executed with the
    TreeSanitizer armed at every outermost public ContractionTree call (vf/pytest_plugin.py)"""
    import json
    import os
    import subprocess
    import sys
    import tempfile

    from ..common import REPO, VERIF

    log = tempfile.mktemp(prefix="vf-sanitizer-", suffix=".jsonl", dir="/var/tmp")
    env = dict(os.environ, VF_SANITIZER_LOG=log, PYTHONPATH=f"{REPO}:{VERIF}")
    try:
        p = subprocess.run(
            [sys.executable, "-m", "pytest", "-q", "-p", "no:cacheprovider", "-p", "vf.pytest_plugin", "tests/test_tree.py", "tests/test_slicer.py", "tests/test_interface.py"],
            cwd=REPO, env=env, capture_output=True, text=True, timeout=2400,
        )
    except subprocess.TimeoutExpired:
        rep.inconclusive_case("repo tests under sanitizer: timeout")
        return
    import re

    m = re.search(r"VF_SANITIZER checks=(\d+) problems=(\d+)", p.stdout)
    if not m:
        rep.inconclusive_case("repo tests under sanitizer: no summary line: " + p.stdout[-300:])
        return
    rep.mon("repo_tests_sanitizer_checks", int(m.group(1)))
    if os.path.exists(log):
        for line in open(log).read().splitlines()[:5]:
            d = json.loads(line)
            if "problems" in d:
                rep.violation("repo_test_under_sanitizer", {"mode": "repo_tests", **d}, f"{d['test']} after {d['after']}: {d['problems'][0]}")
        os.remove(log)


def run_shard(rep, tier, seed, shard, nshards):
    if tier == "thorough" and shard == 0:
        repo_tests_under_sanitizer(rep)
    dl = Deadline(budget(tier, 60, 900))
    ncases = budget(tier, 220, 2500)
    for k in range(ncases):
        if dl.expired():
            break
        cs = f"{seed}/C02/{shard}/{k}"
        rng = rng_for(cs)
        case = gen_case(rng, cs, tier)
        nops = rng.randint(3, budget(tier, 12, 20))
        if rng.random() < 0.3:
            case["motif"] = rng.choice([
                ["sort_contraction_indices", "print_contractions", "remove_ind"],
                ["sort_contraction_indices", "print_contractions", "slice"],
                ["print_contractions", "simulated_anneal"],
                ["remove_ind", "remove_ind", "contract", "restore_ind"],
                ["simulated_anneal", "remove_ind"],
                ["remove_ind", "copy", "restore_ind"],
                ["sort_contraction_indices", "contract", "subtree_reconfigure"],
            ])
            nops = max(nops, len(case["motif"]) + 2)
        net = gen.Net.from_json(case["net"])
        try:
            n_mut = run_history(rep, case, gen_rng=rng, nops=nops)
            kinds = tuple(o["op"] for o in case["ops"])
            rep.case((net.key(), tuple(map(tuple, case["ssa"])), kinds), n_mut >= 2, net.cls,
                     sample={"eq": net.eq(), "sizes": net.size_dict, "ssa": case["ssa"], "ops": case["ops"]})
        except Fail as f:
            kinds = tuple(o["op"] for o in case["ops"])
            rep.case((net.key(), tuple(map(tuple, case["ssa"])), kinds), True, net.cls)
            ops = case["ops"][: f.step + 1]
            try:
                ops = history.shrink(ops, _fails_same(None, case, f.kind), max_tries=60)
            except Exception:
                pass
            w = dict(case, ops=ops)
            # re-run the shrunk history for the final message
            from ..common import Report

            msg = f.msg
            try:
                run_history(Report("C02", "shrink", 0), w)
            except Fail as f2:
                msg = f2.msg
            rep.violation(f.kind, w, f"{net.eq()} ops={[o['op'] for o in ops]}: {msg}")


def replay(rep, v):
    if v["witness"].get("mode") == "repo_tests":
        repo_tests_under_sanitizer(rep)
        return
    try:
        run_history(rep, v["witness"])
    except Fail as f:
        rep.violation(f.kind, v["witness"], f"step {f.step}: {f.msg}")
