"""C06 - slices partition the contraction exactly and are reassembled correctly.

Monitors per (network, tree, ordered removed list):
  key_bijection   slice_key is a bijection between range(nslices) and the value combinations
                  of the sliced indices (projected ones pinned)
  slice_value     contract_slice(arrays, i) == dense reference with the indices fixed at slice_key(i)
  slice_arrays    slice_arrays indexes exactly the axes carrying removed indices
  gather          gather_slices / contract == dense reference of the whole (projected => section);
                  also fed a lazily generated stream and (mantissa, exponent) tuples
  chunks          gen_output_chunks(with_key=True) tiles the output exactly once
"""

import itertools
import traceback

import numpy as np

from .. import ct, gen, ref
from ..common import Deadline, budget, rng_for

PID = "C06"
LEVEL = "exploration"
RULE = (
    "networks from 9 classes (2-7 tensors) x random trees x removed lists: for networks with <=6 indices ALL "
    "ordered subsets of size <=2 and all subsets of size 3 (thorough: all ordered subsets <=3), random ordered "
    "subsets up to size 5 otherwise, each element slice or project; ALL slice numbers when nslices<=256 else "
    "64 random + first/last. distinct = distinct (network, tree, removed list); non-trivial = an output index "
    "is sliced or >=2 indices removed"
)
ASSUMPTIONS = ["dense reference evaluator (cross-checked with numpy in C01)"]
REQUIRED_MONITORS = ["mpi_route", "contract_with_options", "history_cases", "key_bijection", "slice_value", "slice_arrays", "gather", "gather_lazy", "gather_stripped", "chunks", "chunk_tiles"]
SHARD_TIMEOUT = {"quick": 400, "thorough": 3600}


def EXHAUSTIVE(tier):
    return "per network with <=6 indices: every removed list of the stated family and every slice number (nslices<=256); networks/trees themselves are sampled"


def nshards(tier):
    return 16


def classify(v):
    return None


def build(case):
    """mode 'fresh': remove_ind chain on a new tree.  mode 'history': extra indices are removed as
    well, the slicing machinery is USED (contract, slice_key: whatever it caches is now populated),
    then the extra indices are restored in a random order (optionally on a copy) - the resulting
    tree has exactly the removed list of the case and must behave like a fresh one."""
    net = gen.Net.from_json(case["net"])
    tree = ct.make_tree(net, case["ssa"])
    extra = case.get("extra") or []
    seq = list(case["removed"]) + [(ix, None) for ix in extra]
    if extra:
        r = rng_for(case["case_seed"], "history")
        r.shuffle(seq)
    for ix, proj in seq:
        tree.remove_ind_(ix, project=proj)
    if extra:
        r = rng_for(case["case_seed"], "history2")
        arrays = net.arrays(rng_for(case["case_seed"], "arrays"), case["kind"])
        if tree.nslices <= 512:
            tree.contract(arrays)
            tree.slice_key(tree.nslices - 1)
            list(tree.gen_output_chunks(arrays))
        if case.get("copy_before_restore"):
            tree = tree.copy()
        order = list(extra)
        r.shuffle(order)
        for ix in order:
            if r.random() < 0.5:
                tree.restore_ind_(ix)
            else:
                tree = tree.restore_ind(ix)
    return net, tree


def execute(rep, case):
    net, tree = build(case)
    cs = case["case_seed"]
    arrays = net.arrays(rng_for(cs, "arrays"), case["kind"])
    exact = case["kind"] == "int"
    removed = [(ix, p) for ix, p in case["removed"]]
    rem_names = [ix for ix, _ in removed]
    proj = {ix: p for ix, p in removed if p is not None}
    nsl = tree.nslices
    want_n = 1
    for ix, p in removed:
        if p is None:
            want_n *= net.size_dict[ix]
    if nsl != want_n:
        return ("nslices", f"nslices {nsl} != product of sliced sizes {want_n}")

    # ---- key bijection ------------------------------------------------------
    all_keys = ref.all_slice_keys(removed, net.size_dict)
    want_keys = {tuple(sorted(k.items())) for k in all_keys}
    full = nsl <= 256
    if full:
        got = {}
        for i in range(nsl):
            k = tree.slice_key(i)
            got.setdefault(tuple(sorted(k.items())), []).append(i)
        rep.mon("key_bijection")
        if set(got) != want_keys or any(len(v) != 1 for v in got.values()):
            dup = [v for v in got.values() if len(v) > 1][:2]
            return ("key_bijection", f"slice_key is not a bijection onto the {len(want_keys)} value combinations (duplicates {dup}, missing {len(want_keys - set(got))})")
        numbers = list(range(nsl))
        # observation only: mixed-radix prediction (output-sliced first, most significant first)
        pred_order = [ix for ix in tree.sliced_inds]
        i = rng_for(cs, "radix").randrange(nsl)
        k = tree.slice_key(i)
        j = 0
        for ix in pred_order:
            if proj.get(ix) is None:
                j = j * net.size_dict[ix] + k[ix]
        rep.count("mixed_radix_prediction", "agrees" if j == i else "differs")
    else:
        r = rng_for(cs, "slices")
        numbers = sorted({0, nsl - 1, *(r.randrange(nsl) for _ in range(64))})
        seen = set()
        for i in numbers:
            k = tuple(sorted(tree.slice_key(i).items()))
            if k not in want_keys:
                return ("key_bijection", f"slice_key({i}) = {dict(k)} is not a valid value combination")
            if k in seen:
                return ("key_bijection", f"slice_key({i}) repeats an earlier key")
            seen.add(k)
        rep.mon("key_bijection_sampled")

    out_sliced = tuple(ix for ix in net.output if ix not in rem_names)

    # ---- per-slice values and slice_arrays -----------------------------------
    check_numbers = numbers if len(numbers) <= case.get("max_slices", 256) else numbers[:: max(1, len(numbers) // case.get("max_slices", 256))]
    slices = {}
    for i in numbers:
        key = tree.slice_key(i)
        if i in check_numbers:
            sl = tree.slice_arrays(arrays, i)
            rep.mon("slice_arrays")
            for c, (term, a) in enumerate(zip(net.inputs, arrays)):
                sel = tuple(key[ix] if ix in key else slice(None) for ix in term)
                want_a = a[sel] if any(ix in key for ix in term) else a
                if np.shape(sl[c]) != np.shape(want_a) or not np.array_equal(sl[c], want_a):
                    return ("slice_arrays", f"slice {i}: operand {c} ({''.join(term)}) was not indexed at {key} on exactly its removed axes")
        try:
            got_i = tree.contract_slice(arrays, i)
        except Exception as e:
            return ("raises", f"contract_slice({i}) raised {type(e).__name__}: {e} | {traceback.format_exc()[-300:]}")
        slices[i] = got_i
        if i in check_numbers:
            want, bound, nsum = ref.dense_einsum(net.inputs, out_sliced, arrays, fixed=key, with_bound=True)
            rep.mon("slice_value")
            if exact:
                if np.shape(got_i) != want.shape or not np.array_equal(got_i, want):
                    return ("slice_value", f"slice {i} (key {key}): exact data mismatch, shape {np.shape(got_i)} vs {want.shape}")
            else:
                msg = ref.compare(got_i, want, bound, nsum, net.N)
                if msg:
                    return ("slice_value", f"slice {i} (key {key}): {msg}")

    # ---- reassembly ------------------------------------------------------------
    if full:
        want, bound, nsum = ref.dense_einsum(net.inputs, net.output, arrays, fixed=proj, with_bound=True)

        def cmp(got, label):
            if exact:
                if np.shape(got) != want.shape or not np.array_equal(got, want):
                    return (label, f"exact data mismatch, shape {np.shape(got)} vs {want.shape}")
                return None
            msg = ref.compare(got, want, bound, nsum, net.N)
            return (label, msg) if msg else None

        try:
            rep.mon("gather")
            r = cmp(tree.gather_slices([slices[i] for i in range(nsl)]), "gather")
            if r:
                return r
            rep.mon("gather_lazy")
            r = cmp(tree.gather_slices(slices[i] for i in range(nsl)), "gather_lazy")
            if r:
                return r
            r = cmp(tree.contract(arrays), "contract")
            if r:
                return r
            # the same through value-neutral execution options (they reach gather_slices too)
            ro = rng_for(cs, "copts")
            kwc = {}
            if ro.random() < 0.5:
                kwc["progbar"] = True
            if ro.random() < 0.4:
                kwc["prefer_einsum"] = True
            if ro.random() < 0.5:
                kwc["implementation"] = ro.choice(["cotengra", "autoray"])
            if ro.random() < 0.3:
                kwc["order"] = "dfs"
            if kwc:
                import contextlib
                import io

                with contextlib.redirect_stderr(io.StringIO()):
                    got_o = tree.contract(arrays, **kwc)
                    chunks_o = list(tree.gen_output_chunks(arrays, with_key=True, **kwc))
                rep.mon("contract_with_options")
                r = cmp(got_o, f"contract({kwc})")
                if r:
                    return r
                if len(chunks_o) != tree.nchunks:
                    return ("chunks", f"gen_output_chunks({kwc}) yielded {len(chunks_o)} chunks, nchunks = {tree.nchunks}")
            if not exact:
                # (mantissa, exponent) tuples with different exponents per slice
                rr = rng_for(cs, "exps")
                exps = [float(rr.randint(-3, 3)) for _ in range(nsl)]
                m, e = tree.gather_slices((slices[i] / 10.0 ** exps[i], exps[i]) for i in range(nsl))
                rep.mon("gather_stripped")
                r = cmp(np.asarray(m) * 10.0**e, "gather_stripped")
                if r:
                    return r
        except Exception as e:
            return ("raises", f"reassembly raised {type(e).__name__}: {e} | {traceback.format_exc()[-300:]}")

        # ---- the MPI route: slices dealt out to processes, every slice contracted exactly once ----
        # (no mpi4py here: a duck-typed communicator with rank / size / Allreduce / Reduce, the ranks
        # simulated one after another; what the reduction would produce is the sum of the send buffers)
        if nsl >= 2 and not any(ix in net.output for ix in rem_names):
            rm = rng_for(cs, "mpi")
            nprocs = rm.randint(1, min(nsl, 5))
            root = rm.choice([None, 0, nprocs - 1])
            sends = []

            class Comm:
                def __init__(self, rank):
                    self.rank, self.size = rank, nprocs

                def Allreduce(self, send, recv):
                    sends.append(np.array(send, copy=True))

                def Reduce(self, send, recv, root=0):
                    sends.append(np.array(send, copy=True))

            try:
                for rank in range(nprocs):
                    tree.contract_mpi(arrays, comm=Comm(rank), root=root)
            except Exception as e:
                return ("raises", f"contract_mpi (simulated, {nprocs} processes, root={root}) raised {type(e).__name__}: {e} | {traceback.format_exc()[-300:]}")
            rep.mon("mpi_route")
            if len(sends) != nprocs:
                return ("mpi", f"{len(sends)} reductions entered by {nprocs} simulated processes")
            total = sum(sends[1:], sends[0])
            if np.shape(total) == (1,) and np.shape(want) == ():
                # numpy.asfortranarray (used for the MPI buffers) returns ndim >= 1: a scalar result travels
                # as a length-1 buffer; only the value is asserted (weaker reading)
                total = total.reshape(())
            r = cmp(total, f"contract_mpi over {nprocs} simulated processes ({nsl} slices)")
            if r:
                return r

        # ---- output chunks -------------------------------------------------------
        out_removed = [ix for ix in net.output if ix in rem_names]
        try:
            chunks = list(tree.gen_output_chunks(arrays, with_key=True))
        except Exception as e:
            return ("raises", f"gen_output_chunks raised {type(e).__name__}: {e} | {traceback.format_exc()[-300:]}")
        rep.mon("chunks")
        want_chunk_keys = {
            tuple(sorted((ix, k[ix]) for ix in out_removed)) for k in all_keys
        }
        got_keys = [tuple(sorted(k.items())) for _, k in chunks]
        if len(chunks) != len(want_chunk_keys) or set(got_keys) != want_chunk_keys:
            return ("chunks", f"{len(chunks)} chunks with keys {got_keys[:4]}... do not tile the {len(want_chunk_keys)} output blocks exactly once")
        inner_fixed = {ix: p for ix, p in proj.items() if ix not in net.output}
        for chunk, key in chunks:
            fx = dict(inner_fixed)
            fx.update(key)
            w, b, ns = ref.dense_einsum(net.inputs, out_sliced, arrays, fixed=fx, with_bound=True)
            rep.mon("chunk_tiles")
            if exact:
                if np.shape(chunk) != w.shape or not np.array_equal(chunk, w):
                    return ("chunks", f"chunk {key}: exact data mismatch")
            else:
                msg = ref.compare(chunk, w, b, ns, net.N)
                if msg:
                    return ("chunks", f"chunk {key}: {msg}")
        if tree.nchunks != len(want_chunk_keys) and not any(p is not None and ix in net.output for ix, p in removed):
            return ("chunks", f"nchunks {tree.nchunks} != number of output blocks {len(want_chunk_keys)}")
    return None


def removed_lists(rng, net, tier):
    inds = [ix for ix in net.size_dict if any(ix in t for t in net.inputs)]
    out = []

    def dress(seq):
        return [(ix, rng.randrange(net.size_dict[ix]) if rng.random() < 0.25 else None) for ix in seq]

    if len(inds) <= 6:
        for k in (1, 2):
            for seq in itertools.permutations(inds, k):
                out.append(dress(seq))
        if tier == "thorough":
            for seq in itertools.permutations(inds, 3):
                out.append(dress(seq))
        else:
            for seq in itertools.combinations(inds, 3):
                seq = list(seq)
                rng.shuffle(seq)
                out.append(dress(seq))
        return out, True
    for _ in range(6):
        k = rng.randint(1, min(5, len(inds)))
        out.append(dress(rng.sample(inds, k)))
    return out, False


def run_shard(rep, tier, seed, shard, nshards):
    dl = Deadline(budget(tier, 45, 600))
    k = -1
    while not dl.expired() and k < budget(tier, 400, 10000):
        k += 1
        cs = f"{seed}/C06/{shard}/{k}"
        rng = rng_for(cs)
        net = gen.network(rng, 2, budget(tier, 6, 7), cap=budget(tier, 3000, 20000))
        ssa = gen.random_ssa(rng, net.N)
        kind = rng.choice(["float", "int"])
        lists, exhaustive = removed_lists(rng, net, tier)
        if exhaustive:
            rep.mon("networks_with_exhaustive_removed_lists")
        for j, removed in enumerate(lists):
            if dl.expired():
                break
            case = {"net": net.to_json(), "ssa": ssa, "removed": removed, "kind": kind, "case_seed": f"{cs}/{j}", "max_slices": budget(tier, 48, 256)}
            if rng.random() < 0.3:
                free = [ix for ix in net.size_dict if any(ix in t for t in net.inputs) and ix not in [r_[0] for r_ in removed]]
                if free:
                    case["extra"] = rng.sample(free, min(len(free), rng.randint(1, 2)))
                    case["copy_before_restore"] = rng.random() < 0.4
                    rep.mon("history_cases")
            names = [ix for ix, _ in removed]
            nontrivial = len(removed) >= 2 or any(ix in net.output for ix in names)
            rep.case((net.key(), tuple(map(tuple, ssa)), tuple(map(tuple, removed))), nontrivial, net.cls,
                     sample={"eq": net.eq(), "sizes": net.size_dict, "ssa": ssa, "removed": removed})
            for ix, p in removed:
                n_t = sum(ix in t for t in net.inputs)
                shape = ("output" if ix in net.output else "inner") + ("-hyper" if n_t > 2 else "-single" if n_t == 1 else "") + ("-proj" if p is not None else "")
                rep.count("removed_shapes", shape)
            try:
                res = execute(rep, case)
            except Exception as e:
                res = ("harness", f"{type(e).__name__}: {e} | {traceback.format_exc()[-500:]}")
            if res and res[0] == "harness":
                rep.inconclusive_case(res[1])
            elif res:
                rep.violation(res[0], case, f"{net.eq()} ssa={ssa} removed={removed}: {res[1]}")


def replay(rep, v):
    res = execute(rep, v["witness"])
    if res:
        rep.violation(res[0], v["witness"], res[1])
