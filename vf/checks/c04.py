"""C04 - incrementally tracked costs equal a from-scratch rebuild after any history.

After every step of a generated history: sanitizer I2+I3 (cached per-node figures and
running totals vs the independent cost model) and a comparison of every reported figure with
a freshly built tree (from_path(ssa_path) + the same remove_ind chain) - the oracle the
statement names; the independent model arbitrates.  A second workload slices k<=4 indices
and restores them in every permutation.  MaxCounter carries a runtime invariant.
"""

import itertools
import random

from cotengra.core import ContractionTree
from cotengra.utils import MaxCounter

from .. import ct, gen, history, ref, sanitizer
from ..common import OpTimeout, time_limit, Deadline, Report, budget, rng_for

PID = "C04"
LEVEL = "exploration"
RULE = (
    "seeded histories (3-12 ops; thorough up to 20) over {reconfigure(_forest), anneal, temper, "
    "remove_ind(slice|project), restore_ind, unslice_rand/all, slice, slice_and_reconfigure(_forest), "
    "copy, contract_stats(force), cost queries} on trees created with every combination of track_* "
    "flags; after every op: I2+I3 and comparison with a rebuilt tree; plus slice/unslice permutation "
    "round-trips. distinct = distinct (network, tree, flags, op-kind sequence); non-trivial = >=2 "
    "mutating ops or a permutation round-trip with k>=2"
)
ASSUMPTIONS = ["the independent cost model (vf/ref.py Costs) is the definition; the rebuild shares code with the tree"]
ALPHABET = tuple(m for m in history.MUTATORS if m not in ("sort_contraction_indices", "reset_contraction_indices")) + (
    "contract_stats",
    "costs",
    "costs",
    "get_path",
)
REQUIRED_MONITORS = ["sanitizer_I2", "sanitizer_I3", "rebuild_compare", "roundtrip_perms", "maxcounter_inv"] + [
    "ok:" + m for m in ALPHABET if m in history.MUTATORS
]
SHARD_TIMEOUT = {"quick": 400, "thorough": 5400}

OP_LIMIT = 30


def nshards(tier):
    return 16


def classify(v):
    return None


class Fail(Exception):
    def __init__(self, kind, step, msg):
        super().__init__(msg)
        self.kind, self.step, self.msg = kind, step, msg


# ---------------------------- MaxCounter invariant -------------------------- #

_MC = {"n": 0, "bad": None}


def install_maxcounter_invariant():
    if getattr(MaxCounter, "_vf_wrapped", False):
        return
    for name in ("add", "discard"):
        orig = getattr(MaxCounter, name)

        def make(orig, name):
            def wrapped(self, x):
                r = orig(self, x)
                _MC["n"] += 1
                c = self._c
                want = max(c) if c else -float("inf")
                if self._max_element != want or any(v <= 0 for v in c.values()):
                    if _MC["bad"] is None:
                        _MC["bad"] = f"MaxCounter.{name}({x}): max()={self._max_element} but elements {dict(c)}"
                return r

            return wrapped

        setattr(MaxCounter, name, make(orig, name))
    MaxCounter._vf_wrapped = True


# ------------------------------- figures ----------------------------------- #


def figures(tree):
    """Everything the statement calls 'cost figure' or 'per-step index set', evaluated on a
    snapshot so that lazily computed caches of the real tree are not perturbed."""
    s = sanitizer.snapshot(tree)
    out = {
        "stats": dict(s.contract_stats()),
        "multiplicity": s.multiplicity,
        "nslices": s.nslices,
        "sliced_inds": [(ix, si.inner, si.size, si.project) for ix, si in s.sliced_inds.items()],
        "sliced_inputs": sorted(s.sliced_inputs),
        "total_flops": s.total_flops(),
        "total_write": s.total_write(),
        "max_size": s.max_size(),
        "peak_size": s.peak_size(),
        "combo_cost": s.combo_cost(),
    }
    nodes = {}
    for node in list(s.info):
        fn = tuple(sorted(node))
        d = {"legs": tuple(sorted(s.get_legs(node))), "size": s.get_size(node)}
        if len(node) > 1:
            d["involved"] = tuple(sorted(s.get_involved(node)))
            d["flops"] = s.get_flops(node)
        nodes[fn] = d
    out["nodes"] = nodes
    s.has_preprocessing()
    out["preprocessing"] = dict(s.preprocessing)
    return out


def rebuild(tree):
    s = sanitizer.snapshot(tree)
    fresh = ContractionTree.from_path(s.inputs, s.output, s.size_dict, ssa_path=s.get_ssa_path())
    for ix, si in tree.sliced_inds.items():
        fresh.remove_ind_(ix, project=si.project)
    return fresh


def diff_figures(a, b):
    for k in a:
        if k == "nodes":
            if set(a[k]) != set(b[k]):
                return f"node sets differ: {sorted(set(a[k]) ^ set(b[k]))[:3]}"
            for n in a[k]:
                if a[k][n] != b[k][n]:
                    return f"node {list(n)}: {a[k][n]} != rebuilt {b[k][n]}"
        elif a[k] != b[k]:
            return f"{k}: {a[k]} != rebuilt {b[k]}"
    return None


def model_check(tree, figs):
    """arbiter: the independent model on the totals"""
    m = ct.costs_of(tree)
    if tree.N < 2:
        return None
    want = {"flops": m.total_flops(), "write": m.total_write(), "size": m.max_size()}
    if figs["stats"] != want:
        return f"contract_stats {figs['stats']} != model {want}"
    order = ct.traversal(sanitizer.snapshot(tree))
    if figs["peak_size"] != m.peak(order):
        return f"peak_size {figs['peak_size']} != model {m.peak(order)}"
    if figs["combo_cost"] != m.combo(64):
        return f"combo_cost {figs['combo_cost']} != model {m.combo(64)}"
    return None


def observe(rep, tree, step, tag):
    probs = sanitizer.check_tree(tree, want=("I1", "I2", "I3"))
    rep.mon("sanitizer_I2")
    rep.mon("sanitizer_I3")
    if probs:
        raise Fail("sanitizer_" + probs[0][0], step, f"{tag}: {probs[0][1]}")
    figs = figures(tree)
    fresh = figures(rebuild(tree))
    rep.mon("rebuild_compare")
    d = diff_figures(figs, fresh)
    if d:
        raise Fail("rebuild", step, f"{tag}: {d}")
    m = model_check(tree, figs)
    rep.mon("model_compare")
    if m:
        raise Fail("model", step, f"{tag}: {m}")
    if _MC["bad"]:
        bad, _MC["bad"] = _MC["bad"], None
        raise Fail("maxcounter", step, f"{tag}: {bad}")


def run_history(rep, case, gen_rng=None, nops=0):
    net = gen.Net.from_json(case["net"])
    arrays = None
    random.seed(case["case_seed"])
    flags = case["flags"]
    tree = ct.make_tree(net, case["ssa"], **flags)
    _MC["bad"] = None
    observe(rep, tree, -1, "initial tree")
    stored = list(case["ops"])
    step = -1
    n_mut = 0
    prev = "init"
    from .c02 import applicable

    while True:
        step += 1
        if gen_rng is not None:
            if step >= nops:
                break
            op = history.gen_op(gen_rng, tree, alphabet=ALPHABET)
            case["ops"].append(op)
        else:
            if step >= len(stored):
                break
            op = stored[step]
            if not applicable(tree, op):
                continue
        raised = None
        try:
            with time_limit(OP_LIMIT):
                after, _res, refused = history.apply_op(tree, op, arrays)
        except OpTimeout as e:
            rep.inconclusive_case(f"{op['op']}: {e}")
            return n_mut
        except Exception as e:
            raised = f"{type(e).__name__}: {e}"
            after, refused = tree, None
            rep.count("op_exceptions", f"{op['op']}:{type(e).__name__}:{str(e)[:60]}")
        ok = not refused and not raised
        rep.count("ops", op["op"] + (":refused" if refused else ":raised" if raised else ""))
        if ok:
            rep.mon("ok:" + op["op"])
            if history.is_mutator(op):
                n_mut += 1
        rep.seen("bigrams", (prev, op["op"]))
        rep.count("state_class_before", (op["op"], history.state_class(tree)))
        prev = op["op"]
        before = tree
        tree = after
        tag = f"after {op['op']}" + (f" (which raised {raised})" if raised else "")
        observe(rep, tree, step, tag)
        if after is not before:
            # the tree left behind must still report its own (old) figures consistently
            observe(rep, before, step, tag + " [tree left behind]")
    rep.mon("maxcounter_inv", _MC["n"])
    _MC["n"] = 0
    return n_mut


# ------------------------ slice / unslice round trips ----------------------- #


def roundtrip(rep, case):
    net = gen.Net.from_json(case["net"])
    tree = ct.make_tree(net, case["ssa"], **case["flags"])
    if case.get("anneal"):
        tree.simulated_anneal_(tsteps=2, numiter=2, seed=case["anneal"])
    base = figures(tree)
    inds = case["inds"]
    for perm_in in case["perms_in"]:
        for perm_out in case["perms_out"]:
            t = tree.copy() if case.get("copy_first") else sanitizer.snapshot(tree)
            for k in perm_in:
                ix, proj = inds[k]
                t.remove_ind_(ix, project=proj)
            probs = sanitizer.check_tree(t, want=("I1", "I2", "I3"))
            if probs:
                raise Fail("sanitizer_" + probs[0][0], 0, f"sliced on {[inds[k] for k in perm_in]}: {probs[0][1]}")
            for k in perm_out:
                t.restore_ind_(inds[k][0])
            rep.mon("roundtrip_perms")
            d = diff_figures(base, figures(t))
            if d:
                raise Fail("roundtrip", 0, f"slice {[inds[k] for k in perm_in]} then restore {[inds[k][0] for k in perm_out]}: {d}")
            probs = sanitizer.check_tree(t, want=("I1", "I2", "I3"))
            if probs:
                raise Fail("sanitizer_" + probs[0][0], 0, f"after round trip: {probs[0][1]}")


def gen_net(rng, tier):
    for _ in range(50):
        net = gen.network(
            rng, 4, budget(tier, 9, 12), cap=10**7,
            classes=("graph", "graph", "hyper", "perverse", "batch", "chain", "lattice", "disconnected", "hadamard"),
        )
        if net.N >= 3:
            return net
    return net


def run_shard(rep, tier, seed, shard, nshards):
    install_maxcounter_invariant()
    dl = Deadline(budget(tier, 50, 800))
    ncases = budget(tier, 500, 2500)
    for k in range(ncases):
        if dl.expired():
            break
        cs = f"{seed}/C04/{shard}/{k}"
        rng = rng_for(cs)
        net = gen_net(rng, tier)
        flags = {f: rng.random() < 0.5 for f in ("track_flops", "track_write", "track_size", "track_childless")}
        case = {"net": net.to_json(), "ssa": gen.random_ssa(rng, net.N), "flags": flags, "case_seed": cs, "ops": [], "mode": "history"}
        nops = rng.randint(3, budget(tier, 12, 20))
        try:
            n_mut = run_history(rep, case, gen_rng=rng, nops=nops)
            kinds = tuple(o["op"] for o in case["ops"])
            rep.case((net.key(), tuple(map(tuple, case["ssa"])), tuple(sorted(flags.items())), kinds), n_mut >= 2, net.cls,
                     sample={"eq": net.eq(), "sizes": net.size_dict, "ssa": case["ssa"], "flags": flags, "ops": case["ops"]})
        except Fail as f:
            kinds = tuple(o["op"] for o in case["ops"])
            rep.case((net.key(), kinds), True, net.cls)
            ops = case["ops"][: f.step + 1]

            def fails(ops2, kind=f.kind):
                try:
                    run_history(Report("C04", "shrink", 0), dict(case, ops=ops2))
                except Fail as f2:
                    return f2.kind == kind
                return False

            try:
                ops = history.shrink(ops, fails, max_tries=50)
            except Exception:
                pass
            w = dict(case, ops=ops)
            msg = f.msg
            try:
                run_history(Report("C04", "shrink", 0), w)
            except Fail as f2:
                msg = f2.msg
            rep.violation(f.kind, w, f"{net.eq()} flags={flags} ops={[o['op'] for o in ops]}: {msg}")

    # round trips
    dl2 = Deadline(budget(tier, 20, 300))
    for k in range(budget(tier, 100, 600)):
        if dl2.expired():
            break
        cs = f"{seed}/C04/rt/{shard}/{k}"
        rng = rng_for(cs)
        net = gen_net(rng, tier)
        all_inds = [ix for ix in net.size_dict if any(ix in t for t in net.inputs)]
        kk = min(len(all_inds), rng.randint(1, budget(tier, 3, 4)))
        chosen = rng.sample(all_inds, kk)
        inds = [(ix, (rng.randrange(net.size_dict[ix]) if rng.random() < 0.25 else None)) for ix in chosen]
        perms = list(itertools.permutations(range(kk)))
        if kk > 3:
            perms_in = rng.sample(perms, 4)
            perms_out = rng.sample(perms, 6)
        else:
            perms_in = perms[:2] if kk == 3 else perms
            perms_out = perms
        flags = {f: rng.random() < 0.5 for f in ("track_flops", "track_write", "track_size")}
        case = {
            "mode": "roundtrip", "net": net.to_json(), "ssa": gen.random_ssa(rng, net.N), "flags": flags,
            "inds": inds, "perms_in": [list(p) for p in perms_in], "perms_out": [list(p) for p in perms_out],
            "anneal": rng.randrange(1, 1000) if rng.random() < 0.4 else 0, "copy_first": rng.random() < 0.5, "case_seed": cs,
        }
        rep.case(("rt", net.key(), tuple(map(tuple, case["ssa"])), tuple(map(tuple, inds))), kk >= 2, "roundtrip",
                 sample=None if k else {"eq": net.eq(), "inds": inds, "perms_out": len(perms_out)})
        try:
            random.seed(cs)
            roundtrip(rep, case)
        except Fail as f:
            rep.violation(f.kind, case, f"{net.eq()} inds={inds}: {f.msg}")
        except Exception as e:
            rep.violation("roundtrip_raises", case, f"{net.eq()} inds={inds}: {type(e).__name__}: {e}")


def replay(rep, v):
    install_maxcounter_invariant()
    w = v["witness"]
    try:
        if w.get("mode") == "roundtrip":
            random.seed(w["case_seed"])
            roundtrip(rep, w)
        else:
            run_history(rep, w)
    except Fail as f:
        rep.violation(f.kind, w, f"step {f.step}: {f.msg}")
