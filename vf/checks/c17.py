"""C17 - operations that take a seed are deterministic functions of their arguments.

Process matrix (vf/procmatrix.py): one catalogue of seeded public calls is executed in fresh
interpreters under different PYTHONHASHSEED values, with the global random / numpy.random
generators re-seeded and advanced differently before every call, and with the calls in different
orders ("called first" vs "after other seeded calls").  The canonical results of each call must
coincide across all runs.  A change of the global generator state during a seeded call is recorded
as a lead only; only DIFFERENT RESULTS are a violation.
"""

import json
import os
import subprocess
import sys
import traceback

from .. import ct, gen
from ..common import VERIF, Deadline, budget, rng_for

PID = "C17"
LEVEL = "exploration"
RULE = (
    "catalogue of ~40 seeded calls (random-greedy optimizers, random optimizer, labels/kahypar partition builders "
    "divisive+agglomerative, partition functions, tree.slice, SliceFinder, get_subtree(random), subtree_reconfigure, "
    "forest, simulated_anneal with every slice mode, parallel_temper, unslice_rand, test-network generators) on "
    "structurally rich inputs (non-optimal start trees, high temperatures, small maxiter); each catalogue runs in "
    "4 (thorough 12) fresh interpreters: PYTHONHASHSEED x global-RNG perturbation x call order; distinct = distinct "
    "(catalogue, call); non-trivial = the results of that call vary with its seed (the randomness actually steers it)"
)
ASSUMPTIONS = [
    "HyperOptimizer trials are not in the catalogue: its 'greedy' method jitters sizes with the global generator by design and the statement does not list it",
    "kahypar is seeded through its own context (setSeed)",
]
REQUIRED_MONITORS = ["repeat_calls_compared", "calls_compared", "runs", "hashseeds", "calls_steered_by_seed"] + [
    "kind:" + k for k in ("rgo", "rg_track", "random_opt", "method", "labels_partition", "kahypar_membership", "slice", "slicefinder", "get_subtree",
                          "subtree_reconfigure", "forest", "anneal", "temper", "unslice_rand", "gen", "arrays", "size_dict", "repeat_after_history")
]
SHARD_TIMEOUT = {"quick": 500, "thorough": 3600}


def nshards(tier):
    return 16


def classify(v):
    return None


def catalogue(rng):
    """-> dict call_id -> spec"""
    net = gen.graph_net(rng, rng.randint(10, 14), cap=10**12, n_out=rng.randint(1, 3), hyper=rng.randint(0, 2), p_one=0.0)
    base = {"inputs": [list(t) for t in net.inputs], "output": list(net.output), "size_dict": net.size_dict}
    ssa = gen.random_ssa(rng, net.N, "uniform")
    tree = ct.make_tree(net, ssa)
    size = tree.max_size()
    inner = [ix for ix in net.size_dict if ix not in net.output and any(ix in t for t in net.inputs)]
    tb = dict(base, ssa=ssa)
    S = rng.randrange(10**6)
    calls = {}

    def add(name, **spec):
        spec.setdefault("seed", S)
        calls[name] = spec

    add("rgo", kind="rgo", kw={"max_repeats": 4, "temperature": [0.5, 2.0]}, **base)
    add("rg_track", kind="rg_track", kw={"ntrials": 4, "temperature": [0.5, 2.0]}, **base)
    # both sampling ranges collapsed to plain numbers (nothing is sampled, but the greedy noise is still drawn)
    add("rg_track_fixed", kind="rg_track", kw={"ntrials": 4, "costmod": 1.0, "temperature": 0.3}, **base)
    add("rg_track_fixed_costmod", kind="rg_track", kw={"ntrials": 4, "costmod": 2.0, "temperature": [0.1, 1.0]}, **base)
    add("rgo_percall_fixed", kind="rgo_percall", kw={"costmod": 1.0, "temperature": 0.3}, **base)
    add("rgo_ctor_fixed", kind="rgo", kw={"max_repeats": 4, "costmod": 1.5, "temperature": 0.2}, **base)
    add("random_opt", kind="random_opt", **base)
    add("labels", kind="method", method="labels", kw={"cutoff": 3, "parts": 3, "random_strength": 0.5}, **base)
    add("labels-agglom", kind="method", method="labels-agglom", kw={"groupsize": 3, "random_strength": 0.5}, **base)
    add("kahypar", kind="method", method="kahypar", kw={"cutoff": 3, "parts": 2, "random_strength": 0.5, "imbalance": 0.3}, **base)
    add("kahypar-balanced", kind="method", method="kahypar-balanced", kw={"cutoff": 3, "random_strength": 0.0, "imbalance_decay": 0.0, "parts": 2}, **base)
    add("kahypar-agglom", kind="method", method="kahypar-agglom", kw={"groupsize": 3, "random_strength": 0.5}, **base)
    add("labels_partition", kind="labels_partition", kw={"parts": 3}, **base)
    add("kahypar_membership", kind="kahypar_membership", kw={"parts": 3, "imbalance": 0.3}, **base)
    add("slice_size", kind="slice", kw={"target_size": max(1, size // 8), "temperature": 1.0, "max_repeats": 3}, **tb)
    add("slice_slices", kind="slice", kw={"target_slices": 8, "temperature": 2.0, "max_repeats": 2, "allow_outer": False}, **tb)
    add("slicefinder", kind="slicefinder", kw={"target_size": max(1, size // 8), "temperature": 1.0}, repeats=3, **tb)
    add("get_subtree", kind="get_subtree", size=rng.randint(3, 6), **tb)
    add("reconf_random", kind="subtree_reconfigure", kw={"select": "random", "subtree_search": "random", "subtree_size": 4, "maxiter": 3}, **tb)
    add("reconf_maxsel_randsearch", kind="subtree_reconfigure", kw={"select": "max", "subtree_search": "random", "subtree_size": 4, "maxiter": 3}, **tb)
    add("reconf_randsel", kind="subtree_reconfigure", kw={"select": "random", "subtree_search": "bfs", "subtree_size": 3, "maxiter": 2, "weight_pwr": 4}, **tb)
    add("forest", kind="forest", kw={"num_trees": 3, "num_restarts": 2, "subtree_maxiter": 2, "subtree_size": 4}, **tb)
    add("anneal", kind="anneal", kw={"tsteps": 3, "numiter": 3, "tstart": 20.0, "tfinal": 5.0}, **tb)
    for mode in ("basic", "reslice", "drift", 2):
        add(f"anneal_sliced_{mode}", kind="anneal", kw={"tsteps": 3, "numiter": 2, "tstart": 20.0, "tfinal": 5.0, "target_size": max(1, size // 8), "slice_mode": mode}, **tb)
    add("temper", kind="temper", kw={"tsteps": 2, "num_trees": 3, "numiter": 2, "tstart": 20.0}, **tb)
    add("temper_sliced", kind="temper", kw={"tsteps": 2, "num_trees": 2, "numiter": 2, "tstart": 20.0, "target_size": max(1, size // 4), "slice_mode": "drift"}, **tb)
    add("repeat_reconf", kind="repeat_after_history", which="subtree_reconfigure", kw={"select": "random", "subtree_search": "random", "subtree_size": 4, "maxiter": 3}, **tb)
    add("repeat_reconf_bfs", kind="repeat_after_history", which="subtree_reconfigure", kw={"select": "random", "subtree_search": "bfs", "subtree_size": 3, "maxiter": 2}, **tb)
    add("repeat_forest", kind="repeat_after_history", which="forest", kw={"num_trees": 2, "num_restarts": 2, "subtree_maxiter": 2, "subtree_size": 4}, **tb)
    add("repeat_anneal", kind="repeat_after_history", which="anneal", also_anneal=True, kw={"tsteps": 2, "numiter": 2, "tstart": 20.0}, **tb)
    add("repeat_slice", kind="repeat_after_history", which="slice", kw={"target_size": max(1, size // 8), "temperature": 1.0, "max_repeats": 2}, **tb)
    # a UNIFORM network (every dimension 2, lattice): many indices are equivalent candidates for slicing,
    # so the tie-breaking noise of every slicing step decides - an unseeded draw shows immediately
    lat = gen.lattice_net(rng, rng.choice([3, 4]), rng.choice([3, 4]), cap=10**12)
    lat = gen.Net(lat.inputs, lat.output, {k_: 2 for k_ in lat.size_dict}, "lattice")
    lssa = gen.random_ssa(rng, lat.N, "uniform")
    lsize = ct.make_tree(lat, lssa).max_size()
    lb = {"inputs": [list(t) for t in lat.inputs], "output": list(lat.output), "size_dict": lat.size_dict, "ssa": lssa}
    for mode in ("basic", "reslice", "drift", 2):
        add(f"uniform_anneal_sliced_{mode}", kind="anneal", kw={"tsteps": 3, "numiter": 2, "tstart": 20.0, "tfinal": 5.0, "target_size": max(1, lsize // 8), "slice_mode": mode}, **lb)
    for mode in ("basic", "reslice", "drift"):
        add(f"uniform_temper_sliced_{mode}", kind="temper", kw={"tsteps": 2, "num_trees": 2, "numiter": 2, "tstart": 20.0, "target_size": max(1, lsize // 8), "slice_mode": mode}, **lb)
    add("uniform_slice", kind="slice", kw={"target_size": max(1, lsize // 8), "temperature": 0.01, "max_repeats": 2}, **lb)
    add("uniform_slice_reslice", kind="slice", pre_sliced=[lat.inputs[0][0]], kw={"target_size": max(1, lsize // 8), "temperature": 0.01, "max_repeats": 2, "reslice": True}, **lb)
    if len(inner) >= 3:
        add("unslice_rand", kind="unslice_rand", pre_sliced=rng.sample(inner, 3), **tb)
    add("rand_equation", kind="gen", fn="rand_equation", args=[8, 3], kw={"n_out": 2, "n_hyper_in": 2, "n_hyper_out": 1})
    add("tree_equation", kind="gen", fn="tree_equation", args=[8], kw={"n_outer": 2})
    add("randreg_equation", kind="gen", fn="randreg_equation", args=[8, 3])
    add("perverse_equation", kind="gen", fn="perverse_equation", args=[8])
    add("lattice_equation", kind="gen", fn="lattice_equation", args=[[3, 3]], kw={"d_max": 4})
    add("rand_tree", kind="gen", fn="rand_tree", args=[7, 3], kw={"n_out": 1})
    add("arrays", kind="arrays", **base)
    add("size_dict", kind="size_dict", kw={"d_max": 6}, **base)
    # the same calls with another seed: shows that the seed (not only the input) steers the result
    other = {}
    for name, spec in calls.items():
        o = dict(spec)
        o["seed"] = S + 1
        other[name + "@seed2"] = o
    calls.update(other)
    return calls


def run_child(job, hashseed):
    env = dict(os.environ)
    env["PYTHONHASHSEED"] = str(hashseed)
    p = subprocess.run([sys.executable, "-m", "vf.procmatrix", json.dumps(job)], capture_output=True, text=True, timeout=600, env=env, cwd=VERIF)
    for line in p.stdout.splitlines():
        if line.startswith("RESULT"):
            return json.loads(line[6:])
    raise RuntimeError(f"child failed (hashseed {hashseed}): {p.stderr[-600:]}")


def execute(rep, case, tier):
    calls = case["calls"]
    ids = sorted(calls)
    runs = []
    configs = case["configs"]
    for hs, perturb, order_seed in configs:
        order = list(ids)
        rng_for(case["case_seed"], "order", order_seed).shuffle(order)
        job = {"calls": calls, "order": order, "perturb": perturb}
        res = run_child(job, hs)
        rep.mon("runs")
        rep.seen("hashseeds_set", hs)
        rep.mon("hashseeds")
        runs.append(((hs, perturb, order_seed, order), res))
    bad = []
    for cid in ids:
        first_cfg, first = runs[0]
        r0 = first[cid]
        rep.mon("calls_compared")
        rep.mon("kind:" + calls[cid]["kind"])
        if r0["touched_random"] or r0["touched_numpy"]:
            rep.count("global_rng_touched_by_seeded_call", cid.split("@")[0])
        for cfg, res in runs[1:]:
            r = res[cid]
            if r["error"] != r0["error"] or r["result"] != r0["result"]:
                pos0 = first_cfg[3].index(cid)
                pos1 = cfg[3].index(cid)
                bad.append((cid, f"call '{cid}' ({calls[cid]['kind']}, seed {calls[cid]['seed']}): result under (PYTHONHASHSEED={first_cfg[0]}, perturbation {first_cfg[1]}, position {pos0}) differs from (PYTHONHASHSEED={cfg[0]}, perturbation {cfg[1]}, position {pos1}); errors {r0['error']!r} / {r['error']!r}; touched global random: {r0['touched_random']}", [list(first_cfg[:3]), list(cfg[:3])]))
                break
    # history dependence inside one process: the same seeded call twice on the same tree
    for cid in ids:
        if calls[cid]["kind"] != "repeat_after_history":
            continue
        for cfg, res in runs:
            r = res[cid]["result"]
            if r is None:
                continue
            rep.mon("repeat_calls_compared")
            if r["first"] != r["second"]:
                bad.append((cid, f"call '{cid}' ({calls[cid]['which']}, seed {calls[cid]['seed']}): the same non-inplace seeded call made twice on the same tree (after an in-place history) gave different results", [list(cfg[:3]), list(cfg[:3])]))
                break
            if not r["source_unchanged"]:
                bad.append((cid, f"call '{cid}': a non-inplace seeded call changed the tree it was called on", [list(cfg[:3]), list(cfg[:3])]))
                break
    # how many calls are actually steered by their seed
    steered = set()
    for cid in ids:
        if cid.endswith("@seed2"):
            continue
        a = runs[0][1][cid]["result"]
        b = runs[0][1][cid + "@seed2"]["result"]
        if a != b:
            rep.mon("calls_steered_by_seed")
            rep.seen("steered", cid)
            steered.update((cid, cid + "@seed2"))
        else:
            rep.count("not_steered_by_seed", cid)
    case["steered"] = steered
    return bad


def run_shard(rep, tier, seed, shard, nshards):
    dl = Deadline(budget(tier, 90, 1200))
    for k in range(budget(tier, 6, 30)):
        if dl.expired():
            break
        cs = f"{seed}/C17/{shard}/{k}"
        rng = rng_for(cs)
        try:
            calls = catalogue(rng)
        except Exception as e:
            rep.inconclusive_case(f"catalogue: {type(e).__name__}: {e}")
            continue
        hashseeds = [0, 1, 2, 3] if tier == "quick" else list(range(12))
        configs = [(hs, rng.randrange(10**6), rng.randrange(10**6)) for hs in rng.sample(hashseeds, len(hashseeds))][: budget(tier, 4, 12)]
        case = {"calls": calls, "configs": configs, "case_seed": cs}
        try:
            bad = execute(rep, case, tier)
        except Exception as e:
            rep.inconclusive_case(f"harness: {type(e).__name__}: {e} | {traceback.format_exc()[-400:]}")
            continue
        for cid in calls:
            steered = cid in case.get("steered", ())
            rep.case((cs, cid), steered, calls[cid]["kind"], sample=None if len(rep.samples) >= 3 else {k_: v_ for k_, v_ in calls[cid].items() if k_ not in ("inputs", "size_dict", "ssa")})
        for cid, msg, cfgs in bad:
            w = {"calls": {cid: calls[cid]}, "configs": [tuple(c) for c in cfgs], "case_seed": cs, "all_calls": calls, "cid": cid}
            rep.violation("nondeterministic", w, msg)


def replay(rep, v):
    w = v["witness"]
    case = {"calls": w["all_calls"], "configs": [tuple(c) for c in w["configs"]], "case_seed": w["case_seed"]}
    bad = execute(rep, case, "quick")
    for cid, msg, cfgs in bad:
        if cid == w["cid"]:
            rep.violation("nondeterministic", w, msg)
