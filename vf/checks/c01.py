"""C01 - contracting with any tree gives the einsum value, in the declared axis order.

Oracle: E1 (ref.dense_einsum, cross-checked against numpy.einsum) with a sound rounding
bound; a third of the cases use small-integer data so that every correct evaluation is
bit-exact.  Thorough additionally compares every intermediate array (E4 recorder) against
E1 restricted to that node's leaves.
"""

import traceback

import numpy as np

from .. import ct, gen, ref
from ..common import Deadline, budget, rng_for

PID = "C01"
LEVEL = "exploration"
RULE = (
    "seeded generator over 9 network classes (graph, hyper, perverse, chain, lattice, disconnected, "
    "outer, hadamard, batch; 2-8 tensors) x random/caterpillar/balanced trees (plus ALL trees for "
    "n<=5 in a sub-workload) x {order, prefer_einsum, implementation, sort_contraction_indices} x "
    "dtype; distinct = distinct (network, tree, options); non-trivial = >=3 tensors or a "
    "repeated/hyper index"
)
ASSUMPTIONS = [
    "numpy.einsum and the harness's own gather-based evaluator agree (checked per case)",
    "numpy backend only; autojit / cuquantum / other backends unobserved",
]
REQUIRED_MONITORS = ["related_trees", "unicode_labels", "value_vs_E1", "step_tensordot", "step_einsum", "step_preprocess"]
SHARD_TIMEOUT = {"quick": 400, "thorough": 3600}


def nshards(tier):
    return 16


def classify(v):
    return None


def execute(rep, case, deep=False):
    """Run one case through the monitors.  Returns None or (kind, message)."""
    net = gen.Net.from_json(case["net"])
    cs = case["case_seed"]
    arrays = net.arrays(rng_for(cs, "arrays"), case["kind"])
    opts = case["opts"]
    try:
        want, bound, nsum = ref.dense_einsum(net.inputs, net.output, arrays, with_bound=True)
    except Exception as e:  # generator bug, not the library's
        rep.inconclusive_case(f"reference failed: {e!r}")
        return None
    if net.space() <= 20000 and len(net.size_dict) <= 52 and all(ix.isascii() for ix in net.size_dict):
        try:
            npv = np.einsum(net.eq(), *arrays)
            if ref.compare(npv, want, bound, nsum, net.N) is not None:
                rep.inconclusive_case(f"E1 disagrees with numpy on {net.eq()}")
                return None
            rep.mon("ref_vs_numpy")
        except Exception:
            pass
    try:
        tree = ct.make_tree(net, case["ssa"])
        ct.apply_sort(tree, tuple(opts["sort"]) if opts.get("sort") else None)
        rec = ct.Recorder(keep_arrays=deep) if (deep or opts.get("impl") == "recorder") else None
        o = dict(opts)
        if deep:
            o["impl"] = "recorder"
        got = ct.contract_with(tree, arrays, o, rng_for(cs, "order"), recorder=rec)
    except Exception as e:
        return ("raises", f"{type(e).__name__}: {e} | {traceback.format_exc()[-600:]}")
    rep.mon("value_vs_E1")
    if not all(ix.isascii() for ix in net.size_dict):
        rep.mon("unicode_labels")
    if case["kind"] == "int":
        got = np.asarray(got)
        if got.shape != want.shape:
            return ("value", f"shape {got.shape} != expected {want.shape}")
        if not np.array_equal(got, want):
            return ("value", f"exact integer data: got {got.tolist()!r:.300} expected {want.tolist()!r:.300}")
        rep.mon("exact_int")
    else:
        msg = ref.compare(got, want, bound, nsum, net.N)
        if msg:
            return ("value", msg)
    if case.get("related") and not deep:
        bad = related_trees(rep, net, tree, arrays, o, cs, case["kind"], want, bound, nsum)
        if bad:
            return bad
    if rec is not None:
        for c in rec.calls:
            if c[0] == "tensordot":
                rep.mon("step_tensordot")
            elif len(c[2]) == 1:
                rep.mon("step_preprocess")
            else:
                rep.mon("step_einsum")
        if deep:
            bad = check_intermediates(rep, net, tree, arrays, rec, o, cs)
            if bad:
                return bad
    return None


def related_trees(rep, net, tree, arrays, opts, cs, kind, want, bound, nsum):
    """A tree, its copies and trees derived from it without modifying it are DIFFERENT objects: each is a
    complete tree over the network (some with sliced indices) and each must give the einsum value with the
    same options, whatever was done to - or contracted through - the others before, in any interleaving."""
    r = rng_for(cs, "related")
    inds = [ix for ix in net.size_dict if any(ix in t for t in net.inputs)]
    if not inds:
        return None
    o = {k: v for k, v in opts.items() if k != "impl" or v != "recorder"}
    fam = [("original", tree)]
    a = tree.remove_ind(r.choice(inds))
    fam.append((f"remove_ind({list(a.sliced_inds)}) of the original", a))
    b = tree.copy()
    b.remove_ind_(r.choice(inds))
    fam.append((f"copy then remove_ind_({list(b.sliced_inds)})", b))
    free = [ix for ix in inds if ix not in a.sliced_inds]
    if free and r.random() < 0.6:
        c = a.remove_ind(r.choice(free))
        fam.append((f"remove_ind({list(c.sliced_inds)}) of the sliced copy", c))
    if r.random() < 0.5:
        fam.append(("plain copy of the original", tree.copy()))
    order = [r.randrange(len(fam)) for _ in range(r.randint(len(fam) + 1, 2 * len(fam) + 1))]
    for step, k in enumerate(order):
        label, t = fam[k]
        try:
            got = ct.contract_with(t, arrays, o, rng_for(cs, "order"))
        except Exception as e:
            return ("related_raises", f"step {step} of {[fam[i][0] for i in order[:step + 1]]}: contracting '{label}' raised {type(e).__name__}: {e}")
        rep.mon("related_trees")
        got = np.asarray(got)
        if kind == "int":
            if got.shape != want.shape or not np.array_equal(got, want):
                return ("related_value", f"step {step} of {[fam[i][0] for i in order[:step + 1]]}: '{label}' gives shape {got.shape} (expected {want.shape}) / other values")
        else:
            msg = ref.compare(got, want, bound, nsum, net.N)
            if msg:
                return ("related_value", f"step {step} of {[fam[i][0] for i in order[:step + 1]]}: '{label}': {msg}")
    return None


def check_intermediates(rep, net, tree, arrays, rec, opts, cs):
    """zip recorder calls with the contraction programme and compare every produced
    array with E1 on that node's leaves (axis order = tree.get_inds(node))."""
    from cotengra.contract import extract_contractions

    order = ct.make_order(opts.get("order", "none"), tree, rng_for(cs, "order"))
    cons = extract_contractions(tree, order, bool(opts.get("prefer_einsum")))
    if len(cons) != len(rec.calls):
        return None  # e.g. sliced: not used in this check
    for (p, l, r, tdot, arg, perm), call in zip(cons, rec.calls):
        out = call[4]
        node = frozenset(p)
        if tdot and perm:
            out = np.transpose(out, perm)
        inds = tuple(tree.get_inds(p))
        leaves = sorted(node)
        sub_in = [net.inputs[i] for i in leaves]
        sub_ar = [arrays[i] for i in leaves]
        try:
            want, bound, nsum = ref.dense_einsum(sub_in, inds, sub_ar, with_bound=True)
        except ValueError as e:
            return ("intermediate", f"node {leaves}: inds {inds} not derivable from its leaves ({e})")
        msg = ref.compare(out, want, bound, nsum, len(leaves))
        rep.mon("intermediate_vs_E1")
        if msg:
            return ("intermediate", f"node {leaves} inds {''.join(inds)}: {msg}")
    return None


UNICODE = [chr(c) for c in list(range(945, 970)) + list(range(192, 215)) + list(range(1040, 1060))]


def relabel_unicode(rng, net):
    """give a random subset of the indices non-ASCII labels (user chosen unicode labels; the
    library itself hands such labels out from the 53rd index on).  The mapping of per-node
    equations into [a-zA-Z] must not identify distinct indices."""
    labels = list(net.size_dict)
    k = rng.randint(1, len(labels))
    chosen = rng.sample(labels, k)
    pool = rng.sample(UNICODE, k)
    ren = dict(zip(chosen, pool))
    f = lambda ix: ren.get(ix, ix)  # noqa
    return gen.Net([[f(i) for i in t] for t in net.inputs], [f(i) for i in net.output], {f(k_): v for k_, v in net.size_dict.items()}, net.cls + "+unicode")


def gen_case(rng, cs, tier):
    cap = budget(tier, 60000, 400000)
    net = gen.network(rng, 2, budget(tier, 7, 9), cap=cap)
    if rng.random() < 0.2 and net.size_dict:
        net = relabel_unicode(rng, net)
    ssa = gen.random_ssa(rng, net.N)
    kind = rng.choice(["float", "complex", "int"])
    opts = ct.random_opts(rng)
    return {"net": net.to_json(), "ssa": ssa, "kind": kind, "opts": opts, "case_seed": cs, "related": rng.random() < 0.2}


def run_shard(rep, tier, seed, shard, nshards):
    dl = Deadline(budget(tier, 45, 420))
    ncases = budget(tier, 8000, 60000)
    for k in range(ncases):
        if dl.expired():
            break
        cs = f"{seed}/C01/{shard}/{k}"
        rng = rng_for(cs)
        case = gen_case(rng, cs, tier)
        _run_case(rep, case, deep=(tier == "thorough" and k % 3 == 0) or (k % 10 == 0))
    # sub-workload: ALL trees of small networks
    dl2 = Deadline(budget(tier, 20, 240))
    nmax = budget(tier, 5, 6)
    k = 0
    while not dl2.expired() and k < budget(tier, 14, 60):
        cs = f"{seed}/C01/all/{shard}/{k}"
        k += 1
        rng = rng_for(cs)
        n = rng.randint(3, nmax)
        net = gen.network(rng, n, n, cap=20000, classes=("graph", "hyper", "perverse", "batch", "hadamard"))
        if net.N != n:
            continue
        kind = rng.choice(["float", "int"])
        opts = ct.random_opts(rng)
        ntrees = 0
        for ch in ref.all_trees(n):
            ssa = ref.children_to_ssa(n, ch)
            case = {"net": net.to_json(), "ssa": ssa, "kind": kind, "opts": opts, "case_seed": cs}
            _run_case(rep, case, deep=False, cls="alltrees")
            ntrees += 1
            if dl2.expired():
                break
        rep.count("all_trees_networks", n)
        rep.mon("all_trees_enumerated", ntrees)


def _run_case(rep, case, deep=False, cls=None):
    net = gen.Net.from_json(case["net"])
    key = (net.key(), tuple(map(tuple, case["ssa"])), repr(sorted(case["opts"].items(), key=str)), case["kind"])
    nontrivial = net.N >= 3 or net.has_hyper() or net.has_repeat()
    rep.case(key, nontrivial, cls or net.cls, sample={"eq": net.eq(), "sizes": net.size_dict, "ssa": case["ssa"], "opts": case["opts"], "kind": case["kind"]})
    rep.count("opt_order", case["opts"]["order"])
    rep.count("opt_impl", case["opts"]["impl"])
    res = execute(rep, case, deep=deep)
    if res:
        rep.violation(res[0], case, f"{net.eq()} ssa={case['ssa']} opts={case['opts']}: {res[1]}")


def replay(rep, v):
    res = execute(rep, v["witness"], deep=True)
    if res is None:
        res = execute(rep, v["witness"], deep=False)
    if res:
        rep.violation(res[0], v["witness"], res[1])
