"""C19 - exponent stripping preserves the value and survives scales that overflow floats.

Oracle (log domain, nothing in it can overflow): every operand is ``m_i * 10**s_i`` with an
O(1) mantissa array ``m_i`` (|entries| in 0.5..1.5, random signs / phases, or positive-only
where no cancellation can occur) and a decimal scale ``s_i`` in [-100, 100].  The truth is
``E1(m) * 10**(sum s_i)`` with E1 = ref.dense_einsum on the *mantissas*; a stripped result
``(mantissa, exponent)`` is correct iff both are finite and

        mantissa * 10**(exponent - sum s_i)  ==  E1(m)      (element-wise, sound bound)

``exponent - sum s_i`` is moderate for every correct answer, so the product is formed in
float64 (in two halves, so that a wrong exponent shows up as a mismatch and not as a crash).

Per-slice exponents are made to differ by "slabs": one operand gets a different decimal
magnitude per value of a (usually sliced) index.  The slab offsets (<= 0, at most 60 decades,
at most two slabbed operands) are folded into the mantissa array, the largest one into the
scale, so the same formula is the reference for every chunk; every slab of every operand
stays inside 1e-100..1e100.

Zero-valued slice family (DESIGN K4) is generated separately (class "zero"): a whole slab
along a sliced index is set to exactly zero, all other entries positive (so the total is
non-zero).  It is run with check_zero=True (real verdict) and, only where that passes, with
check_zero=False (expected to produce a NaN mantissa: the recorded finding).

Histories on ONE tree object (family "history"): a tree caches its compiled contractors
(``tree.contraction_cores``), so what a call returns may depend on what the same object
was asked before.  2-4 calls are made on the SAME tree with different (strip_exponent,
check_zero, order, prefer_einsum, implementation) and different data (dense, with or
without slabs; positive data with an exactly-zero slab along a sliced inner index), in
both orders (check_zero False then True, True then False) with the option objects (also a
callable ``order``) shared between the calls so that equal options really are equal.  Every
stripped call is judged by the same log-domain oracle; every call with check_zero=True (or
dense data) must be right whatever was called before.  A check_zero=False call on
zero-slab data is the recorded finding there too (same key, confirmed by re-running that
single call on a fresh tree); a failing call that itself had check_zero=True never is.
"""

import copy
import math
import traceback

import numpy as np

from .. import ct, gen, ref
from ..common import Deadline, Report, budget, rng_for

PID = "C19"
LEVEL = "exploration"
RULE = (
    "seeded generator over 9 network classes (2-8 tensors, index space <= 2e4) x random trees x removed "
    "sets (0-3 indices, inner and OUTPUT, sliced or projected, <= 64 slices) x per-tensor decimal scales "
    "(uniform ints, decimals, all +100, all -100, alternating, up-then-down, down-then-up, mild) x per-slab "
    "magnitudes along sliced indices (<= 60 decades per operand; plus a 'wide' mode: two operands slabbed along "
    "a sliced INNER index so that slice exponents are up to ~400 decades apart) x {order, prefer_einsum, "
    "implementation, check_zero} x entry point "
    "(tree.contract, contract_slice+gather_slices on a lazy stream, array_contract, cached expression reused "
    "with other scales, einsum, single-tensor expressions) x {signed, positive, complex} mantissas; the plain "
    "contraction is executed for every case; histories: 2-4 calls on ONE tree object (1-2 shared option sets x "
    "strip_exponent x check_zero x {contract, contract_slice+gather_slices} x {dense, zero-slab} data x fresh "
    "scales per call; shapes off->on, on->off, random); distinct = distinct (network, tree, removed, scales, "
    "slabs, options, entry[, calls]); non-trivial = the plain float contraction is inf/nan/0 somewhere OR a "
    "sliced output index is present OR (history) two stripped calls with the same option set differ in check_zero"
)
ASSUMPTIONS = [
    "E1 (ref.dense_einsum) on O(1) mantissas is exact up to its own rounding bound (cross-checked with numpy in C01)",
    "input arrays are built as m * 10.0**s: one rounding per entry, covered by the bound",
    "dynamic range inside one operand limited to 60 decades and to two slabbed operands, so that no element "
    "of a correctly scaled intermediate underflows relative to the shared exponent (a single exponent per "
    "array cannot represent more than the float range; that limit is not tested); the 'wide' mode (up to 199 "
    "decades per operand) is only used along summed indices, where terms below the float range are "
    "negligible in the implementation and in the oracle alike",
    "an exactly-zero slice arising from exact cancellation of random O(1) mantissas has probability ~0 and "
    "is not generated on purpose outside the class-tagged zero family",
    "slice numbering (tree.slice_key) is trusted for the per-slice oracle only; totals do not depend on it",
    "numpy backend only; autojit / cuquantum unobserved; gen_output_chunks is not exponent aware and is skipped",
]
REQUIRED_MONITORS = [
    "stripped_vs_logref",
    "slab_holes",
    "sliced_output_stripped",
    "plain_overflowed_or_underflowed",
    "array_contract_stripped",
    "single_tensor_stripped",
    "zero_slice_check_zero_on",
    "same_tree_histories",
]
SHARD_TIMEOUT = {"quick": 400, "thorough": 3600}

KNOWN_KEY = "zero-slice-check_zero-off"
EPS = float(np.finfo(np.float64).eps)
LN10 = math.log(10.0)
MAX_SLICES = 64
PATTERNS = (
    ("uniform", 24),
    ("decimal", 10),
    ("all+100", 12),
    ("all-100", 12),
    ("alt", 12),
    ("updown", 10),
    ("downup", 10),
    ("mild", 10),
)
ENTRIES = (("tree", 40), ("slices", 24), ("array_contract", 16), ("expr", 10), ("einsum", 10))


def nshards(tier):
    return 16


def _weighted(rng, pairs):
    tot = sum(w for _, w in pairs)
    r = rng.random() * tot
    for v, w in pairs:
        r -= w
        if r < 0:
            return v
    return pairs[-1][0]


# --------------------------------------------------------------------------- #
#                     operands: mantissas, slabs, scales                      #
# --------------------------------------------------------------------------- #


def _dmin(case, i):
    d = 0.0
    for ti, _ix, ds in case.get("slabs", ()):
        if ti == i:
            d = min(d, min(ds))
    return d


def mantissas(case, scales, tag="arrays", lift=None):
    """-> (mantissa arrays, extra).  Slab offsets and zeroed slabs are applied to the O(1)
    base mantissas, except for slabs along an index pinned in ``lift`` ({ix: value}): there
    the operand is only ever read at that value, so the (scalar) offset is returned in
    ``extra`` to be added to the sum of scales instead - the reference for one slice or for
    a projected index then stays O(1) whatever the slab magnitudes are.  Entry magnitudes
    are drawn from [0.5, 1.5], narrowed at the extreme scales so that every entry of
    m * 10**s stays inside 1e-100 .. 1e100."""
    lift = lift or {}
    extra = 0.0
    net = gen.Net.from_json(case["net"])
    nprng = np.random.default_rng(rng_for(case["case_seed"], tag).getrandbits(64))
    kind = case.get("kind", "sign")
    out = []
    for i, (term, shp) in enumerate(zip(net.inputs, net.shapes())):
        lo, hi = 0.5, 1.5
        if scales[i] > 99.8:
            hi = 1.0
        if scales[i] + _dmin(case, i) < -99.6:
            lo = 1.0
        mag = nprng.uniform(lo, hi, size=shp)
        if kind == "pos":
            m = mag
        elif kind == "complex":
            m = mag * np.exp(2j * np.pi * nprng.uniform(size=shp))
        else:
            m = mag * nprng.choice([-1.0, 1.0], size=shp)
        m = np.array(m)
        for ti, ix, ds in case.get("slabs", ()):
            if ti != i:
                continue
            if case.get("holes") and m.ndim >= 2 and [ti, ix] == list(case["slabs"][0][:2]):  # one operand only: two patterns could cancel a whole slice
                # "holes": in the LARGEST slab(s) about half of the entries are exactly zero, so some output
                # entries are fed by the small slabs only - a slice that is negligible next to the largest
                # entry of the running sum is then the whole value of those entries
                hr = np.random.default_rng(rng_for(case["case_seed"], "holes", i, ix).getrandbits(64))
                big = [k for k, d_ in enumerate(ds) if d_ == max(ds)]
                ax = term.index(ix)
                gone = {r[0] for r in case.get("removed", ())}
                # the pattern lives on the axes that survive slicing (the same for every value of the removed
                # ones) and never covers everything: no slice of this operand becomes exactly zero (that is the
                # separate zero family)
                kept = [a for a in range(m.ndim) if a != ax and term[a] not in gone and term.count(term[a]) == 1]
                if kept:
                    shape = [m.shape[a] if a in kept else 1 for a in range(m.ndim) if a != ax]
                    mask = hr.random(size=shape) < 0.5
                    if mask.all():
                        mask.flat[0] = False
                    mv = np.moveaxis(m, ax, 0)
                    full = np.broadcast_to(mask, mv.shape[1:])
                    for k in big:
                        mv[k][full] = 0.0
            if ix in lift:
                extra += float(ds[lift[ix]])
                continue
            ax = term.index(ix)
            fac = np.power(10.0, np.asarray(ds, dtype=np.float64))
            m = m * fac.reshape([-1 if a == ax else 1 for a in range(m.ndim)])
        for ti, ix, ks in case.get("zero", ()):
            if ti != i:
                continue
            ax = term.index(ix)
            sel = [slice(None)] * m.ndim
            for k in ks:
                sel[ax] = k
                m[tuple(sel)] = 0.0
        out.append(m)
    return out, extra


def scaled(mant, scales):
    return [m * (10.0 ** float(s)) for m, s in zip(mant, scales)]


def make_scales(rng, net, ssa, pattern, slabs):
    n = net.N
    if pattern == "uniform":
        s = [rng.randint(-100, 100) for _ in range(n)]
    elif pattern == "decimal":
        s = [round(rng.uniform(-100, 100), rng.choice([1, 2, 6])) for _ in range(n)]
    elif pattern == "all+100":
        s = [100] * n
    elif pattern == "all-100":
        s = [-100] * n
    elif pattern == "alt":
        k = rng.randint(0, 1)
        s = [100 if (i + k) % 2 == 0 else -100 for i in range(n)]
    elif pattern in ("updown", "downup"):
        seen = []
        for step in ssa:
            for a in step:
                if a < n and a not in seen:
                    seen.append(a)
        seen += [i for i in range(n) if i not in seen]
        half = (n + 1) // 2
        first, second = (100, -100) if pattern == "updown" else (-100, 100)
        s = [0] * n
        for pos, i in enumerate(seen):
            s[i] = first if pos < half else second
    else:
        s = [rng.randint(-5, 5) for _ in range(n)]
    # keep every slab of a slabbed operand inside 1e-100..1e100
    for ti, _ix, ds in slabs:
        s[ti] = max(s[ti], -100 - min(ds))
    return s


# --------------------------------------------------------------------------- #
#                               the comparison                                #
# --------------------------------------------------------------------------- #


def _slack(case, scales, nsteps):
    """relative slack for the exponent being a float64 sum of log10's of numbers as large
    as the scales: each of the ~2*nsteps roundings moves the exponent by <= eps * L, which
    moves the value by a factor ln(10) * that."""
    L = 16.0 + 6.0 * nsteps
    for i, s in enumerate(scales):
        L += abs(float(s)) + abs(_dmin(case, i))
    return LN10 * EPS * L * (2 * nsteps + 16) + 16 * EPS


def check_pair(res, want, bound, nsum, ntensors, S, slack):
    """None, or (kind, message), for one (mantissa, exponent) result against E1(m)."""
    if not (isinstance(res, tuple) and len(res) == 2):
        return ("format", f"strip_exponent=True returned {type(res).__name__}, not (mantissa, exponent)")
    m, e = res
    try:
        m = np.asarray(m)
        e = float(np.real(e)) if np.ndim(e) == 0 else None
    except Exception as ex:
        return ("format", f"unusable (mantissa, exponent): {ex!r}")
    if e is None:
        return ("format", "exponent is not a scalar")
    nbad = int(np.size(m) - np.count_nonzero(np.isfinite(m)))
    if not math.isfinite(e) or nbad:
        return ("nonfinite", f"exponent={e!r}, mantissa has {nbad}/{np.size(m)} non-finite entries")
    if m.shape != np.shape(want):
        return ("shape", f"mantissa shape {m.shape} != expected {np.shape(want)}")
    d = e - S
    with np.errstate(all="ignore"):
        h = np.power(10.0, d / 2.0)
        got = (m * h) * h
    if not np.all(np.isfinite(got)):
        return ("value", f"mantissa * 10**(exponent - sum of scales) is not finite: exponent {e!r}, sum of scales {S!r}")
    tol = ref.tolerance(bound, nsum, ntensors) + slack * (np.asarray(bound) + 0.0)
    err = np.abs(got - want)
    if np.any(err > tol):
        k = np.unravel_index(np.argmax(err - tol), err.shape) if err.ndim else ()
        return (
            "value",
            f"mantissa*10^(exponent-{S!r}) mismatch at {tuple(int(i) for i in k)}: got {got[k]!r} expected "
            f"{np.asarray(want)[k]!r} (tol {float(np.asarray(tol)[k]):.3g}; exponent {e!r}, max|mantissa| {float(np.max(np.abs(m))) if m.size else 0.0:.3g})",
        )
    return None


def plain_status(plain, want):
    try:
        p = np.asarray(plain)
        if np.any(np.isnan(p)):
            return "nan"
        if np.any(np.isinf(p)):
            return "inf"
        if p.shape == np.shape(want) and np.any((p == 0) & (np.asarray(want) != 0)):
            return "zero"
        return "ok"
    except Exception:
        return "?"


# --------------------------------------------------------------------------- #
#                           running one configuration                         #
# --------------------------------------------------------------------------- #

SKIP = "skip"


def _kw(tree, opts, cs):
    kw = {}
    order = ct.make_order(opts.get("order", "none"), tree, rng_for(cs, "order"))
    if order is not None:
        kw["order"] = order
    if opts.get("prefer_einsum"):
        kw["prefer_einsum"] = True
    if opts.get("impl") in ("cotengra", "autoray"):
        kw["implementation"] = opts["impl"]
    return kw


def _build_tree(net, case):
    tree = ct.make_tree(net, case["ssa"])
    for ix, proj in case.get("removed", ()):
        tree.remove_ind_(ix, project=proj)
    return tree


def _fixed(case):
    return {ix: proj for ix, proj in case.get("removed", ()) if proj is not None}


def _sliced_output(net, case):
    return [ix for ix, proj in case.get("removed", ()) if proj is None and ix in net.output]


def n_zero_slices(case):
    """number of slices that are exactly zero by construction (zero family)"""
    net = gen.Net.from_json(case["net"])
    zeroed = {}
    for _ti, ix, ks in case.get("zero", ()):
        zeroed.setdefault(ix, set()).update(ks)
    n = 0
    for key in ref.all_slice_keys([tuple(r) for r in case.get("removed", ())], net.size_dict):
        if any(key.get(ix) in ks for ix, ks in zeroed.items()):
            n += 1
    return n


def execute(rep, case):
    """Run exactly the configuration stored in ``case``.  Returns None (held), SKIP (not
    decidable / not this property's business) or (kind, message)."""
    with np.errstate(all="ignore"):
        try:
            if case["entry"] == "single":
                return _execute_single(rep, case)
            return _execute(rep, case)
        except Exception:
            rep.inconclusive_case("harness error: " + traceback.format_exc()[-800:])
            return SKIP


def _execute(rep, case):
    import cotengra as ctg

    net = gen.Net.from_json(case["net"])
    cs = case["case_seed"]
    opts = case["opts"]
    entry = case["entry"]
    scales = case["scales"]
    N = net.N
    nsteps = N + 2
    fixed = _fixed(case)
    cz = bool(opts.get("check_zero"))
    zero_family = case.get("family") == "zero"

    sets = [("arrays", scales)]
    if entry == "expr":
        sets.append(("arrays2", case["scales2"]))
    refs = []
    for tag, sc in sets:
        full, _ = mantissas(case, sc, tag)
        mant, extra = mantissas(case, sc, tag, lift=fixed)
        try:
            want, bound, nsum = ref.dense_einsum(net.inputs, net.output, mant, fixed=fixed or None, with_bound=True)
        except Exception as e:
            rep.inconclusive_case(f"reference failed: {e!r}")
            return SKIP
        if not np.any(want != 0):
            rep.count("excluded", "true result exactly zero")
            return SKIP
        refs.append((tag, scaled(full, sc), want, bound, nsum, math.fsum(float(s) for s in sc) + extra, _slack(case, sc, nsteps), sc))
    _, arrays, want, bound, nsum, S, slack, _ = refs[0]

    # ---- set up the entry point; anything failing here is not C19's business ----
    try:
        tree = _build_tree(net, case)
        kw = _kw(tree, opts, cs)
    except Exception as e:
        rep.count("excluded", f"tree setup raised {type(e).__name__}")
        return SKIP

    def run(strip, arrs):
        skw = dict(strip_exponent=True) if strip else {}
        if entry == "tree":
            if strip and cz:
                skw["check_zero"] = True
            return tree.contract(arrs, **kw, **skw), None
        if entry == "slices":
            if strip and cz:
                skw["check_zero"] = True
            seen = []

            def stream():
                for i in range(tree.nslices):
                    s = tree.contract_slice(arrs, i, **kw, **skw)
                    seen.append(s)
                    yield s

            return tree.gather_slices(stream()), seen
        akw = {}
        if opts.get("prefer_einsum"):
            akw["prefer_einsum"] = True
        if opts.get("impl") in ("cotengra", "autoray"):
            akw["implementation"] = opts["impl"]
        how = opts.get("optimize", "greedy")
        if how == "path":
            optimize = tuple(tuple(p) for p in ref.ssa_to_linear_model(case["ssa"], N))
        elif how == "tree":
            optimize = tree
        else:
            optimize = how
        if entry == "array_contract":
            return (
                ctg.array_contract(
                    arrs, net.inputs, net.output, optimize=optimize, strip_exponent=strip,
                    cache_expression=bool(opts.get("cache", True)), **akw,
                ),
                None,
            )
        if entry == "einsum":
            return (
                ctg.einsum(net.eq(), *arrs, optimize=optimize, strip_exponent=strip,
                           cache_expression=bool(opts.get("cache", True)), **akw),
                None,
            )
        if entry == "expr":
            expr = ctg.array_contract_expression(
                net.inputs, net.output, size_dict=dict(net.size_dict), optimize=optimize,
                strip_exponent=strip, cache=bool(opts.get("cache", True)), **akw,
            )
            return expr(*arrs), None
        raise ValueError(entry)

    # ---- the plain contraction: must work (else skip) and shows whether floats survive ----
    try:
        plain, _ = run(False, arrays)
    except Exception as e:
        rep.count("excluded", f"plain contraction raised {type(e).__name__} via {entry}")
        return SKIP
    status = plain_status(plain, want)
    case["_plain"] = status

    # ---- the stripped contraction(s) ----
    for k, (tag_k, arrays_k, want_k, bound_k, nsum_k, S_k, slack_k, sc_k) in enumerate(refs):
        try:
            res, seen = run(True, arrays_k)
        except Exception as e:
            return ("raises", f"{type(e).__name__}: {e} | {traceback.format_exc()[-500:]}")
        bad = check_pair(res, want_k, bound_k, nsum_k, N, S_k, slack_k)
        rep.mon("stripped_vs_logref")
        if entry in ("array_contract", "expr", "einsum"):
            rep.mon("array_contract_stripped")
        if k == 1:
            rep.mon("cached_expression_reused")
        if bad:
            return (bad[0], (f"[second call of the expression, scales {sc_k}] " if k else "") + bad[1])
        if seen is not None and not zero_family:
            for i, s in enumerate(seen[:MAX_SLICES]):
                key = tree.slice_key(i)
                mant_i, extra_i = mantissas(case, sc_k, tag_k, lift=key)
                w_i, b_i, n_i = ref.dense_einsum(net.inputs, net.output, mant_i, fixed=key, with_bound=True)
                drop = tuple(a for a, ix in enumerate(net.output) if ix in key)
                w_i = w_i.reshape([d for a, d in enumerate(w_i.shape) if a not in drop])
                b_i = b_i.reshape(w_i.shape)
                if not np.any(w_i != 0):
                    continue
                bad = check_pair(s, w_i, b_i, n_i, N, math.fsum(float(x) for x in sc_k) + extra_i, slack_k)
                rep.mon("slice_vs_logref")
                if bad:
                    return (bad[0], f"slice {i} {key}: {bad[1]}")
    return None


def _execute_single(rep, case):
    import cotengra as ctg

    net = gen.Net.from_json(case["net"])
    term, output = net.inputs[0], net.output
    api = case["opts"]["api"]
    case["_plain"] = "n/a"
    expr = None
    for tag, s in (("arrays", case["scales"]), ("arrays2", case["scales2"])):
        mant, _ = mantissas(case, s, tag)
        want, bound, nsum = ref.dense_einsum(net.inputs, output, mant, with_bound=True)
        if not np.any(want != 0):
            return SKIP
        arrays = scaled(mant, s)
        try:
            if api == "array_contract":
                res = ctg.array_contract(arrays, [term], output, optimize="greedy", strip_exponent=True)
            elif api == "einsum":
                res = ctg.einsum(net.eq(), arrays[0], strip_exponent=True)
            else:
                if expr is None:
                    expr = ctg.array_contract_expression([term], output, size_dict=dict(net.size_dict), strip_exponent=True)
                res = expr(arrays[0])
        except Exception as e:
            try:
                # does the same call work without stripping?
                if api == "einsum":
                    ctg.einsum(net.eq(), arrays[0])
                else:
                    ctg.array_contract(arrays, [term], output, optimize="greedy")
            except Exception:
                rep.count("excluded", f"single-tensor plain call raised {type(e).__name__}")
                return SKIP
            return ("raises", f"{type(e).__name__}: {e} | {traceback.format_exc()[-500:]}")
        rep.mon("single_tensor_stripped")
        rep.mon("stripped_vs_logref")
        bad = check_pair(res, want, bound, nsum, 1, float(s[0]), _slack(case, s, 2))
        if bad:
            return (bad[0], f"scale {s[0]}: {bad[1]}")
    return None


# --------------------------------------------------------------------------- #
#                 histories: several calls on ONE tree object                 #
# --------------------------------------------------------------------------- #


def _view(case, call):
    """what mantissas() / _slack() read, for one call of a history"""
    return {
        "net": case["net"], "case_seed": case["case_seed"], "kind": call["kind"], "slabs": call["slabs"],
        "zero": case["zero"] if call["data"] == "zero" else [],
    }


def known_outcome(call, kind):
    """the recorded finding: THIS call strips without check_zero, on zero-slab data, and is non-finite"""
    return bool(call.get("strip")) and not call.get("check_zero") and call.get("data") == "zero" and kind == "nonfinite"


def execute_history(rep, case):
    """Run the calls of ``case`` one after the other on one tree object.  Returns SKIP or the
    list of (call index, kind, message) of the stripped calls that are wrong."""
    with np.errstate(all="ignore"):
        try:
            return _execute_history(rep, case)
        except Exception:
            rep.inconclusive_case("harness error (history): " + traceback.format_exc()[-800:])
            return SKIP


def _execute_history(rep, case):
    net = gen.Net.from_json(case["net"])
    cs = case["case_seed"]
    N = net.N
    nsteps = N + 2
    fixed = _fixed(case)
    try:
        tree = _build_tree(net, case)
        # one kwargs dict per option set, built once: a callable ``order`` is then the SAME object in
        # every call that uses the set (equal options must look equal to whatever the tree caches)
        kws = [_kw(tree, o, f"{cs}/optset{j}") for j, o in enumerate(case["optsets"])]
    except Exception as e:
        rep.count("excluded", f"history: tree setup raised {type(e).__name__}")
        return SKIP
    fails = []
    for idx, call in enumerate(case["calls"]):
        view = _view(case, call)
        sc = call["scales"]
        full, _ = mantissas(view, sc, call["tag"])
        arrays = scaled(full, sc)
        kw = dict(kws[call["opt"]])
        if call["strip"]:
            kw["strip_exponent"] = True
        if call["check_zero"]:
            kw["check_zero"] = True
        try:
            if call["via"] == "slices":
                res = tree.gather_slices(tree.contract_slice(arrays, i, **kw) for i in range(tree.nslices))
            else:
                res = tree.contract(arrays, **kw)
        except Exception as e:
            if call["strip"]:
                fails.append((idx, "raises", f"{type(e).__name__}: {e} | {traceback.format_exc()[-500:]}"))
            else:
                rep.count("excluded", f"history: plain call raised {type(e).__name__}")
            continue
        if not call["strip"]:
            continue  # a plain call is history only (it may overflow): not judged here
        mant, extra = mantissas(view, sc, call["tag"], lift=fixed)
        want, bound, nsum = ref.dense_einsum(net.inputs, net.output, mant, fixed=fixed or None, with_bound=True)
        if not np.any(want != 0):
            rep.count("excluded", "history: true result exactly zero")
            continue
        S = math.fsum(float(x) for x in sc) + extra
        bad = check_pair(res, want, bound, nsum, N, S, _slack(view, sc, nsteps))
        rep.mon("stripped_vs_logref")
        rep.mon("history_calls_checked")
        if idx:
            rep.mon("history_calls_checked_after_earlier_calls")
        if bad:
            fails.append((idx, bad[0], bad[1]))
    return fails


# --------------------------------------------------------------------------- #
#                                generators                                   #
# --------------------------------------------------------------------------- #


def _choose_removed(rng, net, want_output=False, allow_project=True, nmax=3):
    inds = [ix for ix in ref.index_order(net.inputs, net.output)]
    if not inds:
        return []
    nrem = min(nmax, rng.choice([0, 1, 1, 1, 2, 2, 3]))
    if want_output:
        nrem = max(nrem, 1)
    removed = []
    nsl = 1
    pool = list(inds)
    rng.shuffle(pool)
    if net.output and (want_output or rng.random() < 0.5):
        o = rng.choice(list(net.output))
        pool.remove(o)
        pool.insert(0, o)
    for ix in pool:
        if len(removed) >= nrem:
            break
        d = net.size_dict[ix]
        if allow_project and rng.random() < 0.2:
            removed.append([ix, rng.randrange(d)])
            continue
        if nsl * d > MAX_SLICES:
            continue
        nsl *= d
        removed.append([ix, None])
    return removed


def _choose_slabs(rng, net, removed):
    """<= 2 (tensor, index, offsets<=0) triples, one per tensor, preferring sliced indices"""
    cands = [ix for ix, proj in removed if proj is None and net.size_dict[ix] >= 2]
    if rng.random() < 0.3:
        cands += [ix for ix in ref.index_order(net.inputs, net.output) if net.size_dict[ix] >= 2 and ix not in cands][:2]
    rng.shuffle(cands)
    slabs = []
    used = set()
    for ix in cands[:2]:
        if rng.random() < 0.2:
            continue
        holders = [i for i, t in enumerate(net.inputs) if ix in t and i not in used]
        if not holders:
            continue
        i = rng.choice(holders)
        used.add(i)
        d = net.size_dict[ix]
        span = rng.choice([3, 30, 60])
        if rng.random() < 0.25:
            ds = [-round(rng.uniform(0, span), 2) for _ in range(d)]
        else:
            ds = [-rng.randint(0, span) for _ in range(d)]
        ds[rng.randrange(d)] = 0
        slabs.append([i, ix, ds])
    return slabs


def _opts(rng, entry):
    o = {
        "order": rng.choice(ct.ORDERS),
        "prefer_einsum": rng.random() < 0.35,
        "impl": rng.choice(["default", "cotengra", "autoray"]),
        "check_zero": False,
    }
    if entry in ("array_contract", "expr", "einsum"):
        o["order"] = "none"
        o["optimize"] = rng.choice(["greedy", "greedy", "path", "tree"])
        o["cache"] = rng.random() < 0.7
    return o


def _wide(rng, net, ssa):
    """An inner (summed) index shared by >= 2 operands is sliced and two of its holders get
    per-slab magnitudes up to 200 decades apart each: slices whose exponents differ by more
    than the float range (up to 400 decades).  The small slices are then negligible in the
    sum - in the implementation and, identically, in the oracle - but must not poison it."""
    cands = [
        ix for ix in ref.index_order(net.inputs, net.output)
        if ix not in net.output and 2 <= net.size_dict[ix] <= 8 and sum(ix in t for t in net.inputs) >= 2
    ]
    if not cands:
        return None
    a = rng.choice(cands)
    d = net.size_dict[a]
    holders = rng.sample([i for i, t in enumerate(net.inputs) if a in t], 2)
    scales = make_scales(rng, net, ssa, rng.choice(["uniform", "alt", "all+100", "mild"]), [])
    slabs = []
    big = rng.randrange(d)
    small = rng.choice([k for k in range(d) if k != big])
    for i in holders:
        scales[i] = rng.choice([100, 100, 60, 0])
        room = 99 + scales[i]  # (not 100: at +100 and -100 together only |entry| == 1 would fit -> exact cancellations)
        ds = [-rng.randint(0, room) for _ in range(d)]
        ds[big] = 0
        ds[small] = -room
        slabs.append([i, a, ds])
    return a, scales, slabs


def gen_main(rng, cs, tier):
    net = gen.network(rng, 2, 8, cap=budget(tier, 20000, 40000))
    ssa = gen.random_ssa(rng, net.N)
    entry = _weighted(rng, ENTRIES)
    opts = _opts(rng, entry)
    wide = _wide(rng, net, ssa) if (entry in ("tree", "slices") and rng.random() < 0.15) else None
    if wide:
        a, scales, slabs = wide
        pattern = "wide"
        removed = [r for r in _choose_removed(rng, net, nmax=2) if r[0] != a]
        nsl = net.size_dict[a]
        keep = []
        for ix, proj in removed:
            if proj is None:
                if nsl * net.size_dict[ix] > MAX_SLICES:
                    continue
                nsl *= net.size_dict[ix]
            keep.append([ix, proj])
        removed = keep + [[a, None]]
        rng.shuffle(removed)
    else:
        if entry in ("tree", "slices"):
            removed = _choose_removed(rng, net, want_output=rng.random() < 0.35)
        elif opts.get("optimize") == "tree":
            # a sliced tree handed to the array API (projection would change the meaning of the call)
            removed = _choose_removed(rng, net, want_output=rng.random() < 0.35, allow_project=False)
        else:
            removed = []
        slabs = _choose_slabs(rng, net, removed)
        pattern = _weighted(rng, PATTERNS)
        scales = make_scales(rng, net, ssa, pattern, slabs)
    case = {
        "family": "main", "entry": entry, "net": net.to_json(), "ssa": [list(p) for p in ssa],
        "removed": removed, "pattern": pattern, "scales": scales, "slabs": slabs, "zero": [],
        "kind": rng.choice(["sign", "sign", "pos", "pos", "complex"]), "opts": opts, "case_seed": cs,
        "holes": bool(slabs) and rng.random() < 0.4,
    }
    if entry == "expr":
        p2 = _weighted(rng, PATTERNS)
        case["pattern2"] = p2
        case["scales2"] = make_scales(rng, net, ssa, p2, slabs)
    return case


def gen_zero(rng, cs, tier):
    """K4 family: one operand has whole slabs along a SLICED index set to exactly zero; all
    other entries are positive, so the total is non-zero."""
    for _ in range(50):
        net = gen.network(rng, 2, 6, cap=5000, classes=("graph", "hyper", "chain", "lattice", "batch", "hadamard", "perverse"))
        sliceable = [ix for ix in ref.index_order(net.inputs, net.output) if 2 <= net.size_dict[ix] <= 8]
        if sliceable:
            break
    else:
        return None
    ssa = gen.random_ssa(rng, net.N)
    a = rng.choice(sliceable)
    removed = [[a, None]]
    r = rng.random()
    if r < 0.3:  # further removed indices: several slices are zero
        for ix in sliceable:
            if ix != a and len(removed) < 3 and net.size_dict[ix] * net.size_dict[a] <= 32 and rng.random() < 0.6:
                removed.append([ix, None if rng.random() < 0.8 else rng.randrange(net.size_dict[ix])])
        rng.shuffle(removed)
    i = rng.choice([k for k, t in enumerate(net.inputs) if a in t])
    d = net.size_dict[a]
    nz = 1 if (d == 2 or rng.random() < 0.75) else rng.randint(2, d - 1)
    ks = sorted(rng.sample(range(d), nz))
    entry = rng.choice(["tree", "tree", "slices"])
    opts = _opts(rng, entry)
    opts["check_zero"] = True
    pattern = rng.choice(["mild", "uniform", "all+100", "all-100", "alt"])
    scales = make_scales(rng, net, ssa, pattern, [])
    return {
        "family": "zero", "entry": entry, "net": net.to_json(), "ssa": [list(p) for p in ssa],
        "removed": removed, "pattern": pattern, "scales": scales, "slabs": [], "zero": [[i, a, ks]],
        "kind": "pos", "opts": opts, "case_seed": cs,
    }


def gen_single(rng, cs, tier):
    nsym = rng.randint(1, 3)
    syms = [gen.symbol(k) for k in range(nsym)]
    mode = rng.choice(["identity", "transpose", "sum", "trace", "any"])
    if mode in ("identity", "transpose"):
        term = list(syms)
        rng.shuffle(term)
        output = list(term)
        if mode == "transpose":
            rng.shuffle(output)
    elif mode == "sum":
        term = list(syms)
        rng.shuffle(term)
        output = [ix for ix in term if rng.random() < 0.5]
        rng.shuffle(output)
    else:
        term = [rng.choice(syms) for _ in range(rng.randint(2, 4))]
        used = sorted(set(term))
        output = [ix for ix in used if rng.random() < (0.5 if mode == "trace" else 0.7)]
        rng.shuffle(output)
    sd = {ix: rng.choice([1, 2, 3, 4, 7]) for ix in syms}
    net = gen.Net([term], output, sd, "single")
    slabs = []
    if rng.random() < 0.3:
        ix = rng.choice(term)
        if sd[ix] >= 2 and term.count(ix) == 1:
            ds = [-rng.randint(0, 60) for _ in range(sd[ix])]
            ds[rng.randrange(sd[ix])] = 0
            slabs = [[0, ix, ds]]
    pat = lambda: rng.choice([100, -100, rng.randint(-100, 100), round(rng.uniform(-100, 100), 2)])  # noqa: E731
    s1, s2 = pat(), pat()
    if slabs:
        lo = -100 - min(slabs[0][2])
        s1, s2 = max(s1, lo), max(s2, lo)
    return {
        "family": "main", "entry": "single", "net": net.to_json(), "ssa": [], "removed": [], "pattern": "single",
        "scales": [s1], "scales2": [s2], "slabs": slabs, "zero": [],
        "kind": rng.choice(["sign", "pos", "complex"]),
        "opts": {"api": rng.choice(["array_contract", "einsum", "expr"]), "mode": mode}, "case_seed": cs,
    }


HISTORY_SHAPES = ("off_on", "off_on", "on_off", "on_off", "random")


def gen_history(rng, cs, tier):
    """2-4 calls on one tree sliced along an INNER index ``a`` (a zero slab along a sliced
    output index with check_zero=True is the other recorded finding: kept out of here)."""
    for _ in range(50):
        net = gen.network(rng, 2, 6, cap=5000, classes=("graph", "hyper", "chain", "lattice", "batch", "hadamard", "perverse"))
        sliceable = [ix for ix in ref.index_order(net.inputs, net.output) if 2 <= net.size_dict[ix] <= 8]
        inner = [ix for ix in sliceable if ix not in net.output]
        if inner:
            break
    else:
        return None
    ssa = gen.random_ssa(rng, net.N)
    a = rng.choice(inner)
    removed = [[a, None]]
    if rng.random() < 0.3:
        for ix in sliceable:
            if ix != a and len(removed) < 3 and net.size_dict[ix] * net.size_dict[a] <= 32 and rng.random() < 0.6:
                removed.append([ix, None if rng.random() < 0.8 else rng.randrange(net.size_dict[ix])])
        rng.shuffle(removed)
    i = rng.choice([k for k, t in enumerate(net.inputs) if a in t])
    d = net.size_dict[a]
    nz = 1 if (d == 2 or rng.random() < 0.75) else rng.randint(2, d - 1)
    ks = sorted(rng.sample(range(d), nz))
    optsets = []
    for _ in range(1 if rng.random() < 0.7 else 2):
        o = _opts(rng, "tree")
        optsets.append({k: o[k] for k in ("order", "prefer_einsum", "impl")})

    def call(data, strip, cz, opt):
        idx = len(calls)
        if data == "zero":
            kind, slabs = "pos", []
            pattern = rng.choice(["mild", "uniform", "all+100", "all-100", "alt"])
        else:
            kind = rng.choice(["sign", "pos", "pos", "complex"])
            slabs = _choose_slabs(rng, net, removed) if rng.random() < 0.4 else []
            pattern = _weighted(rng, PATTERNS)
        calls.append({
            "data": data, "strip": bool(strip), "check_zero": bool(cz), "opt": opt,
            "via": "slices" if rng.random() < 0.3 else "contract", "kind": kind, "slabs": slabs,
            "pattern": pattern, "scales": make_scales(rng, net, ssa, pattern, slabs), "tag": f"h{idx}",
        })

    def random_call():
        call(rng.choice(["dense", "zero"]), rng.random() < 0.8, rng.random() < 0.5, rng.randrange(len(optsets)))

    calls = []
    n = rng.randint(2, 4)
    shape = rng.choice(HISTORY_SHAPES)
    opt = rng.randrange(len(optsets))
    if shape == "off_on":
        # check_zero=False first (dense data: a clean pass; or zero data: the recorded NaN), ..., then True
        call("dense" if rng.random() < 0.7 else "zero", True, False, opt)
        for _ in range(n - 2):
            random_call()
        call("zero" if rng.random() < 0.85 else "dense", True, True, opt)
    elif shape == "on_off":
        call("zero" if rng.random() < 0.7 else "dense", True, True, opt)
        call("dense" if rng.random() < 0.7 else "zero", True, False, opt)
        for _ in range(n - 2):
            if rng.random() < 0.5:
                call("zero", True, True, opt)
            else:
                random_call()
    else:
        for _ in range(n):
            random_call()
    return {
        "family": "history", "entry": "history", "shape": shape, "net": net.to_json(), "ssa": [list(p) for p in ssa],
        "removed": removed, "zero": [[i, a, ks]], "optsets": optsets, "calls": calls, "case_seed": cs,
    }


def history_pairs(case):
    """(#pairs off->on, #pairs on->off): stripped calls with the same option set whose check_zero differs
    from that of an EARLIER such call"""
    off_on = on_off = 0
    for j, c in enumerate(case["calls"]):
        if not c["strip"]:
            continue
        for b in case["calls"][:j]:
            if b["strip"] and b["opt"] == c["opt"] and b["check_zero"] != c["check_zero"]:
                if c["check_zero"]:
                    off_on += 1
                else:
                    on_off += 1
                break
    return off_on, on_off


# --------------------------------------------------------------------------- #
#                                 driving                                     #
# --------------------------------------------------------------------------- #


def _witness(case):
    return {k: v for k, v in case.items() if not k.startswith("_")}


def _key(case):
    return repr(sorted((k, repr(v)) for k, v in case.items() if k not in ("case_seed",) and not k.startswith("_")))


ZERO_FAMILY_CAP = 5  # violations kept per shard and per (check_zero, kind) of the zero family


def _report(rep, case, res):
    if res is None or res == SKIP:
        return
    net = gen.Net.from_json(case["net"])
    if case["family"] == "zero":
        # the recorded finding fires on every such case: keep a few witnesses per shard, count
        # the rest, so that they can never crowd other violations out of the report
        g = f"check_zero={bool(case['opts'].get('check_zero'))}:{res[0]}"
        rep.count("zero_family_violations", g)
        if rep.extra["zero_family_violations"][g] > ZERO_FAMILY_CAP:
            return
    rep.violation(
        res[0],
        _witness(case),
        f"{net.eq()} sizes={net.size_dict} ssa={case['ssa']} removed={case['removed']} scales={case['scales']} "
        f"slabs={case['slabs']} zero={case['zero']} entry={case['entry']} opts={case['opts']}: {res[1]}",
    )


def run_case(rep, case, rng):
    net = gen.Net.from_json(case["net"])
    sliced_out = _sliced_output(net, case)
    res = execute(rep, case)
    status = case.get("_plain", "?")
    nontrivial = status in ("inf", "nan", "zero") or bool(sliced_out)
    cls = "zero" if case["family"] == "zero" else ("single" if case["entry"] == "single" else net.cls)
    rep.case(
        _key(case), nontrivial, cls,
        sample={"eq": net.eq(), "sizes": net.size_dict, "ssa": case["ssa"], "removed": case["removed"],
                "scales": case["scales"], "slabs": case["slabs"], "entry": case["entry"], "opts": case["opts"],
                "plain": status},
    )
    rep.count("entry", case["entry"])
    rep.count("pattern", case["pattern"])
    if case.get("holes"):
        rep.mon("slab_holes")
    if res == SKIP:
        rep.count("skipped", case["entry"])
        return
    rep.count("plain_status", status)
    rep.count("plain_status_by_pattern", f"{case['pattern']}:{status}")
    rep.count("nremoved", len(case["removed"]))
    if status in ("inf", "nan", "zero"):
        rep.mon("plain_overflowed_or_underflowed")
        rep.mon("plain_" + status)
    if sliced_out:
        rep.mon("sliced_output_stripped")
        if len(sliced_out) > 1:
            rep.mon("sliced_output_stripped_2plus")
    if any(p is not None for _, p in case["removed"]):
        rep.mon("projected_stripped")
    if case["pattern"] == "wide":
        rep.mon("slices_more_than_308_decades_apart")
    if case["slabs"]:
        rep.mon("slabbed_operands")
        if any(ix in [r[0] for r in case["removed"] if r[1] is None] for _, ix, _ in case["slabs"]):
            rep.mon("slab_along_sliced_index")

    if case["family"] == "zero":
        rep.mon("zero_slice_check_zero_on")
        rep.count("zero_family", f"check_zero=True:{'held' if res is None else res[0]}")
        _report(rep, case, res)
        if res is None:
            off = copy.deepcopy(_witness(case))
            off["opts"]["check_zero"] = False
            r2 = execute(rep, off)
            rep.mon("zero_slice_check_zero_off")
            rep.count("zero_family", f"check_zero=False:{'held' if r2 is None else r2 if r2 == SKIP else r2[0]}")
            _report(rep, off, r2)
        return

    _report(rep, case, res)
    if res is None and case["entry"] in ("tree", "slices") and rng.random() < 0.4:
        on = copy.deepcopy(_witness(case))
        on["opts"]["check_zero"] = True
        r2 = execute(rep, on)
        rep.mon("check_zero_on_same_answer")
        _report(rep, on, r2)


HISTORY_KNOWN_CAP = 2  # witnesses of the recorded finding kept per shard from the histories


def run_history(rep, case):
    net = gen.Net.from_json(case["net"])
    res = execute_history(rep, case)
    off_on, on_off = history_pairs(case)
    rep.case(
        _key(case), bool(off_on or on_off), "history",
        sample={"eq": net.eq(), "sizes": net.size_dict, "ssa": case["ssa"], "removed": case["removed"],
                "zero": case["zero"], "optsets": case["optsets"], "entry": "history",
                "calls": [[c["data"], c["via"], c["strip"], c["check_zero"], c["opt"]] for c in case["calls"]]},
    )
    rep.count("entry", "history")
    if res == SKIP:
        rep.count("skipped", "history")
        return
    rep.mon("same_tree_histories")
    rep.count("history_shape", case["shape"])
    rep.count("history_ncalls", len(case["calls"]))
    if off_on:
        rep.mon("history_check_zero_off_then_on")
    if on_off:
        rep.mon("history_check_zero_on_then_off")
    failed = {idx for idx, _, _ in res}
    for idx, c in enumerate(case["calls"]):
        if c["strip"]:
            rep.count("history_calls", f"{c['data']}:check_zero={c['check_zero']}:{'wrong' if idx in failed else 'held'}")
    for idx, kind, msg in res:
        c = case["calls"][idx]
        if known_outcome(c, kind):
            # fires on every such call: a few witnesses per shard, the rest is tallied above
            rep.count("history_known_outcome", "check_zero=False:nonfinite")
            if rep.extra["history_known_outcome"]["check_zero=False:nonfinite"] > HISTORY_KNOWN_CAP:
                continue
        w = _witness(case)
        w["failed_call"] = idx
        before = [[b["data"], b["via"], b["strip"], b["check_zero"], b["opt"]] for b in case["calls"][:idx]]
        rep.violation(
            kind, w,
            f"{net.eq()} sizes={net.size_dict} ssa={case['ssa']} removed={case['removed']} zero={case['zero']} "
            f"optsets={case['optsets']}: call {idx} on the same tree object (data={c['data']} via={c['via']} "
            f"strip_exponent={c['strip']} check_zero={c['check_zero']} optset={c['opt']} scales={c['scales']} "
            f"slabs={c['slabs']}) after [data, via, strip, check_zero, optset]={before}: {msg}",
        )


def run_shard(rep, tier, seed, shard, nshards):
    _run_main(rep, tier, seed, shard, nshards)
    # histories on one tree object: their own (small) budget and seed stream, after the main workload
    dl = Deadline(budget(tier, 4, 60))
    for k in range(budget(tier, 400, 10000)):
        if dl.expired():
            break
        cs = f"{seed}/C19/history/{shard}/{k}"
        case = gen_history(rng_for(cs), cs, tier)
        if case is not None:
            run_history(rep, case)


def _run_main(rep, tier, seed, shard, nshards):
    dl = Deadline(budget(tier, 45, 600))
    ncases = budget(tier, 5000, 40000)
    for k in range(ncases):
        if dl.expired():
            break
        cs = f"{seed}/C19/{shard}/{k}"
        rng = rng_for(cs)
        r = rng.random()
        if r < 0.03:
            case = gen_zero(rng, cs, tier)
        elif r < 0.12:
            case = gen_single(rng, cs, tier)
        else:
            case = gen_main(rng, cs, tier)
        if case is None:
            continue
        run_case(rep, case, rng)


# --------------------------------------------------------------------------- #
#                          classification and replay                          #
# --------------------------------------------------------------------------- #


def classify(v):
    """Only the zero-slice family can receive a key, and only after the witness has been
    re-derived and re-executed."""
    w = v.get("witness") or {}
    if w.get("family") == "history":
        return _classify_history(v, w)
    if w.get("family") != "zero" or w.get("entry") not in ("tree", "slices"):
        return None
    net = gen.Net.from_json(w["net"])
    sliced = {ix for ix, proj in w.get("removed", ()) if proj is None}
    zero = [z for z in w.get("zero", ()) if z[1] in sliced and z[1] in net.inputs[z[0]] and z[2]]
    if not zero or w.get("kind") != "pos" or w.get("slabs"):
        return None
    nzero = n_zero_slices(w)
    if nzero < 1:
        return None
    rep = Report(PID, "classify", 0)
    if not w["opts"].get("check_zero"):
        if v.get("kind") != "nonfinite":
            return None
        on = copy.deepcopy(w)
        on["opts"]["check_zero"] = True
        # total non-zero (else execute skips), check_zero=True passes, check_zero=False reproduces the NaN
        if execute(rep, on) is not None:
            return None
        again = execute(rep, copy.deepcopy(w))
        if isinstance(again, tuple) and again[0] == "nonfinite":
            return KNOWN_KEY
        return None
    # check_zero=True failing: not a recorded finding; name the mechanism for triage
    again = execute(rep, copy.deepcopy(w))
    if not isinstance(again, tuple):
        return None
    if again[0] == "nonfinite" and nzero >= 2:
        return "several-zero-slices-check_zero-on"
    if again[0] == "raises" and any(z[1] in net.output for z in zero):
        return "zero-output-chunk-check_zero-on"
    return None


def _classify_history(v, w):
    """The recorded key only if the failing CALL ITSELF stripped with check_zero=False on zero-slab data,
    and that single call, alone on a fresh tree, is right with check_zero=True and non-finite without.
    A wrong call that had check_zero=True (whatever preceded it) is never the recorded finding."""
    idx = w.get("failed_call")
    calls = w.get("calls") or []
    if not isinstance(idx, int) or isinstance(idx, bool) or not 0 <= idx < len(calls):
        return None
    call = calls[idx]
    if not known_outcome(call, v.get("kind")):
        return None
    net = gen.Net.from_json(w["net"])
    sliced = {ix for ix, proj in w.get("removed", ()) if proj is None}
    zero = [z for z in w.get("zero", ()) if z[1] in sliced and z[1] in net.inputs[z[0]] and z[2]]
    if not zero or call.get("kind") != "pos" or call.get("slabs"):
        return None
    if n_zero_slices(w) < 1:
        return None
    rep = Report(PID, "classify", 0)
    solo = copy.deepcopy(w)
    solo["calls"] = [dict(copy.deepcopy(call), check_zero=True)]
    if execute_history(rep, solo) != []:
        return None
    solo["calls"] = [copy.deepcopy(call)]
    again = execute_history(rep, solo)
    if isinstance(again, list) and len(again) == 1 and again[0][1] == "nonfinite":
        return KNOWN_KEY
    return None


def replay(rep, v):
    if v["witness"].get("family") == "history":
        w = v["witness"]
        res = execute_history(rep, copy.deepcopy(w))
        for idx, kind, msg in [] if res == SKIP else res:
            # the stored call, and anything that is not the recorded outcome of another call
            if idx == w.get("failed_call") or not known_outcome(w["calls"][idx], kind):
                rep.violation(kind, dict(w, failed_call=idx), f"call {idx} of the history: {msg}")
        return
    case = copy.deepcopy(v["witness"])
    res = execute(rep, case)
    if res is not None and res != SKIP:
        rep.violation(res[0], v["witness"], res[1])


def finalize(rep, tier):
    m = rep.monitors
    return {
        "plain_failed_cases": {k: m.get("plain_" + k, 0) for k in ("inf", "nan", "zero")},
        "sliced_output_cases": m.get("sliced_output_stripped", 0),
        "same_tree_histories": {k: m.get(k, 0) for k in (
            "same_tree_histories", "history_calls_checked", "history_calls_checked_after_earlier_calls",
            "history_check_zero_off_then_on", "history_check_zero_on_then_off")},
    }
