"""C14 - a reusable optimizer's cache hit is a correct answer for the question asked.

A history of queries through ONE ReusableHyperOptimizer / ReusableRandomGreedyOptimizer is
checked step by step against a small dict model (hit / miss, overwrite policies, cache_only)
with a search counter on the sub-optimizer; every returned tree is checked for completeness,
for being over the queried network, for carrying the stored sliced indices and for the stored
score being its own score; entries shared by two different contractions must be equally valid
for both.  Directories are re-opened by fresh optimizer objects and by fresh processes.
"""

import json
import os
import shutil
import subprocess
import sys
import tempfile
import traceback
import warnings

import cotengra as ctg
from cotengra.pathfinders.path_basic import ReusableRandomGreedyOptimizer

from .. import ct, gen, ref
from ..common import VERIF, Deadline, budget, rng_for

PID = "C14"
LEVEL = "exploration"
RULE = (
    "pools of 3-6 similar contractions (index order permuted within tensors/output, tensor order permuted, one size "
    "changed, relabelled, extra unused size_dict entry) queried 6-20 times in random order through one reusable "
    "optimizer x {hyper, random-greedy, hyper-compressed (chi 2/4/8)} x hash_method {a,b} x directory {None, path} x directory_split x overwrite "
    "{False, True, 'improved'} x cache_only, slicing options on; re-opened by fresh objects and fresh processes; "
    "distinct = distinct (pool, configuration, query sequence); non-trivial = >=1 hit on an entry"
)
ASSUMPTIONS = [
    "the stored entry is read through the optimizer's own DiskDict (opt._cache[h]) - there is no public accessor",
    "'equally valid' = path well-formed for the query, stored sliced indices exist in it, stored score == recomputed score",
]
REQUIRED_MONITORS = ["queries", "hits", "misses", "repeat_same_order", "tree_of_query", "sliced_as_stored", "score_as_stored",
                     "sharing_events", "permuted_share", "fresh_object_reload", "fresh_process_reload", "cache_only", "improved_monotone", "compressed_answers"]
SHARD_TIMEOUT = {"quick": 500, "thorough": 3600}


def nshards(tier):
    return 16


def classify(v):
    """K2: hash_method='b' hashes the topology label-free but the sizes by label, so two
    different contractions (same topology up to relabelling, same size_dict) share an entry
    whose path/score/sliced indices were computed for the other one."""
    w = v["witness"]
    if w.get("cfg", {}).get("hash_method") != "b":
        return None
    if v["kind"] not in ("sharing_invalid", "score_as_stored", "sliced_as_stored"):
        return None
    d = v.get("detail") or w.get("detail") or {}
    if d.get("shared_with_other") and d.get("same_size_dict") and d.get("same_topology_up_to_relabelling") and not d.get("same_network"):
        return "hash-b-sizes-by-label"
    return None


# -------------------------- pools of similar contractions ------------------- #


def variants(rng, base):
    out = [("base", base)]
    # index order permuted within tensors and the output: must share under 'a'
    ins = [list(t) for t in base.inputs]
    for t in ins:
        rng.shuffle(t)
    o = list(base.output)
    rng.shuffle(o)
    out.append(("perm_inds", gen.Net(ins, o, base.size_dict, base.cls)))
    # tensor order permuted
    order = list(range(base.N))
    rng.shuffle(order)
    out.append(("perm_tensors", gen.Net([base.inputs[i] for i in order], base.output, base.size_dict, base.cls)))
    # one size changed
    sd = dict(base.size_dict)
    ix = rng.choice(sorted(sd))
    sd[ix] = sd[ix] + 1
    out.append(("size", gen.Net(base.inputs, base.output, sd, base.cls)))
    # relabelled consistently (sizes follow the labels)
    labels = sorted(base.size_dict)
    new = labels[:]
    rng.shuffle(new)
    ren = dict(zip(labels, new))
    out.append(("relabel_sizes_follow", gen.Net([[ren[i] for i in t] for t in base.inputs], [ren[i] for i in base.output], {ren[k]: v for k, v in base.size_dict.items()}, base.cls)))
    # relabelled but the size_dict stays: a DIFFERENT contraction with the same topology
    out.append(("relabel_sizes_stay", gen.Net([[ren[i] for i in t] for t in base.inputs], [ren[i] for i in base.output], dict(base.size_dict), base.cls)))
    # extra unused size_dict entry
    sd = dict(base.size_dict)
    sd["Z"] = 7
    out.append(("extra_size_entry", gen.Net(base.inputs, base.output, sd, base.cls)))
    keep = [out[0]] + rng.sample(out[1:], rng.randint(2, len(out) - 1))
    return keep


def exact_key(net):
    return (net.inputs, net.output, tuple(sorted(net.size_dict.items())))


def merely_permuted(a, b):
    return (
        a.N == b.N
        and all(sorted(x) == sorted(y) for x, y in zip(a.inputs, b.inputs))
        and sorted(a.output) == sorted(b.output)
        and a.size_dict == b.size_dict
    )


def topo(net):
    edges = {}
    for ix in net.output:
        edges.setdefault(ix, []).append(-1)
    for i, t in enumerate(net.inputs):
        for ix in t:
            edges.setdefault(ix, []).append(i)
    return tuple(sorted(tuple(sorted(v)) for v in edges.values()))


# ------------------------------ optimizers ---------------------------------- #


def make_opt(cfg, directory, counter):
    kw = dict(directory=directory, overwrite=cfg["overwrite"], hash_method=cfg["hash_method"], cache_only=cfg["cache_only"], directory_split=cfg["directory_split"])
    if cfg["kind"] == "hyper":
        opt = ctg.ReusableHyperOptimizer(
            methods=["greedy"], max_repeats=cfg["max_repeats"], parallel=False, optlib="random", seed=cfg["seed"], minimize=cfg["minimize"],
            slicing_opts={"target_size": cfg["target_size"], "max_repeats": 2} if cfg["slicing"] else None, progbar=False, **kw,
        )
    elif cfg["kind"] == "hyper-compressed":
        opt = ctg.ReusableHyperCompressedOptimizer(
            chi=cfg["chi"], methods=["greedy-compressed"], max_repeats=cfg["max_repeats"], parallel=False, optlib="random", seed=cfg["seed"], progbar=False, **kw,
        )
    else:
        opt = ReusableRandomGreedyOptimizer(max_repeats=cfg["max_repeats"], seed=cfg["seed"], parallel=False, **kw)
    orig = opt._get_suboptimizer

    def counted():
        counter["searches"] += 1
        return orig()

    opt._get_suboptimizer = counted
    return opt


def recomputed_score(cfg, tree):
    if cfg["kind"] == "hyper":
        return tree.get_score(cfg["minimize"])
    if cfg["kind"] == "hyper-compressed":
        return tree.get_score(f"peak-compressed-{cfg['chi']}")
    import math

    return math.log10(tree.total_flops())


FRESH = r"""
import json, sys, warnings
warnings.filterwarnings("ignore")
import cotengra as ctg
from cotengra.pathfinders.path_basic import ReusableRandomGreedyOptimizer
cfg = json.loads(sys.argv[1]); qs = json.loads(sys.argv[2]); directory = sys.argv[3]
kw = dict(directory=directory, hash_method=cfg["hash_method"], cache_only=True, directory_split=cfg["directory_split"])
if cfg["kind"] == "hyper":
    opt = ctg.ReusableHyperOptimizer(methods=["greedy"], max_repeats=1, parallel=False, optlib="random", minimize=cfg["minimize"], **kw)
elif cfg["kind"] == "hyper-compressed":
    opt = ctg.ReusableHyperCompressedOptimizer(chi=cfg["chi"], methods=["greedy-compressed"], max_repeats=1, parallel=False, optlib="random", **kw)
else:
    opt = ReusableRandomGreedyOptimizer(max_repeats=1, parallel=False, **kw)
out = []
for q in qs:
    inputs = tuple(map(tuple, q["inputs"])); output = tuple(q["output"])
    try:
        tree = opt.search(inputs, output, q["size_dict"])
        out.append({"ok": True, "path": [list(p) for p in tree.get_path()], "sliced": list(tree.sliced_inds), "n": tree.N, "complete": bool(tree.is_complete()), "cls": type(tree).__name__})
    except KeyError:
        out.append({"ok": False, "err": "KeyError"})
    except Exception as e:
        out.append({"ok": False, "err": type(e).__name__ + ": " + str(e)})
print("RESULT" + json.dumps(out))
"""


def fresh_process(cfg, queries, directory):
    env = dict(os.environ)
    p = subprocess.run([sys.executable, "-c", FRESH, json.dumps(cfg), json.dumps(queries), directory], capture_output=True, text=True, timeout=180, env=env, cwd=VERIF)
    for line in p.stdout.splitlines():
        if line.startswith("RESULT"):
            return json.loads(line[6:])
    raise RuntimeError("fresh process failed: " + p.stderr[-500:])


# --------------------------------- one history ------------------------------- #


def run_history(rep, case, workdir):
    warnings.filterwarnings("ignore")
    import random

    random.seed(case["case_seed"])
    cfg = case["cfg"]
    pool = [(tag, gen.Net.from_json(j)) for tag, j in case["pool"]]
    directory = os.path.join(workdir, "cache") if cfg["directory"] else None
    counter = {"searches": 0}
    opt = make_opt(cfg, directory, counter)
    creators = {}   # library key -> exact network that created / last overwrote the entry
    stored_scores = {}  # library key -> list of stored scores over time
    known_exact = {}  # exact network -> path returned last time
    for step, qi in enumerate(case["queries"]):
        tag, net = pool[qi]
        rep.mon("queries")
        h, missing = opt.hash_query(net.inputs, net.output, net.size_dict)
        hk = repr(h)
        before = counter["searches"]
        where = f"step {step}: query {qi} ({tag})"
        try:
            old_con = None if missing else dict(opt._cache[h])
        except Exception:
            old_con = None
        detail = {}
        if not missing and hk in creators and exact_key(creators[hk]) != exact_key(net):
            other = creators[hk]
            detail = {
                "shared_with_other": True, "same_network": False,
                "same_size_dict": other.size_dict == net.size_dict,
                "same_topology_up_to_relabelling": topo(other) == topo(net),
                "merely_permuted": merely_permuted(other, net),
            }
            rep.mon("sharing_events")
            if detail["merely_permuted"]:
                rep.mon("permuted_share")
            if cfg["hash_method"] == "a" and not detail["merely_permuted"]:
                return ("sharing_unexpected", step, f"{where}: shares an entry with a contraction that differs in more than index order", detail)
        try:
            if case["api"][step % len(case["api"])] == "call":
                path = opt(net.inputs, net.output, net.size_dict)
                tree = None
            else:
                tree = opt.search(net.inputs, net.output, net.size_dict)
                path = tree.get_path()
        except KeyError as e:
            if cfg["cache_only"] and missing:
                rep.mon("cache_only")
                if counter["searches"] != before:
                    return ("cache_only_searched", step, f"{where}: cache_only=True but a search ran", detail)
                continue
            return ("raises", step, f"{where}: KeyError {e}", detail)
        except Exception as e:
            return ("raises", step, f"{where}: {type(e).__name__}: {e} | {traceback.format_exc()[-400:]}", detail)
        searched = counter["searches"] - before
        if cfg["cache_only"]:
            rep.mon("cache_only")
            if searched:
                return ("cache_only_searched", step, f"{where}: cache_only=True but a search ran", detail)
        if missing:
            rep.mon("misses")
            if not searched and not cfg["cache_only"]:
                return ("miss_without_search", step, f"{where}: entry missing but no search ran", detail)
        else:
            rep.mon("hits")
            if cfg["overwrite"] is False and searched:
                return ("searched_again", step, f"{where}: entry present, overwrite=False, but the optimizer searched again", detail)
        con = opt._cache[h]
        # the returned path / tree answers THIS query
        msg = ref.check_linear_path(net.N, path)
        if msg:
            return ("sharing_invalid" if detail else "path_invalid", step, f"{where}: returned path: {msg}", detail)
        if tree is not None:
            rep.mon("tree_of_query")
            if tuple(map(tuple, tree.inputs)) != net.inputs or tuple(tree.output) != net.output or any(tree.size_dict[k] != v for k, v in net.size_dict.items() if k in tree.size_dict):
                return ("tree_of_other_query", step, f"{where}: returned tree is not over the queried network", detail)
            m = ref.check_tree_struct(net.N, ct.children_of(tree))
            if m:
                return ("tree_incomplete", step, f"{where}: {m}", detail)
            if cfg["kind"] == "hyper-compressed":
                # the answer of a compressed optimizer is an ORDERED contraction: the tree (first answer
                # and every hit alike) is a ContractionTreeCompressed whose path is the stored order
                rep.mon("compressed_answers")
                if type(tree).__name__ != "ContractionTreeCompressed":
                    return ("tree_class", step, f"{where}: {'miss' if missing else 'hit'} returned a {type(tree).__name__}, not a ContractionTreeCompressed", detail)
                if tuple(map(tuple, tree.get_path())) != tuple(map(tuple, con["path"])):
                    return ("order_as_stored", step, f"{where}: {'miss' if missing else 'hit'}: tree.get_path() is not the stored contraction order", detail)
            rep.mon("sliced_as_stored")
            if tuple(tree.sliced_inds) != tuple(con["sliced_inds"]) and set(tree.sliced_inds) != set(con["sliced_inds"]):
                return ("sliced_as_stored", step, f"{where}: tree sliced on {tuple(tree.sliced_inds)} but the stored entry says {tuple(con['sliced_inds'])}", detail)
            if any(ix not in net.size_dict or not any(ix in t for t in net.inputs) for ix in con["sliced_inds"]):
                return ("sharing_invalid", step, f"{where}: stored sliced indices {con['sliced_inds']} are not indices of the query", detail)
            rep.mon("score_as_stored")
            rs = recomputed_score(cfg, tree)
            if abs(rs - con["score"]) > 1e-9 * max(1.0, abs(rs)):
                return ("score_as_stored", step, f"{where}: stored score {con['score']} but the returned tree scores {rs}", detail)
        # repeated exact query, overwrite=False: same contraction order
        ek = exact_key(net)
        if ek in known_exact and cfg["overwrite"] is False:
            rep.mon("repeat_same_order")
            if tuple(map(tuple, path)) != known_exact[ek]:
                return ("order_changed", step, f"{where}: repeated query returned a different contraction order", detail)
        known_exact[ek] = tuple(map(tuple, path))
        if missing or old_con is None or dict(con) != old_con:
            # the entry was created or replaced by this query
            creators[hk] = net
        hist = stored_scores.setdefault(hk, [])
        hist.append(con["score"])
        if cfg["overwrite"] == "improved" and len(hist) >= 2:
            rep.mon("improved_monotone")
            if hist[-1] > hist[-2] + 1e-12:
                return ("improved_got_worse", step, f"{where}: stored score went from {hist[-2]} to {hist[-1]} under overwrite='improved'", detail)

        # re-open the directory
        if directory and step % 3 == 2:
            c2 = {"searches": 0}
            cfg2 = dict(cfg, cache_only=True, overwrite=False)
            o2 = make_opt(cfg2, directory, c2)
            try:
                t2 = o2.search(net.inputs, net.output, net.size_dict)
            except Exception as e:
                return ("reload", step, f"{where}: a fresh optimizer on the same directory could not answer the query just stored: {type(e).__name__}: {e}", detail)
            rep.mon("fresh_object_reload")
            if tuple(map(tuple, t2.get_path())) != tuple(map(tuple, con["path"])) or set(t2.sliced_inds) != set(con["sliced_inds"]):
                return ("reload", step, f"{where}: a fresh optimizer reconstructs a different tree from the stored entry", detail)
    # fresh process over every distinct query
    if directory and case.get("fresh_process"):
        qs = [{"inputs": [list(t) for t in n.inputs], "output": list(n.output), "size_dict": n.size_dict} for _, n in pool]
        res = fresh_process(cfg, qs, directory)
        for (tag, net), r in zip(pool, res):
            h, missing = opt.hash_query(net.inputs, net.output, net.size_dict)
            rep.mon("fresh_process_reload")
            if missing:
                if r["ok"]:
                    return ("reload", len(case["queries"]), f"fresh process answered {tag} which was never stored", {})
                continue
            if not r["ok"]:
                return ("reload", len(case["queries"]), f"fresh process could not read the entry for {tag}: {r['err']}", {})
            con = opt._cache[h]
            if cfg["kind"] == "hyper-compressed" and r.get("cls") != "ContractionTreeCompressed":
                return ("reload", len(case["queries"]), f"fresh process rebuilt a {r.get('cls')} for {tag}", {})
            if [list(p) for p in con["path"]] != r["path"] or set(con["sliced_inds"]) != set(r["sliced"]) or not r["complete"] or r["n"] != net.N:
                return ("reload", len(case["queries"]), f"fresh process reconstructs a different tree for {tag}", {})
    return None


def gen_case(rng, cs, tier):
    while True:
        base = gen.network(rng, 5, 10, cap=10**9, classes=("graph", "graph", "hyper", "lattice", "chain", "batch"))
        if base.N >= 4 and len(base.size_dict) >= 3 and "Z" not in base.size_dict:
            break
    pool = variants(rng, base)
    tree = ct.make_tree(base, gen.random_ssa(rng, base.N))
    cfg = {
        "kind": rng.choice(["hyper", "hyper", "rg", "hyper-compressed"]),
        "chi": rng.choice([2, 4, 8]),
        "hash_method": rng.choice(["a", "a", "b"]),
        "directory": rng.random() < 0.6,
        "directory_split": rng.choice([True, False, "auto"]),
        "overwrite": rng.choice([False, False, True, "improved"]),
        "cache_only": False,
        "max_repeats": rng.randint(1, 4),
        "seed": rng.randrange(10**6),
        "minimize": rng.choice(["flops", "size", "combo"]),
        "slicing": rng.random() < 0.7,
        "target_size": max(1, tree.max_size() // rng.choice([2, 4, 8])),
    }
    if cfg["kind"] == "hyper-compressed":
        cfg["slicing"] = False
    nq = rng.randint(6, budget(tier, 14, 20))
    queries = [rng.randrange(len(pool)) for _ in range(nq)]
    return {
        "pool": [(t, n.to_json()) for t, n in pool], "cfg": cfg, "queries": queries, "api": [rng.choice(["search", "search", "call"]) for _ in range(4)],
        "fresh_process": cfg["directory"] and rng.random() < budget(tier, 0.15, 0.4), "case_seed": cs,
    }


def run_case(rep, case):
    workdir = tempfile.mkdtemp(prefix="vf-c14-", dir="/var/tmp")
    try:
        res = run_history(rep, case, workdir)
        if res is None and case["cfg"]["directory"]:
            # second phase: cache_only over the same directory with a new object
            case2 = dict(case, cfg=dict(case["cfg"], cache_only=True, overwrite=False), fresh_process=False)
            res = run_history_existing(rep, case2, workdir)
        return res
    finally:
        shutil.rmtree(workdir, ignore_errors=True)


def run_history_existing(rep, case, workdir):
    """cache_only pass over an existing directory: may only hit or raise KeyError, never search"""
    cfg = case["cfg"]
    pool = [(tag, gen.Net.from_json(j)) for tag, j in case["pool"]]
    counter = {"searches": 0}
    opt = make_opt(cfg, os.path.join(workdir, "cache"), counter)
    for qi, (tag, net) in enumerate(pool):
        h, missing = opt.hash_query(net.inputs, net.output, net.size_dict)
        try:
            tree = opt.search(net.inputs, net.output, net.size_dict)
            if missing:
                return ("cache_only_searched", qi, f"cache_only pass: {tag} was missing but a tree came back", {})
            m = ref.check_tree_struct(net.N, ct.children_of(tree))
            if m:
                return ("tree_incomplete", qi, f"cache_only pass: {tag}: {m}", {})
        except KeyError:
            if not missing:
                return ("raises", qi, f"cache_only pass: {tag} is stored but KeyError was raised", {})
        rep.mon("cache_only")
        if counter["searches"]:
            return ("cache_only_searched", qi, f"cache_only pass: a search ran for {tag}", {})
    return None


def run_shard(rep, tier, seed, shard, nshards):
    dl = Deadline(budget(tier, 50, 600))
    for k in range(budget(tier, 120, 3000)):
        if dl.expired():
            break
        cs = f"{seed}/C14/{shard}/{k}"
        case = gen_case(rng_for(cs), cs, tier)
        if k == 0:
            case["cfg"].update(directory=True)
            case["fresh_process"] = True
        try:
            res = run_case(rep, case)
        except Exception as e:
            rep.inconclusive_case(f"harness: {type(e).__name__}: {e} | {traceback.format_exc()[-500:]}")
            continue
        tags = [t for t, _ in case["pool"]]
        rep.case((repr(case["pool"]), repr(sorted(case["cfg"].items(), key=str)), tuple(case["queries"])), len(set(case["queries"])) < len(case["queries"]), case["cfg"]["kind"],
                 sample={"pool_tags": tags, "cfg": case["cfg"], "queries": case["queries"]})
        rep.count("config", f"{case['cfg']['kind']}|{case['cfg']['hash_method']}|dir={case['cfg']['directory']}|split={case['cfg']['directory_split']}|ow={case['cfg']['overwrite']}")
        if res:
            w = dict(case)
            w["queries"] = case["queries"][: res[1] + 1]
            w["detail"] = res[3]
            rep.violation(res[0], w, f"cfg={case['cfg']} pool={tags}: {res[2]} {res[3] or ''}")


def replay(rep, v):
    res = run_case(rep, v["witness"])
    if res:
        w = dict(v["witness"], detail=res[3])
        rep.violation(res[0], w, res[2])
