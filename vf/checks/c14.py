"""C14 - a reusable optimizer's cache hit is a correct answer for the question asked.

A history of queries through ONE ReusableHyperOptimizer / ReusableRandomGreedyOptimizer is
checked step by step against a small dict model (hit / miss, overwrite policies, cache_only)
with a search counter on the sub-optimizer; every returned tree is checked for completeness,
for being over the queried network, for carrying the stored sliced indices and for the stored
score being its own score; entries shared by two different contractions must be equally valid
for both.  Directories are re-opened by fresh optimizer objects and by fresh processes.

Widened history operations and configurations:
  update  opt.update_from_tree(tree, overwrite=False|True|'improved') - the user stores a tree of his own for a pool
          member (random contraction order, for the hyper and random-greedy kinds possibly sliced): no search may run; the dict model
          says whether the entry is created / replaced / kept (overwrite semantics of the docstring; a score tie may
          go either way); a replaced entry must describe the SUPPLIED tree (same contraction tree, sliced indices,
          score - the score from the independent cost model for the exact objectives); the next query for that
          contraction through an overwrite=False optimizer is a hit without search returning exactly that tree; a
          fresh object on the same directory (and the fresh process at the end) reads the same entry
  cleanup opt.cleanup() in the middle of a history: it must return (every directory layout), afterwards every
          contraction stored so far is missing for this object AND for a fresh cache_only optimizer on the directory
          (KeyError: no entry file survives, nothing stale can be served "across processes"); the model is emptied
          and every oracle keeps deciding the queries that follow (fresh-object agreement on each of the next three)
  auto    directory=True in a scratch working directory: an optimizer with EQUAL options (dict options built in
          another key order) finds the stored answer, one that differs in a single path-relevant option does not
"""

import json
import os
import shutil
import subprocess
import sys
import tempfile
import traceback
import warnings

import cotengra as ctg
from cotengra.pathfinders.path_basic import ReusableRandomGreedyOptimizer

from .. import ct, gen, ref
from ..common import VERIF, Deadline, budget, rng_for

PID = "C14"
LEVEL = "exploration"
RULE = (
    "pools of 3-6 similar contractions (index order permuted within tensors/output, tensor order permuted, one size "
    "changed, relabelled, extra unused size_dict entry) queried 6-20 times in random order through one reusable "
    "optimizer x {hyper, random-greedy, hyper-compressed (chi 2/4/8)} x hash_method {a,b} x directory {None, path} x directory_split x overwrite "
    "{False, True, 'improved'} x cache_only, slicing options on; re-opened by fresh objects and fresh processes; "
    "distinct = distinct (pool, configuration, query sequence); non-trivial = >=1 hit on an entry. Widened (from a derived "
    "generator): update_from_tree steps (overwrite False/True/'improved', sliced trees for the hyper and random-greedy kinds) each followed by a "
    "query of the same contraction, cleanup() steps, an update through a cache_only optimizer, and per case with p=0.25 the "
    "directory=True scenario (same options / one path-relevant option changed, both reusable classes + compressed)"
)
ASSUMPTIONS = [
    "the stored entry is read through the optimizer's own DiskDict (opt._cache[h]) - there is no public accessor",
    "'equally valid' = path well-formed for the query, stored sliced indices exist in it, stored score == recomputed score",
    "a tree handed to update_from_tree carries the optimizer's objective as its default objective (the docstring compares scores "
    "'based on default objective of the tree'); its stored score is then in the tree's unit (for the random-greedy kind that is "
    "NOT the log10(flops) unit of searched entries - modelled per entry, see FINDINGS_widen-d.md)",
    "which options are 'path relevant' is the library's documented list; the changed option is always one of max_repeats, "
    "minimize/chi, methods, slicing_opts, reconf_opts, max_time (hyper) and max_repeats, temperature, costmod (random-greedy)",
    "sliced trees are handed to the hyper and the random-greedy kind; the compressed kind has no slicing",
    "cleanup(): 'the stored answers are gone' = this object reports every previously stored contraction missing and a fresh "
    "cache_only optimizer on the directory raises KeyError for it (no entry file survives)",
]
REQUIRED_MONITORS = ["queries", "hits", "misses", "repeat_same_order", "tree_of_query", "sliced_as_stored", "score_as_stored",
                     "sharing_events", "permuted_share", "fresh_object_reload", "fresh_process_reload", "cache_only", "cache_only_x_overwrite", "improved_monotone", "compressed_answers",
                     "update_ops", "update_stored_as_supplied", "update_kept_old", "update_then_hit", "update_fresh_object", "update_sliced",
                     "update_cache_only", "cleanup_ops", "cleanup_forgets", "post_cleanup_queries", "auto_dir_same_options_share", "auto_dir_other_options_separate"]
SHARD_TIMEOUT = {"quick": 500, "thorough": 3600}


def nshards(tier):
    return 16


def classify(v):
    """K2: hash_method='b' hashes the topology label-free but the sizes by label, so two
    different contractions (same topology up to relabelling, same size_dict) share an entry
    whose path/score/sliced indices were computed for the other one."""
    w = v["witness"]
    if w.get("cfg", {}).get("hash_method") != "b":
        return None
    d = v.get("detail") or w.get("detail") or {}
    if d.get("shared_with_other") and d.get("differ_in_index_free_terms_only") and d.get("same_size_dict"):
        # the entry of a contraction with another NUMBER of tensors: however the wrong answer shows (invalid path,
        # IndexError while rebuilding the tree, another order / tree after a reload), the mechanism is this one
        return "hash-b-ignores-index-free-terms"
    if v["kind"] not in ("sharing_invalid", "score_as_stored", "sliced_as_stored"):
        return None
    if d.get("shared_with_other") and d.get("same_size_dict") and d.get("same_topology_up_to_relabelling") and not d.get("same_network"):
        return "hash-b-sizes-by-label"
    return None


# -------------------------- pools of similar contractions ------------------- #


def variants(rng, base):
    out = [("base", base)]
    # index order permuted within tensors and the output: must share under 'a'
    ins = [list(t) for t in base.inputs]
    for t in ins:
        rng.shuffle(t)
    o = list(base.output)
    rng.shuffle(o)
    out.append(("perm_inds", gen.Net(ins, o, base.size_dict, base.cls)))
    # tensor order permuted
    order = list(range(base.N))
    rng.shuffle(order)
    out.append(("perm_tensors", gen.Net([base.inputs[i] for i in order], base.output, base.size_dict, base.cls)))
    # one size changed
    sd = dict(base.size_dict)
    ix = rng.choice(sorted(sd))
    sd[ix] = sd[ix] + 1
    out.append(("size", gen.Net(base.inputs, base.output, sd, base.cls)))
    # relabelled consistently (sizes follow the labels)
    labels = sorted(base.size_dict)
    new = labels[:]
    rng.shuffle(new)
    ren = dict(zip(labels, new))
    out.append(("relabel_sizes_follow", gen.Net([[ren[i] for i in t] for t in base.inputs], [ren[i] for i in base.output], {ren[k]: v for k, v in base.size_dict.items()}, base.cls)))
    # relabelled but the size_dict stays: a DIFFERENT contraction with the same topology
    out.append(("relabel_sizes_stay", gen.Net([[ren[i] for i in t] for t in base.inputs], [ren[i] for i in base.output], dict(base.size_dict), base.cls)))
    # extra unused size_dict entry
    sd = dict(base.size_dict)
    sd["Z"] = 7
    out.append(("extra_size_entry", gen.Net(base.inputs, base.output, sd, base.cls)))
    # one more index-free (scalar) tensor: a different contraction (another number of tensors)
    out.append(("extra_scalar", gen.Net(list(base.inputs) + [()], base.output, base.size_dict, base.cls)))
    keep = [out[0]] + rng.sample(out[1:], rng.randint(2, len(out) - 1))
    return keep


def share_detail(other, net):
    """how the contraction that created a shared entry relates to the one now asking"""
    return {
        "shared_with_other": True, "same_network": False,
        "same_size_dict": other.size_dict == net.size_dict,
        "same_topology_up_to_relabelling": topo(other) == topo(net),
        "merely_permuted": merely_permuted(other, net),
        # the two differ in the number of index-free (scalar) tensors only
        "differ_in_index_free_terms_only": (
            other.N != net.N
            and len([t for t in other.inputs if t]) == len([t for t in net.inputs if t])
            and topo(other) == topo(net)
        ),
    }


def exact_key(net):
    return (net.inputs, net.output, tuple(sorted(net.size_dict.items())))


def merely_permuted(a, b):
    return (
        a.N == b.N
        and all(sorted(x) == sorted(y) for x, y in zip(a.inputs, b.inputs))
        and sorted(a.output) == sorted(b.output)
        and a.size_dict == b.size_dict
    )


def topo(net):
    edges = {}
    for ix in net.output:
        edges.setdefault(ix, []).append(-1)
    for i, t in enumerate(net.inputs):
        for ix in t:
            edges.setdefault(ix, []).append(i)
    return tuple(sorted(tuple(sorted(v)) for v in edges.values()))


# ------------------------------ optimizers ---------------------------------- #


def make_opt(cfg, directory, counter, extra=None, reverse_dicts=False):
    kw = dict(directory=directory, overwrite=cfg["overwrite"], hash_method=cfg["hash_method"], cache_only=cfg["cache_only"], directory_split=cfg["directory_split"])
    kw.update(extra or {})
    if cfg["kind"] == "hyper":
        so = {"target_size": cfg["target_size"], "max_repeats": 2} if cfg["slicing"] else None
        if so and reverse_dicts:
            so = dict(reversed(list(so.items())))   # an equal dict built in another key order
        kw.setdefault("methods", ["greedy"])
        opt = ctg.ReusableHyperOptimizer(
            max_repeats=cfg["max_repeats"], parallel=False, optlib="random", seed=cfg["seed"], minimize=cfg["minimize"],
            slicing_opts=so, progbar=False, **kw,
        )
    elif cfg["kind"] == "hyper-compressed":
        kw.setdefault("methods", ["greedy-compressed"])
        opt = ctg.ReusableHyperCompressedOptimizer(
            chi=cfg["chi"], max_repeats=cfg["max_repeats"], parallel=False, optlib="random", seed=cfg["seed"], progbar=False, **kw,
        )
    else:
        opt = ReusableRandomGreedyOptimizer(max_repeats=cfg["max_repeats"], seed=cfg["seed"], parallel=False, **kw)
    orig = opt._get_suboptimizer

    def counted():
        counter["searches"] += 1
        return orig()

    opt._get_suboptimizer = counted
    return opt


def recomputed_score(cfg, tree, origin=None):
    if cfg["kind"] == "rg" and origin == "update":
        # an entry stored by update_from_tree carries the supplied tree's own (default objective) score
        return tree.get_score("flops")
    if cfg["kind"] == "hyper":
        return tree.get_score(cfg["minimize"])
    if cfg["kind"] == "hyper-compressed":
        return tree.get_score(f"peak-compressed-{cfg['chi']}")
    import math

    return math.log10(tree.total_flops())


FRESH = r"""
import json, sys, warnings
warnings.filterwarnings("ignore")
import cotengra as ctg
from cotengra.pathfinders.path_basic import ReusableRandomGreedyOptimizer
cfg = json.loads(sys.argv[1]); qs = json.loads(sys.argv[2]); directory = sys.argv[3]
kw = dict(directory=directory, hash_method=cfg["hash_method"], cache_only=True, directory_split=cfg["directory_split"])
if cfg["kind"] == "hyper":
    opt = ctg.ReusableHyperOptimizer(methods=["greedy"], max_repeats=1, parallel=False, optlib="random", minimize=cfg["minimize"], **kw)
elif cfg["kind"] == "hyper-compressed":
    opt = ctg.ReusableHyperCompressedOptimizer(chi=cfg["chi"], methods=["greedy-compressed"], max_repeats=1, parallel=False, optlib="random", **kw)
else:
    opt = ReusableRandomGreedyOptimizer(max_repeats=1, parallel=False, **kw)
out = []
for q in qs:
    inputs = tuple(map(tuple, q["inputs"])); output = tuple(q["output"])
    try:
        tree = opt.search(inputs, output, q["size_dict"])
        out.append({"ok": True, "path": [list(p) for p in tree.get_path()], "sliced": list(tree.sliced_inds), "n": tree.N, "complete": bool(tree.is_complete()), "cls": type(tree).__name__})
    except KeyError:
        out.append({"ok": False, "err": "KeyError"})
    except Exception as e:
        out.append({"ok": False, "err": type(e).__name__ + ": " + str(e)})
print("RESULT" + json.dumps(out))
"""


def fresh_process(cfg, queries, directory):
    env = dict(os.environ)
    p = subprocess.run([sys.executable, "-c", FRESH, json.dumps(cfg), json.dumps(queries), directory], capture_output=True, text=True, timeout=180, env=env, cwd=VERIF)
    for line in p.stdout.splitlines():
        if line.startswith("RESULT"):
            return json.loads(line[6:])
    raise RuntimeError("fresh process failed: " + p.stderr[-500:])



# ------------------------ update_from_tree / cleanup / directory=True -------- #


def nodes_of(n, path, ssa=False):
    """the set of intermediates a path builds = the contraction tree it describes (vf/ref.py, no cotengra)"""
    return set(ref.path_to_nodes(n, [tuple(p) for p in path], ssa=ssa))


def user_tree(cfg, net, op, case_seed, step):
    """the tree a user hands to update_from_tree -> (tree, nodes it consists of, sliced indices, expected score)"""
    import math

    r = rng_for(case_seed, "update", step)
    ssa = gen.random_ssa(r, net.N)
    if cfg["kind"] == "hyper-compressed":
        from cotengra.core import ContractionTreeCompressed

        objective = f"peak-compressed-{cfg['chi']}"
        tree = ContractionTreeCompressed.from_path(net.inputs, net.output, net.size_dict, ssa_path=[tuple(p) for p in ssa], objective=objective)
        # reference score: the same contraction order rebuilt once more (a second object, the compressed cost model is the library's)
        twin = ContractionTreeCompressed.from_path(net.inputs, net.output, net.size_dict, ssa_path=[tuple(p) for p in ssa])
        return tree, nodes_of(net.N, ssa, ssa=True), [], twin.get_score(objective)
    objective = cfg["minimize"] if cfg["kind"] == "hyper" else "flops"
    tree = ct.make_tree(net, ssa, objective=objective)
    sliced = []
    # sliced trees for both exact kinds (F-C14-1 of FINDINGS_widen-d.md - the random-greedy kind ignored the stored
    # sliced indices on a hit - is repaired in /repo by 2225b09)
    if op.get("slice"):
        cands = sorted({ix for t in net.inputs for ix in t})
        for ix in r.sample(cands, min(len(cands), r.randint(1, 2))):
            tree.remove_ind_(ix)
            sliced.append(ix)
    m = ct.costs_of(tree)
    F, W, S = m.total_flops(), m.total_write(), m.max_size()
    if objective == "flops":
        score = math.log2(F) + 1e-3 * math.log2(W) + 1e-3 * math.log2(S)
    elif objective == "size":
        score = 1e-3 * math.log2(F) + 1e-3 * math.log2(W) + math.log2(S)
    else:
        score = math.log2(F + 64 * W)
    return tree, nodes_of(net.N, ssa, ssa=True), sliced, score


def same_score(a, b):
    return abs(a - b) <= 1e-9 * max(1.0, abs(b))


AUTO_VARIANTS = {
    "hyper": ("max_repeats", "minimize", "methods", "slicing_opts", "reconf_opts", "max_time"),
    "hyper-compressed": ("max_repeats", "chi", "methods", "reconf_opts"),
    "rg": ("max_repeats", "temperature", "costmod"),
}


def variant(cfg, which):
    """-> (cfg, extra kwargs) of an optimizer that differs from ``cfg`` in exactly one path-relevant option"""
    if which == "max_repeats":
        return dict(cfg, max_repeats=cfg["max_repeats"] + 1), {}
    if which == "minimize":
        return dict(cfg, minimize={"flops": "size", "size": "combo", "combo": "flops"}[cfg["minimize"]]), {}
    if which == "chi":
        return dict(cfg, chi={2: 4, 4: 8, 8: 2}[cfg["chi"]]), {}
    if which == "methods":
        return cfg, {"methods": ["greedy-compressed", "greedy-span"] if cfg["kind"] == "hyper-compressed" else ["greedy", "labels"]}
    if which == "slicing_opts":
        return dict(cfg, slicing=True, target_size=cfg["target_size"] * 2 if cfg["slicing"] else cfg["target_size"]), {}
    if which == "reconf_opts":
        return cfg, {"reconf_opts": {"window_size": 4} if cfg["kind"] == "hyper-compressed" else {"subtree_size": 4}}
    if which == "max_time":
        return cfg, {"max_time": "rate:1e9"}
    if which == "temperature":
        return cfg, {"temperature": (0.01, 1.0)}
    if which == "costmod":
        return cfg, {"costmod": (0.5, 2.0)}
    raise ValueError(which)


def auto_directory_check(rep, case):
    """directory=True: the directory is derived from the path-relevant options.  Run inside a scratch working
    directory (the auto directory is relative to the cwd)."""
    spec = case["auto_dir"]
    cfg = dict(case["cfg"], cache_only=False, overwrite=False)
    net = gen.Net.from_json(case["pool"][0][1])
    scratch = tempfile.mkdtemp(prefix="vf-c14-cwd-", dir="/var/tmp")
    here = os.getcwd()
    os.chdir(scratch)
    try:
        import random

        random.seed(case["case_seed"])
        ca = {"searches": 0}
        a = make_opt(cfg, True, ca)
        ta = a.search(net.inputs, net.output, net.size_dict)
        if not os.path.isdir(os.path.join(scratch, "ctg_cache")):
            return ("auto_dir", 0, "directory=True did not create ctg_cache/ in the working directory", {})
        # equal options (dict-valued ones built in another key order), another object: must find the answer
        cb = {"searches": 0}
        b = make_opt(dict(cfg, cache_only=True), True, cb, reverse_dicts=True)
        rep.mon("auto_dir_same_options_share")
        try:
            tb = b.search(net.inputs, net.output, net.size_dict)
        except KeyError:
            return ("auto_dir_not_shared", 0, f"directory=True: a second {cfg['kind']} optimizer with equal options does not find the stored answer (directories {sorted(os.listdir('ctg_cache'))})", {})
        if cb["searches"] or nodes_of(net.N, tb.get_path()) != nodes_of(net.N, ta.get_path()):
            return ("auto_dir_not_shared", 0, "directory=True: the optimizer with equal options searched again / returned another tree", {})
        # one path-relevant option changed: must NOT be answered from the first optimizer's directory
        cfg_c, extra = variant(cfg, spec["variant"])
        cc = {"searches": 0}
        c = make_opt(dict(cfg_c, cache_only=True), True, cc, extra=extra)
        rep.mon("auto_dir_other_options_separate")
        rep.count("auto_dir_variant", f"{cfg['kind']}|{spec['variant']}")
        try:
            c.search(net.inputs, net.output, net.size_dict)
        except KeyError:
            return None
        return ("auto_dir_shared_across_options", 0, f"directory=True: a {cfg['kind']} optimizer that differs in the path-relevant option {spec['variant']!r} was answered from the other optimizer's cache (directories {sorted(os.listdir('ctg_cache'))})", {})
    finally:
        os.chdir(here)
        shutil.rmtree(scratch, ignore_errors=True)


# --------------------------------- one history ------------------------------- #


def update_step(rep, case, cfg, opt, counter, directory, step, qi, tag, net, op,
                creators, stored_scores, known_exact, hk_of_exact, h_of, origin, pending, forget):
    """one ``opt.update_from_tree(tree, overwrite=...)`` against the dict model"""
    where = f"step {step}: update_from_tree for {qi} ({tag}), overwrite={op['overwrite']!r}"
    rep.mon("update_ops")
    tree, nodes, sliced, score = user_tree(cfg, net, op, case["case_seed"], step)
    h, missing = opt.hash_query(net.inputs, net.output, net.size_dict)
    hk = repr(h)
    h_of[hk] = h
    ek = exact_key(net)
    old_con = None if missing else dict(opt._cache[h])
    # an entry that is kept may be another contraction's (shared key): say so in the witness
    shared = share_detail(creators[hk], net) if (not missing and hk in creators and exact_key(creators[hk]) != exact_key(net)) else {}
    before = counter["searches"]
    try:
        opt.update_from_tree(tree, overwrite=op["overwrite"])
    except Exception as e:
        return ("raises", step, f"{where}: {type(e).__name__}: {e} | {traceback.format_exc()[-400:]}", {})
    if counter["searches"] != before:
        return ("update_searched", step, f"{where}: a search ran", {})
    _, missing2 = opt.hash_query(net.inputs, net.output, net.size_dict)
    if missing2:
        return ("update_not_stored", step, f"{where}: the contraction is still missing afterwards", {})
    con = dict(opt._cache[h])
    ow = op["overwrite"]
    if missing or ow is True:
        expect = "new"
    elif ow == "improved":
        expect = "either" if same_score(score, old_con["score"]) else "new" if score < old_con["score"] else "old"
    else:
        expect = "old"
    rep.count("update", f"{cfg['kind']}|ow={ow}|{'missing' if missing else 'present'}|expect={expect}|sliced={bool(sliced)}")

    def is_supplied(c):
        return nodes_of(net.N, c["path"]) == nodes and set(c["sliced_inds"]) == set(sliced) and same_score(c["score"], score)

    if expect == "new":
        rep.mon("update_stored_as_supplied")
        if not is_supplied(con):
            what = "another contraction tree" if nodes_of(net.N, con["path"]) != nodes else f"sliced indices {tuple(con['sliced_inds'])} (supplied: {sliced})" if set(con["sliced_inds"]) != set(sliced) else f"score {con['score']} (supplied tree: {score})"
            kept = " - the old entry was kept" if old_con is not None and con == old_con else ""
            return ("update_not_stored_as_supplied", step, f"{where}: the entry must now describe the supplied tree but holds {what}{kept}", {})
    elif expect == "old":
        rep.mon("update_kept_old")
        if con != old_con:
            return ("update_overwrote", step, f"{where}: the stored entry (score {old_con['score']}) was replaced by the supplied tree (score {score})", {})
    if old_con is None or con != old_con:
        # the entry is now the user's
        forget(hk, keep_ek=ek)
        creators[hk] = net
        origin[hk] = "update"
        if ow is True:
            stored_scores[hk] = [con["score"]]   # an explicit overwrite may make the stored score worse
        else:
            stored_scores.setdefault(hk, []).append(con["score"])
        known_exact[ek] = tuple(map(tuple, con["path"]))
        hk_of_exact[ek] = hk
    if is_supplied(con):
        pending[ek] = {"hk": hk, "nodes": nodes, "sliced": set(sliced), "score": score}
    else:
        pending.pop(ek, None)
    if directory:
        # a fresh object on the same directory reads the same entry
        c2 = {"searches": 0}
        o2 = make_opt(dict(cfg, cache_only=True, overwrite=False), directory, c2)
        try:
            t2 = o2.search(net.inputs, net.output, net.size_dict)
        except Exception as e:
            return ("reload", step, f"{where}: a fresh optimizer on the same directory cannot answer the contraction: {type(e).__name__}: {e}", shared)
        rep.mon("update_fresh_object")
        if nodes_of(net.N, t2.get_path()) != nodes_of(net.N, con["path"]) or set(t2.sliced_inds) != set(con["sliced_inds"]):
            return ("reload", step, f"{where}: a fresh optimizer on the same directory reconstructs a different tree from the entry", shared)
    return None


def run_history(rep, case, workdir):
    warnings.filterwarnings("ignore")
    import random

    random.seed(case["case_seed"])
    cfg = case["cfg"]
    pool = [(tag, gen.Net.from_json(j)) for tag, j in case["pool"]]
    directory = os.path.join(workdir, "cache") if cfg["directory"] else None
    counter = {"searches": 0}
    opt = make_opt(cfg, directory, counter)
    creators = {}   # library key -> exact network that created / last overwrote the entry
    stored_scores = {}  # library key -> list of stored scores over time
    known_exact = {}  # exact network -> path returned last time
    hk_of_exact = {}  # exact network -> library key it was answered under
    h_of = {}         # repr(library key) -> library key
    origin = {}       # library key -> "search" | "update": who wrote the entry (the unit of its score for the rg kind)
    pending = {}      # exact network -> what update_from_tree just stored for it (nodes, sliced, key)
    ops = case.get("ops") or {}
    post_cleanup = 0
    cleaned = False

    def forget(hk_, keep_ek=None):
        for ek_ in [e_ for e_, k_ in hk_of_exact.items() if k_ == hk_]:
            known_exact.pop(ek_, None)
            hk_of_exact.pop(ek_, None)
        for ek_ in [e_ for e_, pu_ in pending.items() if pu_["hk"] == hk_ and e_ != keep_ek]:
            pending.pop(ek_, None)

    for step, qi in enumerate(case["queries"]):
        tag, net = pool[qi]
        op = ops.get(str(step))
        if op and op["op"] == "cleanup":
            # the user empties the cache in the middle of the history
            rep.mon("cleanup_ops")
            stored = [(hk_, h_of[hk_], n_) for hk_, n_ in creators.items() if hk_ in h_of and h_of[hk_] in opt._cache]
            try:
                opt.cleanup()
            except Exception as e:
                return ("cleanup_raises", step, f"step {step}: cleanup() raised {type(e).__name__}: {e} (directory={bool(directory)}, directory_split={opt.directory_split})", {})
            rep.count("cleanup", f"returned|dir={bool(directory)}|split={opt.directory_split}|stored={min(len(stored), 3)}")
            for hk_, h_, n_ in stored:
                rep.mon("cleanup_forgets")
                if not opt.hash_query(n_.inputs, n_.output, n_.size_dict)[1]:
                    return ("cleanup_keeps_entry", step, f"step {step}: after cleanup() the optimizer still reports a stored contraction present", {})
                if directory:
                    c2 = {"searches": 0}
                    o2 = make_opt(dict(cfg, cache_only=True, overwrite=False), directory, c2)
                    try:
                        o2.search(n_.inputs, n_.output, n_.size_dict)
                    except KeyError:
                        continue
                    except Exception as e:
                        return ("cleanup_keeps_entry", step, f"step {step}: after cleanup() a fresh cache_only optimizer on the directory fails with {type(e).__name__}: {e}", {})
                    return ("cleanup_keeps_entry", step, f"step {step}: after cleanup() a fresh cache_only optimizer on the directory still answers a previously stored contraction (entry files survive: {sorted(os.listdir(directory))[:4]})", {})
            creators.clear()
            stored_scores.clear()
            origin.clear()
            known_exact.clear()
            hk_of_exact.clear()
            pending.clear()
            post_cleanup = 3
            cleaned = True
        if op and op["op"] == "update":
            bad = update_step(rep, case, cfg, opt, counter, directory, step, qi, tag, net, op,
                              creators, stored_scores, known_exact, hk_of_exact, h_of, origin, pending, forget)
            if bad:
                return bad
            continue
        rep.mon("queries")
        if cleaned:
            rep.mon("post_cleanup_queries")
        h, missing = opt.hash_query(net.inputs, net.output, net.size_dict)
        hk = repr(h)
        h_of[hk] = h
        before = counter["searches"]
        where = f"step {step}: query {qi} ({tag})"
        try:
            old_con = None if missing else dict(opt._cache[h])
        except Exception:
            old_con = None
        detail = {}
        if not missing and hk in creators and exact_key(creators[hk]) != exact_key(net):
            other = creators[hk]
            detail = share_detail(other, net)
            rep.mon("sharing_events")
            if detail["merely_permuted"]:
                rep.mon("permuted_share")
            if cfg["hash_method"] == "a" and not detail["merely_permuted"]:
                return ("sharing_unexpected", step, f"{where}: shares an entry with a contraction that differs in more than index order", detail)
        try:
            if case["api"][step % len(case["api"])] == "call":
                path = opt(net.inputs, net.output, net.size_dict)
                tree = None
            else:
                tree = opt.search(net.inputs, net.output, net.size_dict)
                path = tree.get_path()
        except KeyError as e:
            if cfg["cache_only"] and missing:
                rep.mon("cache_only")
                if counter["searches"] != before:
                    return ("cache_only_searched", step, f"{where}: cache_only=True but a search ran", detail)
                continue
            return ("raises", step, f"{where}: KeyError {e}", detail)
        except Exception as e:
            return ("raises", step, f"{where}: {type(e).__name__}: {e} | {traceback.format_exc()[-400:]}", detail)
        searched = counter["searches"] - before
        # the query that follows an update_from_tree for this very contraction: a hit, answering with the supplied tree
        pu = pending.pop(exact_key(net), None)
        if pu is not None and pu["hk"] == hk and cfg["overwrite"] is False:
            rep.mon("update_then_hit")
            if pu["sliced"]:
                rep.mon("update_sliced")
            if missing or searched:
                return ("update_not_hit", step, f"{where}: the contraction was stored by update_from_tree but the query {'missed' if missing else 'searched again'}", detail)
            if nodes_of(net.N, path) != pu["nodes"]:
                return ("update_hit_other_tree", step, f"{where}: the hit after update_from_tree does not return the supplied tree's contraction order", detail)
            if tree is not None and set(tree.sliced_inds) != pu["sliced"]:
                return ("update_hit_other_tree", step, f"{where}: the hit after update_from_tree is sliced on {tuple(tree.sliced_inds)}, the supplied tree on {sorted(pu['sliced'])}", detail)
            if tree is not None and not same_score(recomputed_score(cfg, tree, "update"), pu["score"]):
                return ("update_hit_other_tree", step, f"{where}: the hit after update_from_tree scores {recomputed_score(cfg, tree, 'update')}, the supplied tree {pu['score']}", detail)
        if cfg["cache_only"]:
            rep.mon("cache_only")
            if searched:
                return ("cache_only_searched", step, f"{where}: cache_only=True but a search ran", detail)
        if missing:
            rep.mon("misses")
            if not searched and not cfg["cache_only"]:
                return ("miss_without_search", step, f"{where}: entry missing but no search ran", detail)
        else:
            rep.mon("hits")
            if cfg["overwrite"] is False and searched:
                return ("searched_again", step, f"{where}: entry present, overwrite=False, but the optimizer searched again", detail)
        con = opt._cache[h]
        # the returned path / tree answers THIS query
        msg = ref.check_linear_path(net.N, path)
        if msg:
            return ("sharing_invalid" if detail else "path_invalid", step, f"{where}: returned path: {msg}", detail)
        if tree is not None:
            rep.mon("tree_of_query")
            if tuple(map(tuple, tree.inputs)) != net.inputs or tuple(tree.output) != net.output or any(tree.size_dict[k] != v for k, v in net.size_dict.items() if k in tree.size_dict):
                return ("tree_of_other_query", step, f"{where}: returned tree is not over the queried network", detail)
            m = ref.check_tree_struct(net.N, ct.children_of(tree))
            if m:
                return ("tree_incomplete", step, f"{where}: {m}", detail)
            if cfg["kind"] == "hyper-compressed":
                # the answer of a compressed optimizer is an ORDERED contraction: the tree (first answer
                # and every hit alike) is a ContractionTreeCompressed whose path is the stored order
                rep.mon("compressed_answers")
                if type(tree).__name__ != "ContractionTreeCompressed":
                    return ("tree_class", step, f"{where}: {'miss' if missing else 'hit'} returned a {type(tree).__name__}, not a ContractionTreeCompressed", detail)
                if tuple(map(tuple, tree.get_path())) != tuple(map(tuple, con["path"])):
                    return ("order_as_stored", step, f"{where}: {'miss' if missing else 'hit'}: tree.get_path() is not the stored contraction order", detail)
            rep.mon("sliced_as_stored")
            if tuple(tree.sliced_inds) != tuple(con["sliced_inds"]) and set(tree.sliced_inds) != set(con["sliced_inds"]):
                return ("sliced_as_stored", step, f"{where}: tree sliced on {tuple(tree.sliced_inds)} but the stored entry says {tuple(con['sliced_inds'])}", detail)
            if any(ix not in net.size_dict or not any(ix in t for t in net.inputs) for ix in con["sliced_inds"]):
                return ("sharing_invalid", step, f"{where}: stored sliced indices {con['sliced_inds']} are not indices of the query", detail)
            rep.mon("score_as_stored")
            replaced_now = missing or old_con is None or dict(con) != old_con
            rs = recomputed_score(cfg, tree, "search" if replaced_now else origin.get(hk))
            if abs(rs - con["score"]) > 1e-9 * max(1.0, abs(rs)):
                return ("score_as_stored", step, f"{where}: stored score {con['score']} but the returned tree scores {rs}", detail)
        # repeated exact query, overwrite=False: same contraction order
        ek = exact_key(net)
        if ek in known_exact and cfg["overwrite"] is False:
            rep.mon("repeat_same_order")
            if tuple(map(tuple, path)) != known_exact[ek]:
                return ("order_changed", step, f"{where}: repeated query returned a different contraction order", detail)
        known_exact[ek] = tuple(map(tuple, path))
        hk_of_exact[ek] = hk
        if missing or old_con is None or dict(con) != old_con:
            # the entry was created or replaced by this query
            creators[hk] = net
            origin[hk] = "search"
        hist = stored_scores.setdefault(hk, [])
        hist.append(con["score"])
        if cfg["overwrite"] == "improved" and len(hist) >= 2:
            rep.mon("improved_monotone")
            if hist[-1] > hist[-2] + 1e-12:
                return ("improved_got_worse", step, f"{where}: stored score went from {hist[-2]} to {hist[-1]} under overwrite='improved'", detail)

        # re-open the directory
        if directory and (step % 3 == 2 or post_cleanup > 0):
            post_cleanup -= 1
            c2 = {"searches": 0}
            cfg2 = dict(cfg, cache_only=True, overwrite=False)
            o2 = make_opt(cfg2, directory, c2)
            try:
                t2 = o2.search(net.inputs, net.output, net.size_dict)
            except Exception as e:
                return ("reload", step, f"{where}: a fresh optimizer on the same directory could not answer the query just stored: {type(e).__name__}: {e}", detail)
            rep.mon("fresh_object_reload")
            if tuple(map(tuple, t2.get_path())) != tuple(map(tuple, con["path"])) or set(t2.sliced_inds) != set(con["sliced_inds"]):
                return ("reload", step, f"{where}: a fresh optimizer reconstructs a different tree from the stored entry", detail)
    # fresh process over every distinct query
    if directory and case.get("fresh_process"):
        qs = [{"inputs": [list(t) for t in n.inputs], "output": list(n.output), "size_dict": n.size_dict} for _, n in pool]
        res = fresh_process(cfg, qs, directory)
        for (tag, net), r in zip(pool, res):
            h, missing = opt.hash_query(net.inputs, net.output, net.size_dict)
            rep.mon("fresh_process_reload")
            fdetail = {}
            other = creators.get(repr(h))
            if other is not None and exact_key(other) != exact_key(net):
                fdetail = share_detail(other, net)
            if missing:
                if r["ok"]:
                    return ("reload", len(case["queries"]), f"fresh process answered {tag} which was never stored", {})
                continue
            if not r["ok"]:
                return ("reload", len(case["queries"]), f"fresh process could not read the entry for {tag}: {r['err']}", fdetail)
            con = opt._cache[h]
            if cfg["kind"] == "hyper-compressed" and r.get("cls") != "ContractionTreeCompressed":
                return ("reload", len(case["queries"]), f"fresh process rebuilt a {r.get('cls')} for {tag}", fdetail)
            if [list(p) for p in con["path"]] != r["path"] or set(con["sliced_inds"]) != set(r["sliced"]) or not r["complete"] or r["n"] != net.N:
                return ("reload", len(case["queries"]), f"fresh process reconstructs a different tree for {tag}", fdetail)
    return None


def gen_case(rng, cs, tier):
    while True:
        base = gen.network(rng, 5, 10, cap=10**9, classes=("graph", "graph", "hyper", "lattice", "chain", "batch"))
        if base.N >= 4 and len(base.size_dict) >= 3 and "Z" not in base.size_dict:
            break
    pool = variants(rng, base)
    tree = ct.make_tree(base, gen.random_ssa(rng, base.N))
    cfg = {
        "kind": rng.choice(["hyper", "hyper", "rg", "hyper-compressed"]),
        "chi": rng.choice([2, 4, 8]),
        "hash_method": rng.choice(["a", "a", "b"]),
        "directory": rng.random() < 0.6,
        "directory_split": rng.choice([True, False, "auto"]),
        "overwrite": rng.choice([False, False, True, "improved"]),
        "cache_only": False,
        "max_repeats": rng.randint(1, 4),
        "seed": rng.randrange(10**6),
        "minimize": rng.choice(["flops", "size", "combo"]),
        "slicing": rng.random() < 0.7,
        "target_size": max(1, tree.max_size() // rng.choice([2, 4, 8])),
    }
    if cfg["kind"] == "hyper-compressed":
        cfg["slicing"] = False
    nq = rng.randint(6, budget(tier, 14, 20))
    queries = [rng.randrange(len(pool)) for _ in range(nq)]
    case = {
        "pool": [(t, n.to_json()) for t, n in pool], "cfg": cfg, "queries": queries, "api": [rng.choice(["search", "search", "call"]) for _ in range(4)],
        "fresh_process": cfg["directory"] and rng.random() < budget(tier, 0.15, 0.4), "case_seed": cs,
    }
    widen(case, cs)
    return case


def widen(case, cs):
    """the widened history operations / scenarios, from a generator of their own"""
    rw = rng_for(cs, "widen")
    queries = case["queries"]
    ops = {}
    for step in range(len(queries) - 1):
        u = rw.random()
        if u < 0.10:
            ops[str(step)] = {"op": "update", "overwrite": rw.choice([False, True, "improved", "improved"]), "slice": rw.random() < 0.4}
            if rw.random() < 0.8:
                queries[step + 1] = queries[step]   # ... and then asks for that contraction
        elif u < 0.125:
            ops[str(step)] = {"op": "cleanup"}
    case["ops"] = ops
    if case["cfg"]["directory"] and rw.random() < 0.5:
        case["co_update"] = {"qi": rw.randrange(len(case["pool"])), "slice": rw.random() < 0.4}
    if rw.random() < 0.25:
        case["auto_dir"] = {"variant": rw.choice(AUTO_VARIANTS[case["cfg"]["kind"]])}


def run_case(rep, case):
    workdir = tempfile.mkdtemp(prefix="vf-c14-", dir="/var/tmp")
    try:
        res = run_history(rep, case, workdir)
        if res is None and case.get("auto_dir"):
            res = auto_directory_check(rep, case)
        if res is None and case["cfg"]["directory"]:
            # second phase: cache_only over the same directory with a new object
            case2 = dict(case, cfg=dict(case["cfg"], cache_only=True, overwrite=False), fresh_process=False)
            res = run_history_existing(rep, case2, workdir)
        if res is None and case["cfg"]["directory"]:
            # third phase: cache_only crossed with a truthy overwrite policy - "cache_only never searches"
            # whatever the other options say
            ow = rng_for(case["case_seed"], "co_overwrite").choice([True, "improved"])
            case3 = dict(case, cfg=dict(case["cfg"], cache_only=True, overwrite=ow), fresh_process=False)
            res = cache_only_with_overwrite(rep, case3, workdir)
        return res
    finally:
        shutil.rmtree(workdir, ignore_errors=True)


def run_history_existing(rep, case, workdir):
    """cache_only pass over an existing directory: may only hit or raise KeyError, never search"""
    cfg = case["cfg"]
    pool = [(tag, gen.Net.from_json(j)) for tag, j in case["pool"]]
    counter = {"searches": 0}
    opt = make_opt(cfg, os.path.join(workdir, "cache"), counter)
    supplied = None
    cu = case.get("co_update")
    if cu:
        # update_from_tree through a cache_only optimizer: stored without a search, answered from then on
        tag, net = pool[cu["qi"]]
        tree, nodes, sliced, score = user_tree(cfg, net, {"slice": cu["slice"]}, case["case_seed"], "cache_only")
        try:
            opt.update_from_tree(tree, overwrite=True)
        except Exception as e:
            return ("raises", cu["qi"], f"cache_only pass: update_from_tree for {tag}: {type(e).__name__}: {e}", {})
        if counter["searches"]:
            return ("cache_only_searched", cu["qi"], f"cache_only pass: update_from_tree for {tag} ran a search", {})
        supplied = (cu["qi"], nodes, set(sliced))
    for qi, (tag, net) in enumerate(pool):
        h, missing = opt.hash_query(net.inputs, net.output, net.size_dict)
        try:
            tree = opt.search(net.inputs, net.output, net.size_dict)
            if missing:
                return ("cache_only_searched", qi, f"cache_only pass: {tag} was missing but a tree came back", {})
            m = ref.check_tree_struct(net.N, ct.children_of(tree))
            if m:
                return ("tree_incomplete", qi, f"cache_only pass: {tag}: {m}", {})
            if supplied and supplied[0] == qi:
                rep.mon("update_cache_only")
                if nodes_of(net.N, tree.get_path()) != supplied[1] or set(tree.sliced_inds) != supplied[2]:
                    return ("update_hit_other_tree", qi, f"cache_only pass: {tag} was stored by update_from_tree(overwrite=True) but the hit is another tree / slicing", {})
        except KeyError:
            if not missing or (supplied and supplied[0] == qi):
                return ("raises", qi, f"cache_only pass: {tag} is stored but KeyError was raised", {})
        rep.mon("cache_only")
        if counter["searches"]:
            return ("cache_only_searched", qi, f"cache_only pass: a search ran for {tag}", {})
    return None


def cache_only_with_overwrite(rep, case, workdir):
    """cache_only=True together with overwrite=True / 'improved' over an existing directory: every query is
    either refused (KeyError) or answered with the stored order; no search runs and no stored entry changes."""
    cfg = case["cfg"]
    pool = [(tag, gen.Net.from_json(j)) for tag, j in case["pool"]]
    counter = {"searches": 0}
    opt = make_opt(cfg, os.path.join(workdir, "cache"), counter)
    for qi, (tag, net) in enumerate(pool):
        h, missing = opt.hash_query(net.inputs, net.output, net.size_dict)
        before = None if missing else dict(opt._cache[h])
        where = f"cache_only x overwrite={cfg['overwrite']!r} pass: {tag}"
        try:
            if qi % 2:
                path = opt(net.inputs, net.output, net.size_dict)
            else:
                path = opt.search(net.inputs, net.output, net.size_dict).get_path()
            if missing:
                return ("cache_only_searched", qi, f"{where} was missing but an answer came back", {})
            if tuple(map(tuple, path)) != tuple(map(tuple, before["path"])):
                return ("cache_only_searched", qi, f"{where}: the answer is not the stored contraction order", {})
        except KeyError:
            pass
        except Exception as e:
            return ("raises", qi, f"{where}: {type(e).__name__}: {e}", {})
        rep.mon("cache_only_x_overwrite")
        if counter["searches"]:
            return ("cache_only_searched", qi, f"{where}: a search ran", {})
        _, missing2 = opt.hash_query(net.inputs, net.output, net.size_dict)
        after = None if missing2 else dict(opt._cache[h])
        if after != before:
            return ("cache_only_searched", qi, f"{where}: the stored entry changed", {})
    return None


def run_shard(rep, tier, seed, shard, nshards):
    dl = Deadline(budget(tier, 50, 600))
    for k in range(budget(tier, 300, 3000)):
        if dl.expired():
            break
        cs = f"{seed}/C14/{shard}/{k}"
        case = gen_case(rng_for(cs), cs, tier)
        if k == 0:
            case["cfg"].update(directory=True)
            case["fresh_process"] = True
        elif k == 1:
            # every shard runs the directory=True scenario and a history with update / cleanup steps
            kind = case["cfg"]["kind"]
            case["auto_dir"] = {"variant": AUTO_VARIANTS[kind][(shard // 3) % len(AUTO_VARIANTS[kind])]}
            case["cfg"].update(directory=True, directory_split=(False, True, "auto")[shard % 3], overwrite=False)
            case["co_update"] = {"qi": 0, "slice": True}
            n = len(case["queries"])
            case["queries"][1] = case["queries"][0]
            case["queries"][4] = case["queries"][3]
            case["ops"] = {"0": {"op": "update", "overwrite": True, "slice": True}, "2": {"op": "cleanup"}, "3": {"op": "update", "overwrite": "improved", "slice": False}}
        try:
            res = run_case(rep, case)
        except Exception as e:
            rep.inconclusive_case(f"harness: {type(e).__name__}: {e} | {traceback.format_exc()[-500:]}")
            continue
        tags = [t for t, _ in case["pool"]]
        rep.case((repr(case["pool"]), repr(sorted(case["cfg"].items(), key=str)), tuple(case["queries"]), repr(sorted(case.get("ops", {}).items())), repr(case.get("auto_dir"))),
                 len(set(case["queries"])) < len(case["queries"]), case["cfg"]["kind"],
                 sample={"pool_tags": tags, "cfg": case["cfg"], "queries": case["queries"], "ops": case.get("ops"), "auto_dir": case.get("auto_dir"), "co_update": case.get("co_update")})
        rep.count("config", f"{case['cfg']['kind']}|{case['cfg']['hash_method']}|dir={case['cfg']['directory']}|split={case['cfg']['directory_split']}|ow={case['cfg']['overwrite']}")
        if res:
            w = dict(case)
            w["queries"] = case["queries"][: res[1] + 1]
            w["detail"] = res[3]
            rep.violation(res[0], w, f"cfg={case['cfg']} pool={tags}: {res[2]} {res[3] or ''}")


def replay(rep, v):
    res = run_case(rep, v["witness"])
    if res:
        w = dict(v["witness"], detail=res[3])
        rep.violation(res[0], w, res[2])
