"""Shared plumbing: seeded RNGs, the per-shard Report, JSON helpers.

Nothing in here imports cotengra.
"""

import collections
import hashlib
import json
import os
import random
import time

VERIF = os.path.dirname(os.path.dirname(os.path.abspath(__file__)))
REPO = os.environ.get("VF_REPO", "/repo")


def stable_hash(*parts):
    h = hashlib.sha256()
    for p in parts:
        h.update(repr(p).encode())
        h.update(b"\0")
    return h.hexdigest()


def rng_for(*parts):
    """A private random.Random fully determined by the parts (never the global
    generators - C17 needs those untouched)."""
    return random.Random(int(stable_hash(*parts)[:16], 16))


def jsonable(x):
    """Best-effort conversion of witnesses / samples to plain JSON."""
    import numbers

    if isinstance(x, dict):
        return {str(k): jsonable(v) for k, v in x.items()}
    if isinstance(x, (list, tuple)):
        return [jsonable(v) for v in x]
    if isinstance(x, (set, frozenset)):
        try:
            return sorted(jsonable(v) for v in x)
        except TypeError:
            return [jsonable(v) for v in x]
    if isinstance(x, bool) or x is None or isinstance(x, str):
        return x
    if isinstance(x, numbers.Integral):
        return int(x)
    if isinstance(x, numbers.Real):
        x = float(x)
        if x != x or x in (float("inf"), float("-inf")):
            return repr(x)
        return x
    try:
        import numpy as np

        if isinstance(x, np.ndarray):
            return jsonable(x.tolist())
        if isinstance(x, np.generic):
            return jsonable(x.item())
    except Exception:
        pass
    if isinstance(x, complex):
        return [x.real, x.imag]
    return repr(x)


class Report:
    """What one shard observed.  Merged by the runner, serialised to JSON."""

    MAX_SAMPLES = 4
    MAX_VIOLATIONS = 40

    def __init__(self, pid, tier, seed, shard=0):
        self.pid = pid
        self.tier = tier
        self.seed = seed
        self.shard = shard
        self.evaluations = 0
        self.distinct = set()
        self.nontrivial = set()
        self.monitors = collections.Counter()
        self.classes = collections.Counter()
        self.extra = collections.defaultdict(collections.Counter)
        self.sets = collections.defaultdict(set)
        self.samples = []
        self.violations = []
        self.n_violations = 0
        self.inconclusive = []
        self.notes = []
        self.t0 = time.time()

    # -- recording ---------------------------------------------------------
    def case(self, key, nontrivial=False, cls=None, sample=None):
        """Register one generated case.  ``key`` is any repr-able canonical form."""
        self.evaluations += 1
        h = stable_hash(key)[:20]
        self.distinct.add(h)
        if nontrivial:
            self.nontrivial.add(h)
        if cls is not None:
            self.classes[cls] += 1
        if sample is not None and len(self.samples) < self.MAX_SAMPLES:
            self.samples.append(jsonable(sample))

    def mon(self, name, n=1):
        self.monitors[name] += n

    def count(self, group, key, n=1):
        self.extra[group][str(key)] += n

    def seen(self, group, item):
        """Distinct-item tracker (e.g. op bigrams, interleavings)."""
        self.sets[group].add(stable_hash(item)[:16])

    def violation(self, kind, witness, message=""):
        """Register a violation with a replayable witness."""
        self.n_violations += 1
        if len(self.violations) < self.MAX_VIOLATIONS:
            self.violations.append(
                {
                    "kind": kind,
                    "message": str(message)[:2000],
                    "witness": jsonable(witness),
                }
            )

    def inconclusive_case(self, why):
        self.inconclusive.append(str(why)[:500])

    def note(self, s):
        if len(self.notes) < 50:
            self.notes.append(str(s)[:500])

    # -- (de)serialisation -------------------------------------------------
    def to_json(self):
        return {
            "pid": self.pid,
            "tier": self.tier,
            "seed": self.seed,
            "shard": self.shard,
            "evaluations": self.evaluations,
            "distinct": sorted(self.distinct),
            "nontrivial": sorted(self.nontrivial),
            "monitors": dict(self.monitors),
            "classes": dict(self.classes),
            "extra": {g: dict(c) for g, c in self.extra.items()},
            "sets": {g: sorted(s) for g, s in self.sets.items()},
            "samples": self.samples,
            "violations": self.violations,
            "n_violations": self.n_violations,
            "inconclusive": self.inconclusive,
            "notes": self.notes,
            "wall_s": time.time() - self.t0,
        }

    @classmethod
    def merge(cls, pid, tier, seed, dicts):
        r = cls(pid, tier, seed)
        for d in dicts:
            r.evaluations += d["evaluations"]
            r.distinct.update(d["distinct"])
            r.nontrivial.update(d["nontrivial"])
            r.monitors.update(d["monitors"])
            r.classes.update(d["classes"])
            for g, c in d["extra"].items():
                r.extra[g].update(c)
            for g, s in d["sets"].items():
                r.sets[g].update(s)
            for s in d["samples"]:
                if len(r.samples) < 8:
                    r.samples.append(s)
            r.violations.extend(d["violations"])
            r.n_violations += d["n_violations"]
            r.inconclusive.extend(d["inconclusive"])
            r.notes.extend(d["notes"])
        return r


def budget(tier, quick, thorough):
    return quick if tier == "quick" else thorough


class Deadline:
    """Soft wall-clock budget for a shard: workloads stop generating *new* cases
    when it expires (never a verdict)."""

    def __init__(self, seconds):
        self.t_end = time.time() + seconds

    def expired(self):
        return time.time() > self.t_end


def dump(obj, path):
    os.makedirs(os.path.dirname(path), exist_ok=True)
    with open(path, "w") as f:
        json.dump(jsonable(obj), f, indent=1, sort_keys=True)


class OpTimeout(Exception):
    pass


class time_limit:
    """Interrupt a pure-Python operation after ``seconds`` (SIGALRM; main thread only).
    A firing limit is *inconclusive* for the case, never a verdict."""

    def __init__(self, seconds):
        self.seconds = seconds

    def _handler(self, signum, frame):
        raise OpTimeout(f"operation exceeded {self.seconds}s")

    def __enter__(self):
        import signal

        self._old = signal.signal(signal.SIGALRM, self._handler)
        signal.setitimer(signal.ITIMER_REAL, self.seconds)
        return self

    def __exit__(self, *exc):
        import signal

        signal.setitimer(signal.ITIMER_REAL, 0)
        signal.signal(signal.SIGALRM, self._old)
        return False
