"""Independent reference models.  NOTHING in this file imports cotengra.

E1  dense_einsum        - the definition of einsum, by gathering every operand onto the
                          full index space (handles repeated indices, scalars, hyper
                          indices, disconnected parts for free)
E2  Costs               - flops/size/legs/involved per node from the definitions
    all_trees           - every binary tree over n leaves ((2n-3)!!)
    check_tree_struct / check_linear_path / check_ssa_path
    slice numbering model, edge path model
"""

import itertools
import math

import numpy as np

# --------------------------------------------------------------------------- #
#                               E1: dense einsum                              #
# --------------------------------------------------------------------------- #


def index_order(inputs, output):
    seen = {}
    for term in inputs:
        for ix in term:
            seen.setdefault(ix, None)
    for ix in output:
        seen.setdefault(ix, None)
    return list(seen)


def dense_einsum(inputs, output, arrays, fixed=None, with_bound=False):
    """sum over all non-output indices of the product of operands.

    ``fixed`` maps index -> value: the index is pinned to that value (operands are
    restricted to it), and if it is an output index it is kept as a size-1 axis.
    Returns ``out`` or ``(out, bound, nsum)`` where ``bound`` is the same contraction of
    the absolute values (element-wise magnitude available for cancellation) and ``nsum``
    the number of summed terms per output element.
    """
    fixed = fixed or {}
    arrays = [np.asarray(a) for a in arrays]
    order = index_order(inputs, output)
    sizes = {}
    for term, a in zip(inputs, arrays):
        if a.ndim != len(term):
            raise ValueError(f"operand rank {a.ndim} != term {term}")
        for ix, d in zip(term, a.shape):
            if sizes.setdefault(ix, d) != d:
                raise ValueError(f"size mismatch on {ix}")
    for ix in output:
        if ix not in sizes:
            raise ValueError(f"output index {ix} not in inputs")
    eff = {ix: (1 if ix in fixed else sizes[ix]) for ix in order}
    pos = {ix: k for k, ix in enumerate(order)}
    nd = len(order)
    grids = {}
    for ix in order:
        shp = [1] * nd
        shp[pos[ix]] = eff[ix]
        if ix in fixed:
            g = np.array([fixed[ix]], dtype=np.intp)
        else:
            g = np.arange(eff[ix], dtype=np.intp)
        grids[ix] = g.reshape(shp)

    def gather(a, term):
        if a.ndim == 0:
            return a.reshape([1] * nd) if nd else a
        return a[tuple(grids[ix] for ix in term)]

    prod = None
    aprod = None
    for term, a in zip(inputs, arrays):
        g = gather(a, term)
        prod = g if prod is None else prod * g
        if with_bound:
            ag = np.abs(g)
            aprod = ag if aprod is None else aprod * ag
    full_shape = tuple(eff[ix] for ix in order)
    if nd:
        prod = np.broadcast_to(prod, full_shape)
        if with_bound:
            aprod = np.broadcast_to(aprod, full_shape)
    sum_axes = tuple(pos[ix] for ix in order if ix not in output)
    nsum = 1
    for ix in order:
        if ix not in output:
            nsum *= eff[ix]
    out = prod.sum(axis=sum_axes) if sum_axes else np.array(prod)
    remaining = [ix for ix in order if ix in output]
    perm = [remaining.index(ix) for ix in output]
    out = np.transpose(out, perm) if perm else out
    if not with_bound:
        return out
    bound = aprod.sum(axis=sum_axes) if sum_axes else np.array(aprod)
    bound = np.transpose(bound, perm) if perm else bound
    return out, bound, nsum


def tolerance(bound, nsum, ntensors, dtype=np.float64):
    """A *sound* rounding bound: any evaluation order of a sum of ``nsum`` products of
    ``ntensors`` factors errs by at most gamma_(nsum+ntensors) * sum|products|."""
    eps = np.finfo(np.float64).eps
    return 8.0 * (nsum + ntensors + 8) * eps * (np.asarray(bound) + 0.0) + 1e-300


def compare(got, want, bound, nsum, ntensors):
    """None if ``got`` equals ``want`` within the sound tolerance, else a message."""
    got = np.asarray(got)
    want = np.asarray(want)
    if got.shape != want.shape:
        return f"shape {got.shape} != expected {want.shape}"
    if not np.all(np.isfinite(got)):
        return "non-finite result"
    tol = tolerance(bound, nsum, ntensors)
    err = np.abs(got - want)
    if np.any(err > tol):
        k = np.unravel_index(np.argmax(err - tol), err.shape) if err.ndim else ()
        return (
            f"value mismatch at {tuple(int(i) for i in k)}: got {got[k]!r} expected {want[k]!r} "
            f"(tol {float(tol[k]) if np.ndim(tol) else float(tol):.3g})"
        )
    return None


# --------------------------------------------------------------------------- #
#                               E2: cost model                                #
# --------------------------------------------------------------------------- #


class Costs:
    """Costs of a binary contraction tree from the definitions alone.

    ``children``: dict parent(frozenset of leaf positions) -> (left, right).
    ``removed``: indices sliced or projected (absent from every tensor in one slice).
    ``sliced_sizes``: for each removed index, how many slices it contributes
    (size for a sliced index, 1 for a projected one).
    """

    def __init__(self, inputs, output, size_dict, children, removed=(), nslices_of=None):
        self.inputs = [tuple(t) for t in inputs]
        self.output = tuple(output)
        # exact python integers whatever integer type the caller used for the sizes
        self.size = {k: int(v) for k, v in size_dict.items()}
        self.children = dict(children)
        self.removed = set(removed)
        self.N = len(self.inputs)
        self.appear = {}
        for t in self.inputs:
            for ix in t:
                self.appear[ix] = self.appear.get(ix, 0) + 1
        for ix in self.output:
            self.appear[ix] = self.appear.get(ix, 0) + 1
        self.mult = 1
        nslices_of = nslices_of or {}
        for ix in self.removed:
            self.mult *= int(nslices_of.get(ix, self.size[ix]))
        self._legs = {}

    def count(self, node, ix):
        return sum(self.inputs[i].count(ix) for i in node)

    def legs(self, node):
        """indices surviving on the tensor ``node`` (a frozenset of leaf positions)"""
        try:
            return self._legs[node]
        except KeyError:
            pass
        if len(node) == self.N and self.N > 1:
            res = [ix for ix in self.output if ix not in self.removed]
        else:
            present = []
            for i in sorted(node):
                for ix in self.inputs[i]:
                    if ix not in present:
                        present.append(ix)
            res = [
                ix
                for ix in present
                if ix not in self.removed and self.count(node, ix) < self.appear[ix]
            ]
        self._legs[node] = res
        return res

    def involved(self, parent):
        l, r = self.children[parent]
        s = list(self.legs(l))
        for ix in self.legs(r):
            if ix not in s:
                s.append(ix)
        return s

    def prod(self, ixs):
        p = 1
        for ix in ixs:
            p *= self.size[ix]
        return p

    def node_size(self, node):
        return self.prod(self.legs(node))

    def node_flops(self, parent):
        return self.prod(self.involved(parent))

    def total_flops(self):
        return self.mult * sum(self.node_flops(p) for p in self.children)

    def total_write(self):
        return self.mult * sum(self.node_size(p) for p in self.children)

    def max_size(self):
        return max(self.node_size(p) for p in self.children)

    def max_flops(self):
        return max(self.node_flops(p) for p in self.children)

    def combo(self, factor):
        return self.mult * sum(
            self.node_flops(p) + factor * self.node_size(p) for p in self.children
        )

    def limit(self, factor):
        return self.mult * sum(
            max(self.node_flops(p), factor * self.node_size(p)) for p in self.children
        )

    def peak(self, order):
        """order: list of (parent, l, r) children-before-parents."""
        live = sum(self.node_size(frozenset([i])) for i in range(self.N))
        peak = live
        for p, l, r in order:
            live += self.node_size(p)
            peak = max(peak, live)
            live -= self.node_size(l) + self.node_size(r)
        return peak

    def leaf_needs_preprocessing(self, i):
        term = [ix for ix in self.inputs[i] if ix not in self.removed]
        if len(set(term)) != len(term):
            return True
        return any(term.count(ix) == self.appear[ix] for ix in set(term))


# --------------------------------------------------------------------------- #
#                             tree enumeration                                #
# --------------------------------------------------------------------------- #


def all_trees(n):
    """Yield every binary tree over leaves 0..n-1 as a children dict
    {parent: (a, b)} with frozenset nodes.  (2n-3)!! trees."""
    leaves = [frozenset([i]) for i in range(n)]

    def trees_over(items):
        """all binary trees whose leaves are exactly ``items`` (tuple of frozensets);
        yields (root_node, children_dict)"""
        if len(items) == 1:
            yield items[0], {}
            return
        head, rest = items[0], items[1:]
        m = len(rest)
        # bipartition: head goes left with a subset of rest; right is non-empty
        for mask in range(0, (1 << m) - 1):
            left = (head,) + tuple(rest[k] for k in range(m) if mask >> k & 1)
            right = tuple(rest[k] for k in range(m) if not (mask >> k & 1))
            for lroot, lch in trees_over(left):
                for rroot, rch in trees_over(right):
                    ch = dict(lch)
                    ch.update(rch)
                    ch[lroot | rroot] = (lroot, rroot)
                    yield lroot | rroot, ch

    for _root, ch in trees_over(tuple(leaves)):
        yield ch


def num_trees(n):
    return math.prod(range(2 * n - 3, 0, -2)) if n > 1 else 1


def random_tree(n, rng, shape="uniform"):
    """A random binary tree as an ssa path."""
    live = list(range(n))
    path = []
    nxt = n
    if shape == "caterpillar":
        rng.shuffle(live)
        cur = live.pop()
        while live:
            o = live.pop()
            path.append((min(cur, o), max(cur, o)))
            cur = nxt
            nxt += 1
        return path
    if shape == "balanced":
        rng.shuffle(live)
        while len(live) > 1:
            new = []
            for k in range(0, len(live) - 1, 2):
                a, b = live[k], live[k + 1]
                path.append((min(a, b), max(a, b)))
                new.append(nxt)
                nxt += 1
            if len(live) % 2:
                new.append(live[-1])
            live = new
        return path
    while len(live) > 1:
        a, b = rng.sample(live, 2)
        live.remove(a)
        live.remove(b)
        path.append((min(a, b), max(a, b)))
        live.append(nxt)
        nxt += 1
    return path


def ssa_to_children(n, ssa_path):
    """children dict from an ssa path of *pairs*."""
    nodes = {i: frozenset([i]) for i in range(n)}
    children = {}
    nxt = n
    for a, b in ssa_path:
        p = nodes[a] | nodes[b]
        children[p] = (nodes[a], nodes[b])
        nodes[nxt] = p
        nxt += 1
    return children


def children_to_ssa(n, children):
    """a children-first ssa path for a children dict"""
    root = frozenset(range(n))
    ids = {frozenset([i]): i for i in range(n)}
    path = []
    nxt = [n]

    def visit(node):
        if node in ids:
            return ids[node]
        l, r = children[node]
        a, b = visit(l), visit(r)
        path.append((min(a, b), max(a, b)))
        ids[node] = nxt[0]
        nxt[0] += 1
        return ids[node]

    # iterative to avoid recursion limits on caterpillars
    stack = [(root, False)]
    while stack:
        node, done = stack.pop()
        if node in ids:
            continue
        l, r = children[node]
        if done or (l in ids and r in ids):
            a, b = ids[l], ids[r]
            path.append((min(a, b), max(a, b)))
            ids[node] = nxt[0]
            nxt[0] += 1
        else:
            stack.append((node, True))
            if r not in ids:
                stack.append((r, False))
            if l not in ids:
                stack.append((l, False))
    return path


# --------------------------------------------------------------------------- #
#                         structural well-formedness                          #
# --------------------------------------------------------------------------- #


def check_tree_struct(n, children, root=None):
    """None if ``children`` describes a complete binary tree consuming each of the n
    leaves exactly once, else a message."""
    if n == 1:
        return None if not children else "children on a 1-tensor tree"
    root = frozenset(range(n)) if root is None else root
    if len(children) != n - 1:
        return f"{len(children)} internal nodes for {n} leaves"
    seen_leaves = []
    stack = [root]
    visited = 0
    while stack:
        node = stack.pop()
        if len(node) == 1:
            seen_leaves.append(next(iter(node)))
            continue
        if node not in children:
            return f"node {sorted(node)} has no children"
        l, r = children[node]
        visited += 1
        if not l or not r:
            return "empty child"
        if (l & r) or (l | r) != node:
            return f"node {sorted(node)} is not the disjoint union of its children"
        stack.append(l)
        stack.append(r)
    if sorted(seen_leaves) != list(range(n)):
        return f"leaves reached {sorted(seen_leaves)} != 0..{n - 1}"
    if visited != n - 1:
        return "unreachable internal nodes"
    return None


def check_linear_path(n, path, allow_incomplete=False):
    """None if every step references existing distinct positions and the path ends in a
    single tensor."""
    cur = n
    for k, step in enumerate(path):
        step = tuple(step)
        if len(set(step)) != len(step):
            return f"step {k} repeats a position: {step}"
        for i in step:
            if not isinstance(i, (int, np.integer)) or i < 0 or i >= cur:
                return f"step {k} references position {i} with {cur} tensors present"
        if len(step) == 0:
            return f"step {k} is empty"
        cur = cur - len(step) + 1
    if cur != 1 and not allow_incomplete:
        return f"path ends with {cur} tensors"
    return None


def check_ssa_path(n, path, allow_incomplete=False):
    alive = set(range(n))
    nxt = n
    for k, step in enumerate(path):
        step = tuple(step)
        if len(set(step)) != len(step):
            return f"step {k} repeats an id: {step}"
        for i in step:
            if i not in alive:
                return f"step {k} uses id {i} which is not alive"
        alive -= set(step)
        alive.add(nxt)
        nxt += 1
    if len(alive) != 1 and not allow_incomplete:
        return f"ssa path ends with {len(alive)} tensors"
    return None


def linear_to_ssa_model(path, n):
    """independent model of the linear -> ssa conversion for ``n`` initial tensors"""
    ids = list(range(n))
    nxt = n
    out = []
    for step in path:
        picked = [ids[i] for i in step]
        for i in sorted(step, reverse=True):
            ids.pop(i)
        out.append(tuple(picked))
        ids.append(nxt)
        nxt += 1
    return out


def ssa_to_linear_model(ssa_path, n):
    ids = list(range(n))
    nxt = n
    out = []
    for step in ssa_path:
        pos = [ids.index(i) for i in step]
        out.append(tuple(pos))
        for i in sorted(pos, reverse=True):
            ids.pop(i)
        ids.append(nxt)
        nxt += 1
    return out


def path_to_nodes(n, path, ssa=False):
    """The set of intermediate tensors (frozensets) a pairwise-or-more path creates,
    in creation order (list)."""
    if ssa:
        nodes = {i: frozenset([i]) for i in range(n)}
        nxt = n
        made = []
        for step in path:
            new = frozenset().union(*(nodes.pop(i) for i in step))
            nodes[nxt] = new
            nxt += 1
            made.append(new)
        return made
    cur = [frozenset([i]) for i in range(n)]
    made = []
    for step in path:
        new = frozenset().union(*(cur[i] for i in step))
        for i in sorted(step, reverse=True):
            cur.pop(i)
        cur.append(new)
        made.append(new)
    return made


# --------------------------------------------------------------------------- #
#                              slice numbering                                #
# --------------------------------------------------------------------------- #


def all_slice_keys(removed, size_dict):
    """The set of value combinations of the removed indices.
    ``removed``: list of (ix, project_or_None)."""
    ranges = []
    names = []
    for ix, proj in removed:
        names.append(ix)
        ranges.append([proj] if proj is not None else list(range(size_dict[ix])))
    return [dict(zip(names, combo)) for combo in itertools.product(*ranges)]
