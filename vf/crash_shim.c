/* LD_PRELOAD crash injector for C15.
 *
 * Interposes the libc entry points a process uses to change files.  It only reacts to file
 * descriptors / paths under $VF_KILL_PREFIX, so interpreter start-up, stdout, etc. are invisible.
 *
 *   VF_KILL_PREFIX=/dir          scope (read on every call, so a forked child can arm it with putenv)
 *   VF_KILL_AFTER=k              let exactly k bytes reach files under the prefix, then _exit(137)
 *                                (a partial write of the remaining budget first: a real short write)
 *   VF_KILL_EVENT=n:before|after die before/after the n-th filesystem event under the prefix (1-based)
 *   VF_KILL_LOG=/path            append one line per event: "<n> <name> <bytes> <path>"
 *
 * Build: gcc -O1 -shared -fPIC -o crash_shim.so crash_shim.c -ldl
 */
#define _GNU_SOURCE
#include <dlfcn.h>
#include <errno.h>
#include <fcntl.h>
#include <limits.h>
#include <stdarg.h>
#include <stdio.h>
#include <stdlib.h>
#include <string.h>
#include <sys/stat.h>
#include <sys/syscall.h>
#include <sys/types.h>
#include <sys/uio.h>
#include <unistd.h>

static long n_events = 0;
static long n_bytes = 0;

static const char *prefix(void) {
    const char *p = getenv("VF_KILL_PREFIX");
    return (p && *p) ? p : NULL;
}

static int under_path(const char *path) {
    const char *p = prefix();
    if (!p || !path) return 0;
    char buf[PATH_MAX];
    const char *q = path;
    if (path[0] != '/') {
        /* relative: resolve against cwd */
        char cwd[PATH_MAX];
        if (!getcwd(cwd, sizeof cwd)) return 0;
        snprintf(buf, sizeof buf, "%s/%s", cwd, path);
        q = buf;
    }
    size_t n = strlen(p);
    return strncmp(q, p, n) == 0;
}

static int under_at(int dirfd, const char *path) {
    if (!prefix() || !path) return 0;
    if (path[0] == '/' || dirfd == AT_FDCWD) return under_path(path);
    char link[64], dir[PATH_MAX], buf[PATH_MAX];
    snprintf(link, sizeof link, "/proc/self/fd/%d", dirfd);
    ssize_t r = readlink(link, dir, sizeof dir - 1);
    if (r <= 0) return 0;
    dir[r] = 0;
    snprintf(buf, sizeof buf, "%s/%s", dir, path);
    return under_path(buf);
}

static int under_fd(int fd, char *out, size_t outsz) {
    if (!prefix()) return 0;
    char link[64];
    snprintf(link, sizeof link, "/proc/self/fd/%d", fd);
    ssize_t r = readlink(link, out, outsz - 1);
    if (r <= 0) return 0;
    out[r] = 0;
    return under_path(out);
}

static void logev(const char *name, long bytes, const char *path) {
    const char *lp = getenv("VF_KILL_LOG");
    if (!lp || !*lp) return;
    char line[PATH_MAX + 128];
    int n = snprintf(line, sizeof line, "%ld %s %ld %s\n", n_events, name, bytes, path ? path : "?");
    int fd = syscall(SYS_openat, AT_FDCWD, lp, O_WRONLY | O_CREAT | O_APPEND, 0644);
    if (fd >= 0) {
        syscall(SYS_write, fd, line, n);
        syscall(SYS_close, fd);
    }
}

static void die(void) { syscall(SYS_exit_group, 137); }

/* called at the start of an event under the prefix; returns 1 if we must die AFTER it */
static int event_begin(const char *name, long bytes, const char *path) {
    n_events++;
    logev(name, bytes, path);
    const char *e = getenv("VF_KILL_EVENT");
    if (e && *e) {
        long n = atol(e);
        const char *c = strchr(e, ':');
        int after = c && strcmp(c + 1, "after") == 0;
        if (n == n_events) {
            if (!after) die();
            return 1;
        }
    }
    return 0;
}

#define REAL(name) static __typeof__(name) *real = NULL; if (!real) real = dlsym(RTLD_NEXT, #name)

ssize_t write(int fd, const void *buf, size_t count) {
    REAL(write);
    char path[PATH_MAX];
    if (!under_fd(fd, path, sizeof path)) return real(fd, buf, count);
    int after = event_begin("write", (long)count, path);
    const char *ka = getenv("VF_KILL_AFTER");
    if (ka && *ka) {
        long budget = atol(ka) - n_bytes;
        if (budget < (long)count) {
            if (budget > 0) real(fd, buf, (size_t)budget);
            die();
        }
    }
    ssize_t r = real(fd, buf, count);
    if (r > 0) n_bytes += r;
    if (after) die();
    return r;
}

ssize_t pwrite(int fd, const void *buf, size_t count, off_t off) {
    REAL(pwrite);
    char path[PATH_MAX];
    if (!under_fd(fd, path, sizeof path)) return real(fd, buf, count, off);
    int after = event_begin("pwrite", (long)count, path);
    const char *ka = getenv("VF_KILL_AFTER");
    if (ka && *ka) {
        long budget = atol(ka) - n_bytes;
        if (budget < (long)count) {
            if (budget > 0) real(fd, buf, (size_t)budget, off);
            die();
        }
    }
    ssize_t r = real(fd, buf, count, off);
    if (r > 0) n_bytes += r;
    if (after) die();
    return r;
}

ssize_t writev(int fd, const struct iovec *iov, int iovcnt) {
    REAL(writev);
    char path[PATH_MAX];
    if (!under_fd(fd, path, sizeof path)) return real(fd, iov, iovcnt);
    long total = 0;
    for (int i = 0; i < iovcnt; i++) total += iov[i].iov_len;
    int after = event_begin("writev", total, path);
    const char *ka = getenv("VF_KILL_AFTER");
    if (ka && *ka) {
        long budget = atol(ka) - n_bytes;
        if (budget < total) {
            /* write the budget byte-wise from the first vectors */
            for (int i = 0; i < iovcnt && budget > 0; i++) {
                long n = (long)iov[i].iov_len < budget ? (long)iov[i].iov_len : budget;
                syscall(SYS_write, fd, iov[i].iov_base, n);
                budget -= n;
            }
            die();
        }
    }
    ssize_t r = real(fd, iov, iovcnt);
    if (r > 0) n_bytes += r;
    if (after) die();
    return r;
}

static int open_common(int dirfd, const char *path, int flags, mode_t mode, const char *name) {
    int writes = (flags & (O_WRONLY | O_RDWR | O_CREAT | O_TRUNC | O_APPEND)) != 0;
    int mine = writes && under_at(dirfd, path);
    int after = 0;
    if (mine) after = event_begin(name, 0, path);
    int r = syscall(SYS_openat, dirfd, path, flags, mode);
    if (mine && after) die();
    return r;
}

int open(const char *path, int flags, ...) {
    mode_t mode = 0;
    if (flags & (O_CREAT | O_TMPFILE)) { va_list ap; va_start(ap, flags); mode = va_arg(ap, mode_t); va_end(ap); }
    return open_common(AT_FDCWD, path, flags, mode, "open");
}
int open64(const char *path, int flags, ...) {
    mode_t mode = 0;
    if (flags & (O_CREAT | O_TMPFILE)) { va_list ap; va_start(ap, flags); mode = va_arg(ap, mode_t); va_end(ap); }
    return open_common(AT_FDCWD, path, flags | O_LARGEFILE, mode, "open");
}
int openat(int dirfd, const char *path, int flags, ...) {
    mode_t mode = 0;
    if (flags & (O_CREAT | O_TMPFILE)) { va_list ap; va_start(ap, flags); mode = va_arg(ap, mode_t); va_end(ap); }
    return open_common(dirfd, path, flags, mode, "openat");
}
int openat64(int dirfd, const char *path, int flags, ...) {
    mode_t mode = 0;
    if (flags & (O_CREAT | O_TMPFILE)) { va_list ap; va_start(ap, flags); mode = va_arg(ap, mode_t); va_end(ap); }
    return open_common(dirfd, path, flags | O_LARGEFILE, mode, "openat");
}
int creat(const char *path, mode_t mode) { return open_common(AT_FDCWD, path, O_CREAT | O_WRONLY | O_TRUNC, mode, "creat"); }

int rename(const char *a, const char *b) {
    REAL(rename);
    if (!(under_path(a) || under_path(b))) return real(a, b);
    int after = event_begin("rename", 0, b);
    int r = real(a, b);
    if (after) die();
    return r;
}
int renameat(int fa, const char *a, int fb, const char *b) {
    REAL(renameat);
    if (!(under_at(fa, a) || under_at(fb, b))) return real(fa, a, fb, b);
    int after = event_begin("renameat", 0, b);
    int r = real(fa, a, fb, b);
    if (after) die();
    return r;
}
int renameat2(int fa, const char *a, int fb, const char *b, unsigned int flags) {
    if (!(under_at(fa, a) || under_at(fb, b))) return syscall(SYS_renameat2, fa, a, fb, b, flags);
    int after = event_begin("renameat2", 0, b);
    int r = syscall(SYS_renameat2, fa, a, fb, b, flags);
    if (after) die();
    return r;
}
int link(const char *a, const char *b) {
    REAL(link);
    if (!(under_path(a) || under_path(b))) return real(a, b);
    int after = event_begin("link", 0, b);
    int r = real(a, b);
    if (after) die();
    return r;
}
int mkdir(const char *path, mode_t mode) {
    REAL(mkdir);
    if (!under_path(path)) return real(path, mode);
    int after = event_begin("mkdir", 0, path);
    int r = real(path, mode);
    if (after) die();
    return r;
}
int mkdirat(int fd, const char *path, mode_t mode) {
    REAL(mkdirat);
    if (!under_at(fd, path)) return real(fd, path, mode);
    int after = event_begin("mkdirat", 0, path);
    int r = real(fd, path, mode);
    if (after) die();
    return r;
}
int unlink(const char *path) {
    REAL(unlink);
    if (!under_path(path)) return real(path);
    int after = event_begin("unlink", 0, path);
    int r = real(path);
    if (after) die();
    return r;
}
int unlinkat(int fd, const char *path, int flags) {
    REAL(unlinkat);
    if (!under_at(fd, path)) return real(fd, path, flags);
    int after = event_begin("unlinkat", 0, path);
    int r = real(fd, path, flags);
    if (after) die();
    return r;
}
int fsync(int fd) {
    REAL(fsync);
    char path[PATH_MAX];
    if (!under_fd(fd, path, sizeof path)) return real(fd);
    int after = event_begin("fsync", 0, path);
    int r = real(fd);
    if (after) die();
    return r;
}
int fdatasync(int fd) {
    REAL(fdatasync);
    char path[PATH_MAX];
    if (!under_fd(fd, path, sizeof path)) return real(fd);
    int after = event_begin("fdatasync", 0, path);
    int r = real(fd);
    if (after) die();
    return r;
}
int ftruncate(int fd, off_t len) {
    REAL(ftruncate);
    char path[PATH_MAX];
    if (!under_fd(fd, path, sizeof path)) return real(fd, len);
    int after = event_begin("ftruncate", (long)len, path);
    int r = real(fd, len);
    if (after) die();
    return r;
}
int close(int fd) {
    REAL(close);
    char path[PATH_MAX];
    if (!prefix() || !under_fd(fd, path, sizeof path)) return real(fd);
    /* only closes of regular files opened for writing matter; directories/readers are harmless to count */
    int fl = fcntl(fd, F_GETFL);
    if (fl < 0 || (fl & O_ACCMODE) == O_RDONLY) return real(fd);
    int after = event_begin("close", 0, path);
    int r = real(fd);
    if (after) die();
    return r;
}
