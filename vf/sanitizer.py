"""TreeSanitizer (E3): invariants of a live ContractionTree, checked at quiescent points.

``check_tree(tree)`` never mutates the tree it is given: everything that might populate a
cache is evaluated on a deep snapshot.  It returns a list of (code, message):

I1  structure            children/info describe one complete binary tree over the leaves
I2  cached node figures  cached legs / involved / size / flops equal the independent model
I3  running totals       _flops/_write/_sizes/multiplicity/sliced_inputs/preprocessing
I4  contraction recipes  cached inds / einsum_eq / tensordot_* / can_dot are not stale
"""

import collections
import copy

from cotengra.core import ContractionTree

from . import ct, ref


def snapshot(tree):
    """A deep, independent copy made without the tree's own copy() (which is under test)."""
    new = object.__new__(type(tree))
    for k, v in tree.__dict__.items():
        if k == "contraction_cores":
            try:
                new.__dict__[k] = copy.deepcopy(v)
            except Exception:
                new.__dict__[k] = dict(v)
        else:
            new.__dict__[k] = copy.deepcopy(v)
    return new


_RECIPES = ("einsum_eq", "tensordot_axes", "tensordot_perm", "can_dot")


def _uncached(name):
    return getattr(ContractionTree, "get_" + name).__wrapped__


def check_tree(tree, want=("I1", "I2", "I3", "I4"), counters=None):
    problems = []
    counters = counters if counters is not None else collections.Counter()
    N = tree.N
    children = ct.children_of(tree)
    leaves = {frozenset([i]) for i in range(N)}
    root = frozenset(range(N))

    # ---------------- I1 ----------------
    msg = ref.check_tree_struct(N, children)
    if "I1" in want:
        counters["I1"] += 1
        if msg:
            problems.append(("I1", msg))
        expected_nodes = leaves | {root} | set(children)
        have = {frozenset(n) for n in tree.info}
        if have != expected_nodes:
            extra = [sorted(n) for n in have - expected_nodes][:3]
            missing = [sorted(n) for n in expected_nodes - have][:3]
            problems.append(("I1", f"info nodes != tree nodes (extra {extra}, missing {missing})"))
        if frozenset(tree.root) != root:
            problems.append(("I1", "root is not the full set"))
    if msg:
        return problems  # nothing else is meaningful on a broken structure

    model = ct.costs_of(tree)
    removed = set(tree.sliced_inds)

    # ---------------- I2 ----------------
    if "I2" in want:
        for node, info in tree.info.items():
            fn = frozenset(node)
            counters["I2_nodes"] += 1
            if "legs" in info:
                if set(info["legs"]) != set(model.legs(fn)):
                    problems.append(("I2", f"node {sorted(fn)}: cached legs {sorted(info['legs'])} != model {sorted(model.legs(fn))}"))
            if len(fn) > 1:
                if "involved" in info and set(info["involved"]) != set(model.involved(fn)):
                    problems.append(("I2", f"node {sorted(fn)}: cached involved {sorted(info['involved'])} != model {sorted(model.involved(fn))}"))
                if "size" in info and info["size"] != model.node_size(fn):
                    problems.append(("I2", f"node {sorted(fn)}: cached size {info['size']} != model {model.node_size(fn)}"))
                if "flops" in info and info["flops"] != model.node_flops(fn):
                    problems.append(("I2", f"node {sorted(fn)}: cached flops {info['flops']} != model {model.node_flops(fn)}"))
            else:
                if "size" in info and info["size"] != model.node_size(fn):
                    problems.append(("I2", f"leaf {sorted(fn)}: cached size {info['size']} != model {model.node_size(fn)}"))

    # ---------------- I3 ----------------
    if "I3" in want:
        counters["I3"] += 1
        if tree.multiplicity != model.mult:
            problems.append(("I3", f"multiplicity {tree.multiplicity} != model {model.mult}"))
        if N > 1:
            if tree._track_flops:
                want_f = sum(model.node_flops(p) for p in children)
                if tree._flops != want_f:
                    problems.append(("I3", f"tracked _flops {tree._flops} != model {want_f}"))
            if tree._track_write:
                want_w = sum(model.node_size(p) for p in children)
                if tree._write != want_w:
                    problems.append(("I3", f"tracked _write {tree._write} != model {want_w}"))
            if tree._track_size:
                want_c = collections.Counter(model.node_size(p) for p in children)
                have_c = +collections.Counter(dict(tree._sizes._c))
                if have_c != want_c:
                    problems.append(("I3", f"tracked _sizes {dict(have_c)} != model {dict(want_c)}"))
                elif tree._sizes.max() != max(want_c):
                    problems.append(("I3", f"tracked max {tree._sizes.max()} != model {max(want_c)}"))
        want_si = frozenset(i for i, t in enumerate(tree.inputs) if removed.intersection(t))
        if frozenset(tree.sliced_inputs) != want_si:
            problems.append(("I3", f"sliced_inputs {sorted(tree.sliced_inputs)} != model {sorted(want_si)}"))
        for i in range(N):
            info = tree.info.get(frozenset([i]), {})
            needs = model.leaf_needs_preprocessing(i)
            if "legs" in info:
                if needs != (i in tree.preprocessing):
                    problems.append(("I3", f"leaf {i}: preprocessing entry present={i in tree.preprocessing}, needed={needs}"))
            elif i in tree.preprocessing:
                problems.append(("I3", f"leaf {i}: preprocessing entry without cached legs"))
        # sliced_inds order: output indices first
        inner_flags = [si.inner for si in tree.sliced_inds.values()]
        if inner_flags != sorted(inner_flags):
            problems.append(("I3", f"sliced_inds not ordered output-first: {list(tree.sliced_inds)}"))
        for ix, si in tree.sliced_inds.items():
            if si.inner != (ix not in tree.output):
                problems.append(("I3", f"SliceInfo.inner wrong for {ix}"))

    # ---------------- I4 ----------------
    if "I4" in want:
        snap = snapshot(tree)
        for node, info in tree.info.items():
            fn = frozenset(node)
            if "inds" in info:
                counters["I4_inds"] += 1
                inds = info["inds"]
                if len(set(inds)) != len(inds) or set(inds) != set(model.legs(fn)):
                    problems.append(("I4", f"node {sorted(fn)}: cached inds '{inds}' is not an ordering of legs {sorted(model.legs(fn))}"))
                elif len(fn) == N and N > 1:
                    want_root = "".join(ix for ix in tree.output if ix not in removed)
                    if inds != want_root:
                        problems.append(("I4", f"root inds '{inds}' != declared output '{want_root}'"))
            if len(fn) > 1:
                for name in _RECIPES:
                    if name in info:
                        counters["I4_recipes"] += 1
                        try:
                            fresh = _uncached(name)(snap, node)
                        except Exception as e:
                            problems.append(("I4", f"node {sorted(fn)}: cannot recompute {name}: {e!r}"))
                            continue
                        if fresh != info[name]:
                            problems.append(("I4", f"node {sorted(fn)}: stale {name}: cached {info[name]!r} != fresh {fresh!r}"))
        for i, eq in tree.preprocessing.items():
            counters["I4_pre"] += 1
            term = [ix for ix in tree.inputs[i] if ix not in removed]
            try:
                lhs, rhs = eq.split("->")
                ren = {}
                ok = len(lhs) == len(term)
                for a, b in zip(lhs, term):
                    if ren.setdefault(a, b) != b:
                        ok = False
                if len(set(ren.values())) != len(ren):
                    ok = False
                out = [ren[c] for c in rhs]
                ok = ok and set(out) == set(model.legs(frozenset([i]))) and len(set(out)) == len(out)
            except Exception:
                ok = False
            if not ok:
                problems.append(("I4", f"leaf {i}: preprocessing eq {eq!r} does not map term {term} to legs {model.legs(frozenset([i]))}"))
            else:
                linfo = tree.info.get(frozenset([i]), {})
                if "inds" in linfo and list(linfo["inds"]) != out:
                    problems.append(("I4", f"leaf {i}: inds '{linfo['inds']}' differ from the axis order its preprocessing produces {out}"))
        for i in range(N):
            if i in tree.preprocessing:
                continue
            linfo = tree.info.get(frozenset([i]), {})
            if "inds" in linfo:
                term = "".join(ix for ix in tree.inputs[i] if ix not in removed)
                if linfo["inds"] != term:
                    problems.append(("I4", f"leaf {i}: inds '{linfo['inds']}' != axis order of its array '{term}'"))
    return problems
