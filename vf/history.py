"""E5 - history driver over the public tree-transformation API.

An op is a JSON dict {"op": name, ...params}.  ``gen_op`` draws a valid op for the current
tree, ``apply_op`` executes it on the *real* tree (returning the possibly new tree).
Operations that legitimately refuse (nothing left to slice, ...) return ("refused", why).
"""

import contextlib
import io

import numpy as np

from . import ct

MINIMIZE = ("flops", "size", "write", "combo", "limit", "combo-4", "limit-2", None)

MUTATORS = (
    "subtree_reconfigure",
    "subtree_reconfigure_forest",
    "simulated_anneal",
    "parallel_temper",
    "remove_ind",
    "restore_ind",
    "unslice_rand",
    "unslice_all",
    "slice",
    "slice_and_reconfigure",
    "slice_and_reconfigure_forest",
    "sort_contraction_indices",
    "reset_contraction_indices",
    "copy",
)
QUERIES = ("contract", "contract_stats", "get_path", "print_contractions", "costs")

# small, colliding option sets so that compiled-contractor keys repeat across a history
CONTRACT_OPTS = (
    {},
    {"prefer_einsum": True},
    {"order": "dfs"},
    {"implementation": "cotengra"},
    {"implementation": "autoray"},
    {"prefer_einsum": True, "implementation": "autoray"},
)


def state_class(tree):
    sl = [si for si in tree.sliced_inds.values()]
    cached = any("inds" in i or "einsum_eq" in i or "tensordot_axes" in i for i in tree.info.values())
    return (
        any(s.project is None for s in sl),
        any(s.project is not None for s in sl),
        cached,
        bool(tree.contraction_cores),
        bool(tree._track_flops and tree._track_write and tree._track_size),
    )


# operations that populate per-node caches WITHOUT compiling a contractor (print_contractions) or
# that install custom index orders (sort) are drawn more often: stale-cache defects need them to be
# followed by a mutation with no contraction in between
EXTRA_WEIGHT = ("print_contractions", "print_contractions", "sort_contraction_indices", "sort_contraction_indices", "remove_ind", "restore_ind")


def gen_op(rng, tree, alphabet=None, weights=None):
    names = list(alphabet or (MUTATORS + QUERIES))
    names += [n for n in EXTRA_WEIGHT if n in names]
    for _ in range(20):
        name = rng.choice(names)
        op = _gen(rng, tree, name)
        if op is not None:
            return op
    return {"op": "contract_stats", "force": False}


def _free_inds(tree):
    return [ix for ix in tree.size_dict if ix not in tree.sliced_inds and any(ix in t for t in tree.inputs)]


def _gen(rng, tree, name):
    seed = rng.randrange(10**6)
    inplace = rng.random() < 0.5
    if name == "subtree_reconfigure":
        return {
            "op": name,
            "subtree_size": rng.randint(2, 6),
            "maxiter": rng.choice([1, 1, 2, 5, 500]),
            "select": rng.choice(["max", "min", "random"]),
            "subtree_search": rng.choice(["bfs", "dfs", "random"]),
            "weight_what": rng.choice(["flops", "size"]),
            "minimize": rng.choice(MINIMIZE),
            "seed": seed,
            "inplace": inplace,
        }
    if name == "subtree_reconfigure_forest":
        return {
            "op": name,
            "num_trees": 2,
            "num_restarts": rng.randint(1, 2),
            "subtree_maxiter": rng.randint(1, 3),
            "subtree_size": rng.randint(3, 5),
            "minimize": rng.choice(MINIMIZE[:5]),
            "seed": seed,
            "inplace": inplace,
            "parallel": "threads" if rng.random() < 0.25 else False,
        }
    if name == "simulated_anneal":
        op = {
            "op": name,
            "tsteps": rng.randint(1, 3),
            "numiter": rng.randint(1, 5),
            "tstart": rng.choice([2, 10, 0.5]),
            "minimize": rng.choice(MINIMIZE[:5] + (None,)),
            "seed": seed,
            "inplace": inplace,
        }
        if rng.random() < 0.4:
            op["target_size"] = max(1, tree.max_size() // rng.choice([1, 2, 4, 8]))
            op["slice_mode"] = rng.choice(["basic", "reslice", "drift", 2])
        return op
    if name == "parallel_temper":
        op = {
            "op": name,
            "tsteps": rng.randint(1, 2),
            "num_trees": 2,
            "numiter": rng.randint(1, 3),
            "minimize": rng.choice(MINIMIZE[:5] + (None,)),
            "seed": seed,
            "inplace": inplace,
            "parallel": "threads" if rng.random() < 0.25 else False,
        }
        if rng.random() < 0.3:
            op["target_size"] = max(1, tree.max_size() // rng.choice([2, 4]))
            op["slice_mode"] = rng.choice(["basic", "reslice", "drift"])
            op["parallel_slice_mode"] = rng.choice(["temperature", "time", "constant"])
        return op
    if name == "remove_ind":
        if tree.sliced_inds and rng.random() < 0.12:
            # a request the library refuses ("already sliced"): the tree must be left exactly as it was
            return {"op": name, "ind": rng.choice(list(tree.sliced_inds)), "inplace": inplace, "expect_refusal": True}
        free = _free_inds(tree)
        if not free:
            return None
        ix = rng.choice(free)
        op = {"op": name, "ind": ix, "inplace": inplace}
        if rng.random() < 0.3:
            op["project"] = rng.randrange(tree.size_dict[ix])
        return op
    if name == "restore_ind":
        if not tree.sliced_inds:
            return None
        return {"op": name, "ind": rng.choice(list(tree.sliced_inds)), "inplace": inplace}
    if name == "unslice_rand":
        if not tree.sliced_inds:
            return None
        return {"op": name, "seed": seed, "inplace": inplace}
    if name == "unslice_all":
        if not tree.sliced_inds and rng.random() < 0.8:
            return None
        return {"op": name, "inplace": inplace}
    if name == "slice":
        op = {
            "op": name,
            "temperature": rng.choice([0.0, 0.01, 1.0]),
            "allow_outer": rng.choice([True, True, False, "only"]),
            "max_repeats": rng.choice([1, 4]),
            "reslice": rng.random() < 0.25,
            "minimize": rng.choice(MINIMIZE[:5] + (None,)),
            "seed": seed,
            "inplace": inplace,
        }
        kind = rng.choice(["size", "slices", "overhead"])
        if kind == "size":
            op["target_size"] = max(1, tree.max_size() // rng.choice([2, 3, 4, 16]))
        elif kind == "slices":
            op["target_slices"] = rng.choice([2, 3, 4, 8])
        else:
            op["target_overhead"] = rng.choice([1.0, 1.5, 3.0])
        return op
    if name == "slice_and_reconfigure":
        return {
            "op": name,
            "target_size": max(1, tree.max_size() // rng.choice([2, 4])),
            "step_size": rng.choice([2, 3]),
            "max_repeats": 2,
            "reslice": rng.random() < 0.2,
            "allow_outer": rng.choice([True, True, False]),
            "reconf_opts": {"subtree_size": rng.randint(2, 4), "maxiter": rng.randint(1, 3)},
            "inplace": inplace,
        }
    if name == "slice_and_reconfigure_forest":
        return {
            "op": name,
            "target_size": max(1, tree.max_size() // rng.choice([2, 4])),
            "step_size": 2,
            "num_trees": 2,
            "max_repeats": 2,
            "reconf_opts": {"subtree_size": 3, "maxiter": 2},
            "inplace": inplace,
            "parallel": "threads" if rng.random() < 0.25 else False,
        }
    if name == "sort_contraction_indices":
        return {
            "op": name,
            "priority": rng.choice(["flops", "size", "root", "leaves"]),
            "make_output_contig": rng.random() < 0.6,
            "make_contracted_contig": rng.random() < 0.6,
            "reset": rng.random() < 0.7,
        }
    if name == "reset_contraction_indices":
        return {"op": name}
    if name == "copy":
        return {"op": name}
    if name == "contract":
        return {"op": name, "opts": rng.randrange(len(CONTRACT_OPTS))}
    if name == "contract_stats":
        return {"op": name, "force": rng.random() < 0.3}
    if name == "get_path":
        return {"op": name}
    if name == "print_contractions":
        return {"op": name}
    if name == "costs":
        return {"op": name, "which": rng.choice(["total_flops", "total_write", "max_size", "peak_size", "combo_cost"])}
    raise ValueError(name)


REFUSALS = (
    "Ran out of valid indices",
    "already sliced",
    "No slicing found",
    "max() iterable argument is empty",
    "max() arg is an empty sequence",
)


def _kw(op, *drop):
    return {k: v for k, v in op.items() if k not in ("op", *drop)}


def apply_op(tree, op, arrays=None):
    """-> (tree_after, result, refused_reason_or_None).  Raises whatever the library raises
    unless it is a documented refusal."""
    name = op["op"]
    try:
        if name == "subtree_reconfigure":
            return tree.subtree_reconfigure(**_kw(op)), None, None
        if name == "subtree_reconfigure_forest":
            return tree.subtree_reconfigure_forest(parallel=op.get("parallel", False), **_kw(op, "parallel")), None, None
        if name == "simulated_anneal":
            return tree.simulated_anneal(**_kw(op)), None, None
        if name == "parallel_temper":
            return tree.parallel_temper(parallel=op.get("parallel", False), **_kw(op, "parallel")), None, None
        if name == "remove_ind":
            return tree.remove_ind(op["ind"], project=op.get("project"), inplace=op["inplace"]), None, None
        if name == "restore_ind":
            return tree.restore_ind(op["ind"], inplace=op["inplace"]), None, None
        if name == "unslice_rand":
            return tree.unslice_rand(seed=op["seed"], inplace=op["inplace"]), None, None
        if name == "unslice_all":
            return tree.unslice_all(inplace=op["inplace"]), None, None
        if name == "slice":
            return tree.slice(**_kw(op)), None, None
        if name == "slice_and_reconfigure":
            return tree.slice_and_reconfigure(**_kw(op)), None, None
        if name == "slice_and_reconfigure_forest":
            return tree.slice_and_reconfigure_forest(parallel=op.get("parallel", False), **_kw(op, "parallel")), None, None
        if name == "sort_contraction_indices":
            tree.sort_contraction_indices(**_kw(op))
            return tree, None, None
        if name == "reset_contraction_indices":
            tree.reset_contraction_indices()
            return tree, None, None
        if name == "copy":
            return tree.copy(), None, None
        if name == "contract":
            return tree, tree.contract(arrays, **CONTRACT_OPTS[op["opts"]]), None
        if name == "contract_stats":
            return tree, tree.contract_stats(force=op["force"]), None
        if name == "get_path":
            return tree, (tree.get_path(), tree.get_ssa_path()), None
        if name == "print_contractions":
            with contextlib.redirect_stdout(io.StringIO()):
                tree.print_contractions()
            return tree, None, None
        if name == "costs":
            return tree, getattr(tree, op["which"])(), None
    except (RuntimeError, ValueError) as e:
        if any(r in str(e) for r in REFUSALS):
            return tree, None, str(e)
        raise
    raise ValueError(name)


def is_mutator(op):
    return op["op"] in MUTATORS and op["op"] != "copy"


def shrink(history, fails, max_tries=200):
    """Greedy delta-debugging: drop ops while ``fails(history)`` stays true."""
    cur = list(history)
    tries = 0
    changed = True
    while changed and tries < max_tries:
        changed = False
        for i in range(len(cur) - 1, -1, -1):
            cand = cur[:i] + cur[i + 1 :]
            tries += 1
            try:
                if fails(cand):
                    cur = cand
                    changed = True
            except Exception:
                pass
            if tries >= max_tries:
                break
    return cur
