#!/venv/bin/python
"""Development aid: per function of a repository file, the executable lines the quick tier never
reached (from .build/cover/ALL.cov written by tools/cover.sh).  Module level 'def' lines are
ignored (the package is imported before tracing starts)."""
import ast, sys, coverage
cov = coverage.Coverage(data_file=sys.argv[1]); cov.load()
for fn in sys.argv[2:]:
    _, stmts, _, missing, _ = cov.analysis2(fn)
    missing = set(missing)
    src = open(fn).read(); tree = ast.parse(src)
    out = []
    def visit(node, prefix=""):
        for ch in ast.iter_child_nodes(node):
            if isinstance(ch, (ast.FunctionDef, ast.AsyncFunctionDef)):
                name = prefix + ch.name
                body = set()
                for st in ch.body:
                    for sub in ast.walk(st):
                        if hasattr(sub, "lineno"): body.add(sub.lineno)
                # exclude nested defs' bodies? keep simple
                lines = sorted(l for l in body if l in set(stmts))
                miss = [l for l in lines if l in missing]
                if lines and miss:
                    out.append((name, len(miss), len(lines), miss))
                visit(ch, name + ".")
            elif isinstance(ch, ast.ClassDef):
                visit(ch, prefix + ch.name + ".")
    visit(tree)
    print(f"== {fn}")
    for name, m, n, miss in out:
        tag = "NEVER" if m == n else f"{m}/{n}"
        rng = ",".join(map(str, miss[:14])) + ("..." if len(miss) > 14 else "")
        print(f"  {tag:>8}  {name}  [{rng}]")
