"""Deliberate property-breaking edits that validate vf/checks/c10.py (path format round trips)."""


def register(M):
    M("M_C10_a", ["C10"], "cotengra/core.py",
      "            i, j = sorted((bisect_left(ssas, lssa), bisect_left(ssas, rssa)))",
      "            from bisect import bisect_right\n            i, j = sorted((bisect_right(ssas, lssa), bisect_right(ssas, rssa)))",
      "get_path maps ssa ids to linear positions with bisect_right (off by one)", ["tests/test_tree.py"])
    M("M_C10_b", ["C10"], "cotengra/core.py",
      "                            # parent moves extra place to right\n                            i += 1\n",
      "                            # parent moves extra place to right\n",
      "_traverse_ordered forgets that the parent moved: paths stay valid but a linear-extension order "
      "(ContractionTreeCompressed surface order = the initial path) is no longer reproduced", ["tests/test_tree.py"])
    M("M_C10_c", ["C10"], "cotengra/pathfinders/path_basic.py",
      "        scon = tuple(ids.pop(c) for c in sorted(con, reverse=True))",
      "        scon = tuple(ids.pop(c) for c in sorted(con))",
      "linear_to_ssa pops positions in ascending order (later positions shift)", ["tests/test_paths_basic.py"])
    M("M_C10_d", ["C10"], "cotengra/core.py",
      "                            ci = bisect(scores[:i], score)",
      "                            ci = bisect(scores, score)",
      "_traverse_ordered may insert a child after its parent (adversarial orders)", ["tests/test_tree.py"])
    M("M_C10_e", ["C10"], "cotengra/pathfinders/path_basic.py",
      "        if len(scon) < 2:\n            # nothing to contract",
      "        if len(scon) != 2:\n            # nothing to contract",
      "edge_path_to_ssa skips an index carried by three or more tensors (hyper index only)", ["tests/test_paths_basic.py"])
    M("M_C10_f", ["C10"], "cotengra/core.py",
      "                merge = [nodes.pop(i) for i in sorted(p, reverse=True)]",
      "                merge = [nodes.pop(i) for i in p]",
      "from_path(path=) pops linear positions in the given order", ["tests/test_tree.py"])
    M("M_C10_g", ["C10"], "cotengra/core.py",
      "        if len(nodes) > 1 and autocomplete:\n            if autocomplete == \"auto\":",
      "        if len(nodes) > 2 and autocomplete:\n            if autocomplete == \"auto\":",
      "from_path autocomplete leaves the last two tensors uncontracted", ["tests/test_tree.py"])
    M("M_C10_h", ["C10"], "cotengra/pathfinders/path_basic.py",
      "        con = [bisect.bisect_left(ids, s) for s in scon]\n        con.sort()",
      "        con = [bisect.bisect_left(ids, s) for s in scon]\n        con.sort()\n        if len(con) > 2:\n            con = con[:1] + [c - 1 for c in con[1:]]",
      "ssa_to_linear mis-numbers positions only in steps of three or more tensors", ["tests/test_paths_basic.py"])
    M("M_C10_i", ["C10"], "cotengra/core.py",
      "            if r not in ready:\n                queue.append(r)\n            if l not in ready:\n                queue.append(l)",
      "            if l not in ready:\n                queue.append(l)\n            if r not in ready:\n                queue.append(r)",
      "harmless: dfs visits the right subtree first (a different but admissible children-first order)",
      ["tests/test_tree.py"], harmless=True)

    # ---- widened monitors (getters / constructors / helpers that speak a path format) ----
    M("M_C10_x1", ["C10"], "cotengra/core.py",
      '        return ["einsum_path", *self.get_path(order=order)]',
      '        return ["einsum_path", *self.get_path()]',
      "get_numpy_path drops the order argument (numpy_path: does not follow traverse(order))", ["tests/test_tree.py"])
    M("M_C10_x2", ["C10"], "cotengra/core.py",
      "        tups = dict(zip(self.gen_leaves(), range(self.N)))\n\n        for parent, l, r in self.traverse(order=order):",
      "        tups = dict(zip(self.gen_leaves(), range(1, self.N + 1)))\n\n        for parent, l, r in self.traverse(order=order):",
      "flat_tree numbers the leaves from 1 (flat_tree)", ["tests/test_tree.py"])
    M("M_C10_x3", ["C10"], "cotengra/core.py",
      "            for nd in itertools.chain.from_iterable(self.traverse())\n            if len(nd) == 1",
      "            for nd in itertools.chain.from_iterable(x[:2] for x in self.traverse())\n            if len(nd) == 1",
      "get_leaves_ordered looks at (parent, left) only: leaves that are right children are lost (leaves_ordered)", ["tests/test_tree.py"])
    M("M_C10_x4", ["C10"], "cotengra/core.py",
      "        return self.get_ssa_path(order=self.surface_order)",
      "        return self.get_ssa_path()",
      "get_ssa_path_surface forgets the surface order (surface_paths: plain trees fall back to dfs)", ["tests/test_tree.py"])
    M("M_C10_x5", ["C10"], "cotengra/core.py",
      "        if (len(tree.children) < tree.N - 1) and autocomplete:",
      "        if (len(tree.children) < tree.N - 2) and autocomplete:",
      "ContractionTreeCompressed.from_path does not complete a path that lacks exactly one contraction (compressed_prefix)", ["tests/test_tree.py"])
    M("M_C10_x6", ["C10"], "cotengra/core.py",
      '        inputs = lhs.split(",")\n        return cls(inputs, output, size_dict, **kwargs)',
      '        inputs = [t for t in lhs.split(",") if t]\n        return cls(inputs, output, size_dict, **kwargs)',
      "from_eq drops scalar (empty) terms (from_eq)", ["tests/test_tree.py"])
    M("M_C10_x7", ["C10"], "cotengra/core.py",
      "        return inputs_output_to_eq(self.inputs, self.output)",
      "        return inputs_output_to_eq(self.get_inputs_sliced(), self.output)",
      "get_eq leaves the sliced indices out of the inputs although it documents the total equation (sliced_getters)", ["tests/test_tree.py"])
    M("M_C10_x8", ["C10"], "cotengra/core.py",
      "        return tuple(ix for ix in self.output if ix not in self.sliced_inds)",
      "        return tuple(self.output)",
      "get_output_sliced keeps sliced output indices (sliced_getters_output_index)", ["tests/test_tree.py"])
    M("M_C10_x9", ["C10"], "cotengra/core.py",
      "                self.size_dict[ix] for ix in term if ix not in self.sliced_inds\n",
      "                self.size_dict[ix] for ix in term\n",
      "get_shapes_sliced keeps the sliced dimensions (sliced_getters)", ["tests/test_tree.py"])
    M("M_C10_x10", ["C10"], "cotengra/core.py",
      "            size_dict=info.size_dict,\n            path=info.path,",
      "            size_dict=info.size_dict,\n            ssa_path=info.path,",
      "from_info hands the linear opt_einsum path over as an ssa path (from_info)", ["tests/test_tree.py"])
    M("M_C10_x11", ["C10"], "cotengra/core.py",
      "            edge_path=edge_path,\n            optimize=optimize,\n            autocomplete=autocomplete,\n",
      "            edge_path=edge_path,\n            optimize=optimize,\n",
      "from_edge_path does not pass autocomplete on (from_edge_path: autocomplete=False still completes)", ["tests/test_tree.py"])
    M("M_C10_x12", ["C10"], "cotengra/core.py",
      "            if len(self.info) > 2 * self.N - 1:",
      "            if len(self.info) >= 2 * self.N - 1:",
      "_add_node(check=True) is off by one: the last contraction of a valid complete path is refused (from_path_check)", ["tests/test_tree.py"])
    M("M_C10_x13", ["C10"], "cotengra/pathfinders/path_basic.py",
      "            if (nterms is not None) and (i >= nterms):",
      "            if (nterms is not None) and (i > nterms):",
      "harmless since repair 157dfec: the id == nterms shortcut is missed, but a valid ssa path never reuses an id, so the "
      "repaired function still ends in True (was CAUGHT by is_ssa_true before the repair; M_C10_r1 validates is_ssa_true now)",
      ["tests/test_paths_basic.py"], harmless=True)
    M("M_C10_x14", ["C10"], "cotengra/pathfinders/path_basic.py",
      "            if i in seen:\n                # id reused -> not ssa\n                return False",
      "            if i in seen:\n                # id reused -> not ssa\n                return True",
      "is_ssa_path answers the wrong way round when an id is reused: linear paths are called ssa (is_ssa_false)", ["tests/test_paths_basic.py"])
    M("M_C10_x15", ["C10"], "cotengra/utils.py",
      "            new_optimize = tuple(ind_map[ind] for ind in optimize)",
      "            new_optimize = tuple(optimize)",
      "canonicalize_inputs forgets to rename the indices of an edge path (iface_path_edge / iface_tree_edge)", ["tests/test_interface.py"])
    M("M_C10_x16", ["C10"], "cotengra/interface.py",
      "        return ContractionTree.from_path(\n            inputs, output, size_dict, path=optimize\n        )",
      "        return ContractionTree.from_path(\n            inputs, output, size_dict, ssa_path=optimize\n        )",
      "find_tree reads an explicit (linear) path as an ssa path (iface_tree_explicit)", ["tests/test_interface.py"])
    M("M_C10_x17", ["C10"], "cotengra/interface.py",
      "def _find_path_tree(inputs, output, size_dict, optimize, **kwargs):\n    return optimize.get_path()",
      "def _find_path_tree(inputs, output, size_dict, optimize, **kwargs):\n    return optimize.get_ssa_path()",
      "find_path returns the ssa path of a tree given as optimize (iface_path_tree)", ["tests/test_interface.py"])
    M("M_C10_x18", ["C10"], "cotengra/interface.py",
      "        optimize = edge_path_to_linear(optimize, inputs)\n\n    return optimize",
      "        from .pathfinders.path_basic import edge_path_to_ssa\n\n        optimize = edge_path_to_ssa(optimize, inputs)\n\n    return optimize",
      "find_path converts an explicit edge path to ssa instead of linear ids (iface_path_edge)", ["tests/test_interface.py"])
    M("M_C10_x19", ["C10"], "cotengra/core.py",
      "            tree.contract_nodes(nodes, **contract_opts)\n\n        return tree",
      "            if autocomplete != \"auto\":\n                tree.contract_nodes(nodes, **contract_opts)\n\n        return tree",
      "from_path(autocomplete='auto') only warns and leaves the tree incomplete (from_path_auto)", ["tests/test_tree.py"])
    M("M_C10_x20", ["C10"], "cotengra/core.py",
      "        return tuple(\n            tuple(self.size_dict[ix] for ix in term) for term in self.inputs\n        )",
      "        return tuple(\n            tuple(self.size_dict[ix] for ix in term) for term in self.get_inputs_sliced()\n        )",
      "get_shapes (all indices) computed from the sliced inputs (sliced_getters)", ["tests/test_tree.py"])
    M("M_C10_x21", ["C10"], "cotengra/core.py",
      "        si = tree.sliced_inds.pop(ind)\n",
      "        si = tree.sliced_inds[ind]\n",
      "restore_ind leaves the index registered as sliced: the *_sliced getters still leave it out (restored_getters)", ["tests/test_tree.py"])
    M("M_C10_x22", ["C10"], "cotengra/utils.py",
      "    if rhs:\n        output = tuple(rhs[0])\n",
      "    if rhs:\n        output = tuple(sorted(rhs[0]))\n",
      "eq_to_inputs_output sorts an explicitly given output (eq_roundtrip)", ["tests/test_interface.py"])
    M("M_C10_x23", ["C10"], "cotengra/interface.py",
      "    if optimize and isinstance(optimize[0], (str, int)):\n        from .pathfinders.path_basic import edge_path_to_linear",
      "    if optimize and isinstance(optimize[0], (str, int, list)):\n        from .pathfinders.path_basic import edge_path_to_linear",
      "find_path takes an explicit path given as a list of lists for an edge path (iface_path_explicit)", ["tests/test_interface.py"])
    M("M_C10_x24", ["C10"], "cotengra/core.py",
      "                tree._remove_node(p)\n                tree.contract_nodes_pair(l, r)\n",
      "                tree._remove_node(p)\n",
      "restore_ind removes the dependent intermediates and forgets to add them again: the paths lose nodes (sliced_paths)", ["tests/test_tree.py"])
    M("M_C10_x25", ["C10"], "cotengra/utils.py",
      "    return f\"{','.join(map(''.join, inputs))}->{''.join(output)}\"",
      "    return f\"{','.join(filter(None, map(''.join, inputs)))}->{''.join(output)}\"",
      "inputs_output_to_eq leaves scalar terms out of the equation (eq_getters: get_eq of an unsliced tree)", ["tests/test_interface.py"])
    # ---- reverts of the repairs of FINDINGS_widen-a.md #1-#3 (the classes are generated again) ----
    M("M_C10_r1", ["C10"], "cotengra/pathfinders/path_basic.py",
      "            if i in seen:\n                # id reused -> not ssa\n                return False\n            seen.add(i)\n    # no id was ever reused\n    return True\n",
      "            seen.add(i)\n            if i in seen:\n                # id reused -> not ssa\n                return False\n",
      "revert 157dfec: is_ssa_path records the id before testing for reuse - every ssa path whose last step starts with an input id is called not-ssa (is_ssa_true / is_ssa_true_input_id_first)", ["tests/test_paths_basic.py"])
    M("M_C10_r2", ["C10"], "cotengra/utils.py",
      "    return (\n        isinstance(optimize, (list, tuple))\n        and len(optimize) > 0\n        and isinstance(optimize[0], (int, str))\n    )",
      "    return isinstance(optimize, (list, tuple)) and isinstance(\n        optimize[0], (int, str)\n    )",
      "revert f2a0970: is_edge_path indexes an empty explicit path - IndexError under canonicalize=True (iface_empty_path_canonicalize)", ["tests/test_interface.py"])
    M("M_C10_r3", ["C10"], "cotengra/core.py",
      "            ssa_path = linear_to_ssa(path, len(inputs))",
      "            ssa_path = linear_to_ssa(path)",
      "revert b769cc4: ContractionTreeCompressed.from_path guesses the number of tensors of an incomplete linear path (compressed_prefix_linear)", ["tests/test_tree.py"])
