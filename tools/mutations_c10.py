"""Deliberate property-breaking edits that validate vf/checks/c10.py (path format round trips)."""


def register(M):
    M("M_C10_a", ["C10"], "cotengra/core.py",
      "            i, j = sorted((bisect_left(ssas, lssa), bisect_left(ssas, rssa)))",
      "            from bisect import bisect_right\n            i, j = sorted((bisect_right(ssas, lssa), bisect_right(ssas, rssa)))",
      "get_path maps ssa ids to linear positions with bisect_right (off by one)", ["tests/test_tree.py"])
    M("M_C10_b", ["C10"], "cotengra/core.py",
      "                            # parent moves extra place to right\n                            i += 1\n",
      "                            # parent moves extra place to right\n",
      "_traverse_ordered forgets that the parent moved: paths stay valid but a linear-extension order "
      "(ContractionTreeCompressed surface order = the initial path) is no longer reproduced", ["tests/test_tree.py"])
    M("M_C10_c", ["C10"], "cotengra/pathfinders/path_basic.py",
      "        scon = tuple(ids.pop(c) for c in sorted(con, reverse=True))",
      "        scon = tuple(ids.pop(c) for c in sorted(con))",
      "linear_to_ssa pops positions in ascending order (later positions shift)", ["tests/test_paths_basic.py"])
    M("M_C10_d", ["C10"], "cotengra/core.py",
      "                            ci = bisect(scores[:i], score)",
      "                            ci = bisect(scores, score)",
      "_traverse_ordered may insert a child after its parent (adversarial orders)", ["tests/test_tree.py"])
    M("M_C10_e", ["C10"], "cotengra/pathfinders/path_basic.py",
      "        if len(scon) < 2:\n            # nothing to contract",
      "        if len(scon) != 2:\n            # nothing to contract",
      "edge_path_to_ssa skips an index carried by three or more tensors (hyper index only)", ["tests/test_paths_basic.py"])
    M("M_C10_f", ["C10"], "cotengra/core.py",
      "                merge = [nodes.pop(i) for i in sorted(p, reverse=True)]",
      "                merge = [nodes.pop(i) for i in p]",
      "from_path(path=) pops linear positions in the given order", ["tests/test_tree.py"])
    M("M_C10_g", ["C10"], "cotengra/core.py",
      "        if len(nodes) > 1 and autocomplete:\n            if autocomplete == \"auto\":",
      "        if len(nodes) > 2 and autocomplete:\n            if autocomplete == \"auto\":",
      "from_path autocomplete leaves the last two tensors uncontracted", ["tests/test_tree.py"])
    M("M_C10_h", ["C10"], "cotengra/pathfinders/path_basic.py",
      "        con = [bisect.bisect_left(ids, s) for s in scon]\n        con.sort()",
      "        con = [bisect.bisect_left(ids, s) for s in scon]\n        con.sort()\n        if len(con) > 2:\n            con = con[:1] + [c - 1 for c in con[1:]]",
      "ssa_to_linear mis-numbers positions only in steps of three or more tensors", ["tests/test_paths_basic.py"])
    M("M_C10_i", ["C10"], "cotengra/core.py",
      "            if r not in ready:\n                queue.append(r)\n            if l not in ready:\n                queue.append(l)",
      "            if l not in ready:\n                queue.append(l)\n            if r not in ready:\n                queue.append(r)",
      "harmless: dfs visits the right subtree first (a different but admissible children-first order)",
      ["tests/test_tree.py"], harmless=True)
