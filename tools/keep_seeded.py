#!/venv/bin/python
"""Confirm and archive a seeded property-breaking change produced by a fresh sub-agent.

    tools/keep_seeded.py S_C01_a /tmp/seed-C01 --prop C01 --needs "..." [--tests tests/test_tree.py ...] [--checks C01,C02]

Steps (all on scratch copies under /var/tmp, never in /repo):
  1. copy patch.diff + demo into /verif/seeded/<id>/
  2. demo on the unchanged tree must PASS (exit 0), with the patch applied must FAIL (exit != 0)
  3. the repository tests named by --tests must pass with the patch
  4. run the named checks (quick, seeds 0,1,2) against the patched copy; record caught / missed
  5. write meta.json
"""

import argparse
import glob
import json
import os
import shutil
import subprocess
import sys
import tempfile
import time

HERE = os.path.dirname(os.path.abspath(__file__))
VERIF = os.path.dirname(HERE)


def copy_repo():
    d = tempfile.mkdtemp(prefix="vf-seed-", dir="/var/tmp")
    for sub in ("cotengra", "tests"):
        shutil.copytree(os.path.join("/repo", sub), os.path.join(d, sub), ignore=shutil.ignore_patterns("__pycache__"))
    shutil.copy("/repo/pyproject.toml", d)
    return d


def run_demo(d, demo):
    env = dict(os.environ, PYTHONPATH=d, PYTHONHASHSEED="0")
    p = subprocess.run(["/venv/bin/python", demo], cwd=d, env=env, capture_output=True, text=True, timeout=600)
    return p.returncode, (p.stdout + p.stderr)[-600:]


def recheck(a):
    dest = os.path.join(VERIF, "seeded", a.id)
    meta = json.load(open(os.path.join(dest, "meta.json")))
    patched = copy_repo()
    try:
        p = subprocess.run(["patch", "-p1", "-d", patched, "-i", os.path.join(dest, "patch.diff")], capture_output=True, text=True)
        if p.returncode:
            print("patch does not apply")
            return 2
        res = {}
        for c in (a.checks or a.prop).split(","):
            for s in a.seeds.split(","):
                env = dict(os.environ, VF_REPO=patched, VERIF_SEED=s)
                t0 = time.time()
                p = subprocess.run([os.path.join(VERIF, "check"), c, a.tier], env=env, capture_output=True, text=True)
                kinds = sorted({l.strip().split(" ")[0] for l in p.stdout.splitlines() if l.strip().startswith("kind=")})
                res[f"{c}@seed{s}"] = {"exit": p.returncode, "caught": p.returncode == 1, "kinds": kinds[:6], "seconds": round(time.time() - t0)}
                print(f"{a.id}: recheck {c} seed={s} -> exit {p.returncode} {'CAUGHT' if p.returncode == 1 else 'missed'} {kinds[:4]}")
        meta["ran"]["checks_after_strengthening"] = res
        meta["caught_by_after_strengthening"] = sorted({k.split("@")[0] for k, v in res.items() if v["caught"]})
        with open(os.path.join(dest, "meta.json"), "w") as f:
            json.dump(meta, f, indent=1)
    finally:
        shutil.rmtree(patched, ignore_errors=True)
    return 0


def main():
    ap = argparse.ArgumentParser()
    ap.add_argument("id")
    ap.add_argument("worktree", nargs="?")
    ap.add_argument("--prop", required=True)
    ap.add_argument("--needs", default="")
    ap.add_argument("--tests", nargs="*", default=[])
    ap.add_argument("--checks")
    ap.add_argument("--seeds", default="0,1,2")
    ap.add_argument("--tier", default="quick")
    ap.add_argument("--recheck", action="store_true", help="only re-run the checks against the archived patch and record them under checks_after_strengthening")
    a = ap.parse_args()
    if a.recheck:
        return recheck(a)
    dest = os.path.join(VERIF, "seeded", a.id)
    os.makedirs(dest, exist_ok=True)
    patch = os.path.join(a.worktree, "patch.diff")
    demos = glob.glob(os.path.join(a.worktree, "demo*.py"))
    if not os.path.exists(patch) or not demos:
        print("missing patch.diff or demo_*.py in", a.worktree)
        return 2
    shutil.copy(patch, os.path.join(dest, "patch.diff"))
    demo_name = os.path.basename(demos[0])
    shutil.copy(demos[0], os.path.join(dest, demo_name))
    meta = {"id": a.id, "breaks": a.prop, "needs": a.needs, "ran": {}}

    clean = copy_repo()
    patched = copy_repo()
    try:
        p = subprocess.run(["patch", "-p1", "-d", patched, "-i", os.path.join(dest, "patch.diff")], capture_output=True, text=True)
        if p.returncode:
            print("patch does not apply:", p.stdout, p.stderr)
            return 2
        rc0, out0 = run_demo(clean, os.path.join(dest, demo_name))
        rc1, out1 = run_demo(patched, os.path.join(dest, demo_name))
        meta["ran"]["demo_unchanged"] = {"exit": rc0, "tail": out0[-200:]}
        meta["ran"]["demo_patched"] = {"exit": rc1, "tail": out1[-300:]}
        print(f"demo unchanged exit={rc0}; patched exit={rc1}")
        if a.tests:
            env = dict(os.environ, PYTHONPATH=patched)
            t0 = time.time()
            p = subprocess.run(["/venv/bin/python", "-m", "pytest", "-q", "-p", "no:cacheprovider", "--timeout=900", "-k", "not chocolate", *a.tests], cwd=patched, env=env, capture_output=True, text=True, timeout=7200)
            meta["ran"]["repo_tests_with_patch"] = {"files": a.tests, "exit": p.returncode, "tail": p.stdout.strip().splitlines()[-1:] , "seconds": round(time.time() - t0)}
            print("repo tests with patch:", p.returncode, p.stdout.strip().splitlines()[-1:])
        checks = (a.checks or a.prop).split(",")
        res = {}
        for c in checks:
            for s in a.seeds.split(","):
                env = dict(os.environ, VF_REPO=patched, VERIF_SEED=s)
                t0 = time.time()
                p = subprocess.run([os.path.join(VERIF, "check"), c, a.tier], env=env, capture_output=True, text=True)
                kinds = sorted({l.strip().split(" ")[0] for l in p.stdout.splitlines() if l.strip().startswith("kind=")})
                res[f"{c}@seed{s}"] = {"exit": p.returncode, "caught": p.returncode == 1, "kinds": kinds[:6], "seconds": round(time.time() - t0)}
                print(f"{a.id}: {c} seed={s} -> exit {p.returncode} {'CAUGHT' if p.returncode == 1 else 'missed'} {kinds[:4]}")
        meta["ran"]["checks_against_patched_copy"] = res
        meta["caught_by"] = sorted({k.split("@")[0] for k, v in res.items() if v["caught"]})
        meta["confirmed"] = rc0 == 0 and rc1 != 0 and (not a.tests or meta["ran"]["repo_tests_with_patch"]["exit"] == 0)
    finally:
        shutil.rmtree(clean, ignore_errors=True)
        shutil.rmtree(patched, ignore_errors=True)
    with open(os.path.join(dest, "meta.json"), "w") as f:
        json.dump(meta, f, indent=1)
    print("confirmed:", meta["confirmed"], "caught by:", meta["caught_by"])
    return 0


if __name__ == "__main__":
    sys.exit(main())
