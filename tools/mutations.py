"""Deliberate property-breaking edits (DESIGN section 6).  Each is a unique-text replacement
in one file of a scratch copy of the repository."""

MUTATIONS = []


def M(id, props, file, old, new, note, tests=None, harmless=False, all=False):
    MUTATIONS.append(dict(id=id, props=props, file=file, old=old, new=new, note=note, tests=tests or [], harmless=harmless, all=all))


# ------------------------------- C01 --------------------------------------
M("M_C01_a", ["C01"], "cotengra/core.py",
  'td_inds = "".join(sorted(p_inds, key=f"{l_inds}{r_inds}".find))',
  'td_inds = "".join(sorted(p_inds, key=f"{r_inds}{l_inds}".find))',
  "tensordot perm computed against r,l order", ["tests/test_compute.py"])
M("M_C01_b", ["C01"], "cotengra/core.py",
  "            unique(filter(legs.__contains__, itertools.chain(l_inds, r_inds)))\n        )",
  "            unique(filter(legs.__contains__, itertools.chain(r_inds, l_inds)))\n        ) if len(node) % 5 == 4 else \"\".join(unique(filter(legs.__contains__, itertools.chain(l_inds, r_inds))))",
  "harmless: different but consistent index order on some nodes", ["tests/test_compute.py"], harmless=True)
M("M_C01_c", ["C01"], "cotengra/contract.py",
  "    perm_ab = tuple(out_produced.index(ix) for ix in out)",
  "    perm_ab = tuple(out_produced.index(ix) for ix in out)\n    if len(singletons) > 1:\n        perm_ab = tuple(reversed(perm_ab))",
  "bmm output perm wrong when >=2 singleton output dims", ["tests/test_compute.py"])
M("M_C01_d", ["C01"], "cotengra/core.py",
  "            (len(term) != len(legs))\n            or",
  "            (len(term) > len(legs) + 1)\n            or",
  "leaf with an index repeated exactly twice not pre-processed", ["tests/test_compute.py"])

# ------------------------------- C02 --------------------------------------
M("M_C02_a", ["C02"], "cotengra/core.py",
  "        tree.already_optimized.clear()\n        # n.b. also resets nodes that only depend on ``ind`` via their children\n        tree.reset_contraction_indices()",
  "        tree.already_optimized.clear()",
  "remove_ind no longer invalidates recipes/compiled cores", ["tests/test_tree.py"])
M("M_C02_b", ["C02", "C04"], "cotengra/core.py",
  "                del self.info[node]\n",
  "                self.info[node].pop('involved', None)\n",
  "_remove_node keeps info of removed intermediate nodes", ["tests/test_tree.py"])
M("M_C02_c", ["C02", "C04"], "cotengra/core.py",
  "                {k: v.copy() for k, v in getattr(other, attr).items()},",
  "                {k: (v if len(k) == 2 else v.copy()) for k, v in getattr(other, attr).items()},",
  "copy shares the info dicts of 2-leaf nodes between trees", ["tests/test_tree.py"])
M("M_C02_d", ["C02"], "cotengra/pathfinders/path_simulated_annealing.py",
  "    # the contraction index ordering of any parents of rotated nodes, and any\n    # compiled contractions, are now stale\n    tree.reset_contraction_indices()\n",
  "",
  "revert of the anneal part of the reset fix", ["tests/test_tree.py"])
M("M_C02_e", ["C02"], "cotengra/core.py",
  "                legs = {ix: legs[ix] for ix in self.output if ix in legs}\n",
  "                pass\n",
  "revert of the root-legs-order fix (F1)", ["tests/test_tree.py"])
M("M_C02_f", ["C02", "C06"], "cotengra/core.py",
  "            axes = output_pos[remaining[0]] - len(loc)",
  "            axes = output_pos[remaining[0]] - (len(loc) if len(loc) < 2 else 1)",
  "gather_slices stacks on the wrong axis from the 3rd sliced output index on", ["tests/test_tree.py"])

# ------------------------------- C04 --------------------------------------
M("M_C04_a", ["C04"], "cotengra/core.py",
  "            if self._track_write:\n                self._write -= self.get_size(node)\n",
  "            if self._track_write and len(node) != 2:\n                self._write -= self.get_size(node)\n",
  "_remove_node forgets to subtract write for 2-leaf nodes", ["tests/test_tree.py"])
M("M_C04_b", ["C04"], "cotengra/utils.py",
  "            if x == self._max_element:\n",
  "            if x == self._max_element and len(self._c) > 1:\n",
  "MaxCounter.discard keeps a stale maximum when the last element goes", ["tests/test_tree.py"])
M("M_C04_c", ["C04"], "cotengra/core.py",
  "                    tree._write += new_size - old_size",
  "                    tree._write += new_size - old_size if new_size > 1 else 0",
  "remove_ind skips the write delta when a node shrinks to a scalar", ["tests/test_tree.py"])
M("M_C04_d", ["C04"], "cotengra/core.py",
  "        for node in tree.children:\n            tree.get_involved(node)\n",
  "",
  "revert of the involved-before-remove_ind fix (F2)", ["tests/test_tree.py"])
M("M_C04_e", ["C04"], "cotengra/core.py",
  "        tree.multiplicity //= si.size",
  "        tree.multiplicity //= (si.size if si.project is None else tree.size_dict[ind])",
  "restore_ind of a projected index divides the multiplicity by the full size", ["tests/test_tree.py"])


# ------------------- per-property files: tools/mutations_cXX.py -------------------
# each defines  register(M)  and calls M(id, props, file, old, new, note, tests=[...], harmless=False)
def _load_extra():
    import glob
    import importlib.util
    import os

    here = os.path.dirname(os.path.abspath(__file__))
    for path in sorted(glob.glob(os.path.join(here, "mutations_c*.py"))):
        spec = importlib.util.spec_from_file_location(os.path.basename(path)[:-3], path)
        mod = importlib.util.module_from_spec(spec)
        spec.loader.exec_module(mod)
        mod.register(M)


_load_extra()

# ------------------------------- C03 --------------------------------------
M("M_C03_a", ["C03"], "cotengra/core.py",
  "            if ix_count < self.appearances[ix]\n        }\n\n    @cached_node_property(\"involved\")",
  "            if ix_count < self.appearances[ix] or (ix_count > 3)\n        }\n\n    @cached_node_property(\"involved\")",
  "get_legs keeps an index that appeared >3 times even when fully contracted", ["tests/test_tree.py"])
M("M_C03_b", ["C03"], "cotengra/core.py",
  "        return self.multiplicity * self._write\n",
  "        return self._write if len(self.sliced_inds) > 1 else self.multiplicity * self._write\n",
  "total_write forgets the multiplicity when >=2 indices are sliced", ["tests/test_tree.py"])
M("M_C03_c", ["C03"], "cotengra/core.py",
  "            tot_size -= self.get_size(l)\n            tot_size -= self.get_size(r)\n\n        if log is not None:\n            peak",
  "            tot_size -= self.get_size(l)\n            if len(r) > 1 or len(l) > 1:\n                tot_size -= self.get_size(r)\n\n        if log is not None:\n            peak",
  "peak_size does not free the right operand when both operands are leaves", ["tests/test_tree.py"])
M("M_C03_d", ["C03", "C04"], "cotengra/core.py",
  "            si = SliceInfo(ind not in tree.output, ind, 1, project)",
  "            si = SliceInfo(ind not in tree.output, ind, 1, project)\n            tree.multiplicity = tree.multiplicity * (d if ind in tree.output and d == 2 else 1)",
  "projecting a size-2 output index multiplies the multiplicity", ["tests/test_tree.py"])
M("M_C03_e", ["C03"], "cotengra/core.py",
  "        for p in self.children:\n            f = self.get_flops(p)\n            w = self.get_size(p)",
  "        for p in self.children:\n            f = self.get_flops(p)\n            w = self.get_size(p) if len(p) < self.N else 0",
  "combo_cost ignores the root's write", ["tests/test_tree.py"])

# ------------------------------- C06 --------------------------------------
M("M_C06_a", ["C06"], "cotengra/core.py",
  "    for i in range(nsliced - 2, -1, -1):\n        strides[i] = strides[i + 1] * slice_infos[i + 1].size",
  "    for i in range(nsliced - 2, -1, -1):\n        strides[i] = strides[i + 1] * slice_infos[i].size",
  "slice strides use the wrong neighbour's size (only visible with >=2 sliced indices of different sizes)", ["tests/test_tree.py"])
M("M_C06_b", ["C06"], "cotengra/core.py",
  "        stepsize = prod(\n            si.size for si in self.sliced_inds.values() if si.inner\n        )",
  "        stepsize = prod(\n            si.size for si in self.sliced_inds.values() if si.inner or si.project is not None\n        )",
  "harmless: projected output indices have size 1 anyway", ["tests/test_tree.py"], harmless=True)
M("M_C06_c", ["C06"], "cotengra/core.py",
  "            for j in range(1, stepsize):\n                i = o * stepsize + j",
  "            for j in range(1, stepsize):\n                i = o + j * (self.nslices // stepsize)",
  "gen_output_chunks sums slices with the wrong stride", ["tests/test_tree.py"])
M("M_C06_d", ["C06"], "cotengra/core.py",
  "                locations.get(ix, slice(None)) for ix in self.inputs[c]\n            )",
  "                locations.get(ix, slice(None)) for ix in self.inputs[c]\n            ) if len(self.inputs[c]) < 4 else tuple(locations.get(ix, slice(None)) if j < 3 else slice(None) for j, ix in enumerate(self.inputs[c]))",
  "slice_arrays ignores removed indices beyond the third axis of an operand", ["tests/test_tree.py"])
M("M_C06_e", ["C06"], "cotengra/core.py",
  "            else:\n                # size is 1 and i doesn't change\n                key[ind] = info.project",
  "            else:\n                # size is 1 and i doesn't change\n                key[ind] = info.project if info.inner else 0",
  "projected output index always reported as value 0", ["tests/test_tree.py"])

# ------------------------------- C07 --------------------------------------
M("M_C07_a", ["C07"], "cotengra/slicer.py",
  "                cost._sizes.discard(old_size)\n                cost._sizes.add(new_size)",
  "                cost._sizes.discard(old_size)\n                cost._sizes.add(new_size if len(cost._where) % 7 else old_size)",
  "ContractionCosts.remove sometimes keeps the old size in its max tracker", ["tests/test_slicer.py"])
M("M_C07_b", ["C07"], "cotengra/slicer.py",
  "            if ix in self.forbidden:\n                raise RuntimeError",
  "            if ix in self.forbidden and temperature == 0:\n                raise RuntimeError",
  "forbidden indices only refused at zero temperature", ["tests/test_slicer.py"])
M("M_C07_c", ["C07"], "cotengra/slicer.py",
  "                (not size_specified or (x[1].size <= target_size))\n                and (",
  "                (not size_specified or (x[1].size <= 2 * target_size))\n                and (",
  "best() accepts slicings twice as large as the target size", ["tests/test_slicer.py"])
M("M_C07_d", ["C07"], "cotengra/slicer.py",
  "        return self.nslices * self.flops",
  "        return self.nslices * self.flops if self.nslices < 64 else 64 * self.flops",
  "predicted total flops saturates at 64 slices", ["tests/test_slicer.py"])
M("M_C07_e", ["C07"], "cotengra/slicer.py",
  "            if overhead_specified and (next_cost.overhead > target_overhead):\n                break",
  "            if overhead_specified and (next_cost.overhead > target_overhead):\n                break\n            pass",
  "harmless no-op", ["tests/test_slicer.py"], harmless=True)
M("M_C07_f", ["C07"], "cotengra/slicer.py",
  "        if allow_outer == \"only\":",
  "        if allow_outer == \"only\" and len(self.forbidden) > 1:",
  "allow_outer='only' not enforced when there is a single output index", ["tests/test_slicer.py"])

# ------------------------------- C08 --------------------------------------
M("M_C08_a", ["C08"], "cotengra/hyperoptimizers/hyper.py",
  "                if future.done():\n                    del self._futures[i]",
  "                if future.done():\n                    del self._futures[0]",
  "polling removes the first future instead of the finished one (only visible when completion order != submission order)", ["tests/test_optimizers.py"])
M("M_C08_b", ["C08"], "cotengra/hyperoptimizers/hyper.py",
  "        tree.slice_(**self.opts)\n        trial.update(tree.contract_stats())",
  "        tree.slice_(**self.opts)",
  "sliced trial keeps the unsliced cost figures", ["tests/test_optimizers.py"])
M("M_C08_c", ["C08"], "cotengra/hyperoptimizers/hyper.py",
  "                setting, future = self._futures[i]\n                if future.done():",
  "                setting, future = self._futures[i]\n                setting = self._futures[0][0]\n                if future.done():",
  "result reported with the setting of the oldest outstanding trial", ["tests/test_optimizers.py"])
M("M_C08_d", ["C08"], "cotengra/hyperoptimizers/hyper.py",
  "        r_stop = r_start + self.max_repeats\n",
  "        r_stop = r_start + self.max_repeats + (1 if self._pool is not None else 0)\n",
  "one trial too many when running on a pool", ["tests/test_optimizers.py"])
M("M_C08_e", ["C08"], "cotengra/hyperoptimizers/hyper.py",
  "        tree.simulated_anneal_(**self.opts)\n        trial.update(tree.contract_stats())",
  "        tree.simulated_anneal_(**self.opts)\n        trial.update(tree.contract_stats() if not tree.sliced_inds else {})",
  "harmless since the limit-objective fix: a trial without recorded figures gets them from its (final) tree when it is scored", ["tests/test_optimizers.py"], harmless=True)
M("M_C08_f", ["C08"], "cotengra/hyperoptimizers/hyper.py",
  "            if trial[\"score\"] < self.best[\"score\"]:\n                self.trials_since_best = 0",
  "            if trial[\"score\"] < self.best[\"score\"] or (self.trials_since_best > 5 and \"tree\" in trial):\n                self.trials_since_best = 0",
  "after 5 non-improving trials the next successful trial replaces the best", ["tests/test_optimizers.py"])
M("M_C08_g", ["C08"], "cotengra/scoring.py",
  "        ensure_basic_quantities_are_computed(trial)\n        tree = trial[\"tree\"]\n        return math.log2(tree.combo_cost(factor=self.factor, combine=max))",
  "        tree = trial[\"tree\"]\n        return math.log2(tree.combo_cost(factor=self.factor, combine=max))",
  "harmless since fix cc45b0a: ComputeScore now fills in flops/write/size for every scored trial, so the limit objective's own "
  "call (fix c87e4ea) is redundant for HyperOptimizer; reverting it changes nothing observable (was CAUGHT before cc45b0a)",
  ["tests/test_optimizers.py"], harmless=True)
# widened C08 (reading the record back, second search, compressed optimizer, objective instances)
M("M_C08_w1", ["C08"], "cotengra/hyperoptimizers/hyper.py",
  "                self.method_choices,\n                self.costs_size,\n                self.costs_flops,\n                self.costs_write,\n                self.param_choices,",
  "                self.method_choices,\n                self.costs_flops,\n                self.costs_size,\n                self.costs_write,\n                self.param_choices,",
  "get_trials zips the flops column where the size column is documented (R1 / R3)", ["tests/test_optimizers.py"])
M("M_C08_w2", ["C08"], "cotengra/hyperoptimizers/hyper.py",
  "        if sort == \"flops\":\n            trials.sort(\n                key=lambda t: log2(t[1]) / 1e3 + log2(t[2]) + log2(t[3]) / 1e3\n            )",
  "        if sort == \"flops\":\n            order = sorted(range(len(trials)), key=lambda i: self.costs_flops[i])\n            trials = [trials[i][:4] + (self.param_choices[j],) for j, i in enumerate(order)]",
  "get_trials(sort='flops') rebuilt from an index order but takes the params at the output position (R2)", ["tests/test_optimizers.py"])
M("M_C08_w3", ["C08"], "cotengra/hyperoptimizers/hyper.py",
  "        for choice, size, flops, write, params in self.get_trials(sort):",
  "        for choice, size, write, flops, params in self.get_trials(sort):",
  "print_trials unpacks write / flops in the wrong order (R3)", ["tests/test_optimizers.py"])
M("M_C08_w4", ["C08"], "cotengra/hyperoptimizers/hyper.py",
  "                \"score\": self.scores,\n            }\n        ).sort_values(by=\"method\")",
  "                \"score\": sorted(self.scores),\n            }\n        ).sort_values(by=\"method\")",
  "to_df pre-sorts the score column: scores no longer belong to their trials (R4)", ["tests/test_optimizers.py"])
M("M_C08_w4b", ["C08"], "cotengra/hyperoptimizers/hyper.py",
  "                **self.param_choices[i],\n                \"flops\": log10(self.costs_flops[i]),",
  "                **self.param_choices[i - 1],\n                \"flops\": log10(self.costs_flops[i]),",
  "to_dfs_parametrized pairs trial i's figures with trial i-1's parameters (R4)", ["tests/test_optimizers.py"])
M("M_C08_w5", ["C08"], "cotengra/hyperoptimizers/hyper.py",
  "        return tuple(self.path)\n",
  "        return tuple(self.tree.get_ssa_path())\n",
  "__call__ (opt_einsum interface) returns the ssa path where a linear path is expected (R5)", ["tests/test_optimizers.py"])
M("M_C08_w6", ["C08"], "cotengra/scoring.py",
  "        return math.log2(trial[\"flops\"] + self.factor * trial[\"write\"])",
  "        return math.log2(trial[\"flops\"] + DEFAULT_COMBO_FACTOR * trial[\"write\"])",
  "ComboObjective ignores its factor parameter: only visible with an Objective instance / non-default factor (S1)", ["tests/test_optimizers.py"])
M("M_C08_w7", ["C08"], "cotengra/hyperoptimizers/hyper.py",
  "        score_smudge=1e-6,\n",
  "        score_smudge=1e-2,\n",
  "score smudge default four orders too large: the trial with the minimum recorded score is no longer the best tree (S2 / S1)", ["tests/test_optimizers.py"])
M("M_C08_w8", ["C08"], "cotengra/hyperoptimizers/hyper.py",
  "        repeats = range(r_start, r_stop)\n",
  "        repeats = range(self._repeats_start, r_stop)\n",
  "a second search on the same optimizer runs max_repeats + (trials so far) trials (P1 / H1 per search)", ["tests/test_optimizers.py"])
M("M_C08_w9", ["C08"], "cotengra/hyperoptimizers/hyper.py",
  "        self._parallel = parallel\n        self._pool = parse_parallel_arg(parallel)\n",
  "        self._parallel = parallel\n        if getattr(self, \"_pool\", None) is None:\n            self._pool = parse_parallel_arg(parallel)\n",
  "the parallel setter keeps a pool it already has: switching opt.parallel has no effect (P1_pool_switch)", ["tests/test_optimizers.py"])
M("M_C08_w10", ["C08"], "cotengra/hyperoptimizers/hyper.py",
  "            minimize += f\"-{chi}\"\n",
  "            minimize = f\"{minimize}\"\n",
  "the compressed optimizers drop the user's chi from the objective: figures / scores are recorded for chi='auto' (C1)", ["tests/test_optimizers.py"], all=True)
M("M_C08_w11", ["C08"], "cotengra/scoring.py",
  "            chi = max(tree.size_dict.values()) ** 2\n",
  "            chi = max(tree.size_dict.values()) * 2\n",
  "compressed objectives with chi=None use twice (not the square of) the largest dimension (C1)", ["tests/test_optimizers.py"])
M("M_C08_w12", ["C08"], "cotengra/hyperoptimizers/hyper.py",
  "            tree.subtree_reconfigure_(**self.opts)\n\n        tree.already_optimized.clear()\n        trial.update(tree.contract_stats())",
  "            tree.subtree_reconfigure_(**self.opts)\n            trial.update(tree.contract_stats())\n\n        tree.already_optimized.clear()",
  "ReconfTrialFn records the new figures only in the non-forested branch (cfg:forest -> H4)", ["tests/test_optimizers.py"])

# ------------------------------- C13 --------------------------------------
M("M_C13_a", ["C13"], "cotengra/interface.py",
  "    key = (inputs, output, tuple(size_dict.items()), optimize, kwargs)\n",
  "    key = (inputs, frozenset(output), tuple(size_dict.items()), optimize, kwargs)\n",
  "cache key ignores the ORDER of the output indices", ["tests/test_interface.py"])
M("M_C13_b", ["C13"], "cotengra/interface.py",
  "    kwargs = frozenset(kwargs.items())\n    key = (",
  "    kwargs = frozenset(k for k, v in kwargs.items() if v)\n    key = (",
  "cache key only records which kwargs are truthy: a user supplied implementation / via pair shares the expression of implementation='cotengra'", ["tests/test_interface.py"])
M("M_C13_c", ["C13"], "cotengra/interface.py",
  "    key = (inputs, output, tuple(size_dict.items()), optimize, kwargs)\n",
  "    key = (inputs, output, tuple(size_dict), optimize, kwargs)\n",
  "cache key ignores the sizes", ["tests/test_interface.py"])
M("M_C13_d", ["C13"], "cotengra/interface.py",
  "        if isinstance(optimize, list):\n            h = _HASH_OPTIMIZE_PREPARERS[cls] = tuple",
  "        if isinstance(optimize, list):\n            h = _HASH_OPTIMIZE_PREPARERS[cls] = len",
  "explicit list paths keyed by their length only", ["tests/test_interface.py"])
M("M_C13_e", ["C13"], "cotengra/interface.py",
  "    # raise ``TypeError`` now if any part is unhashable\n    hash(key)\n    return key",
  "    # raise ``TypeError`` now if any part is unhashable\n    return (hash(key), len(inputs))",
  "revert of the key-on-the-contraction fix (hash collisions)", ["tests/test_interface.py"])
M("M_C13_f", ["C13"], "cotengra/interface.py",
  "        except TypeError:\n            # some part of the contraction specification is unhashable\n            key = None",
  "        except ZeroDivisionError:\n            key = None",
  "revert of the unhashable-key fallback", ["tests/test_interface.py"])

# C13, expressions with constants / user presets (widened workload).  The unchanged library rebuilds an expression with
# constants on every call; the first three edits add the cache a maintainer might add - with an incomplete key.
_C13_CONST_OLD = "        # handle constants specially with autoray\n        return _array_contract_expression_with_constants(\n"


def _c13_const_cache(keypart):
    return (
        "        # handle constants specially with autoray\n"
        "        if cache and can_hash_optimize(optimize.__class__):\n"
        "            ckey = (\"constants\", hash_contraction(inputs, output, size_dict, optimize), " + keypart + ", tuple(sorted(kwargs.items(), key=repr)))\n"
        "            try:\n"
        "                return _CONTRACT_EXPR_CACHE[ckey]\n"
        "            except KeyError:\n"
        "                pass\n"
        "            expr = _CONTRACT_EXPR_CACHE[ckey] = _array_contract_expression_with_constants(\n"
        "                inputs, output, size_dict, constants, optimize=optimize, cache=cache, **kwargs\n"
        "            )\n"
        "            return expr\n"
        "        return _array_contract_expression_with_constants(\n"
    )


M("M_C13_x1", ["C13"], "cotengra/interface.py", _C13_CONST_OLD, _c13_const_cache("tuple(sorted(constants))"),
  "expressions with constants are cached on the POSITIONS of the constants: other constant arrays in the same positions get the first ones' folded values (stale cache)", ["tests/test_interface.py"])
M("M_C13_x2", ["C13"], "cotengra/interface.py", _C13_CONST_OLD, _c13_const_cache("tuple((i, id(constants[i])) for i in sorted(constants))"),
  "expressions with constants are cached on the positions and the id() of the constant arrays: a new array at the address of a freed one hits the stale entry", ["tests/test_interface.py"])
M("M_C13_x4", ["C13"], "cotengra/interface.py", _C13_CONST_OLD, _c13_const_cache("len(constants)"),
  "expressions with constants are cached on the NUMBER of constants: which operands are constant is not part of the key", ["tests/test_interface.py"])
M("M_C13_x3", ["C13"], "cotengra/interface.py",
  "            key = hash_contraction(inputs, output, size_dict, optimize)\n        except TypeError:\n            # some part of the contraction specification is unhashable",
  "            key = hash_contraction(inputs, output, size_dict, optimize.__class__.__name__)\n        except TypeError:\n            # some part of the contraction specification is unhashable",
  "path cache keyed on the KIND of optimize (str / tuple / list), not its value: every preset name shares one cached path per contraction", ["tests/test_interface.py"])
M("M_C13_x5", ["C13"], "cotengra/interface.py",
  "            lazy_variables_and_constants.append(constant)\n",
  "            lazy_variables_and_constants.insert(0, constant)\n",
  "expressions with constants: the constants are gathered in front of the variables (same in both cache modes: only the dense reference sees it)", ["tests/test_interface.py"])

M("M_C13_x6", ["C13"], "cotengra/interface.py",
  "    lz_output = full_expr(*lazy_variables_and_constants)\n",
  "    if lazy_variables or not cache:\n"
  "        lz_output = full_expr(*lazy_variables_and_constants)\n"
  "    else:\n"
  "        # every input is constant: remember the performed contraction\n"
  "        memo = globals().setdefault(\"_ALL_CONSTANT_RESULTS\", {})\n"
  "        mkey = (tuple(map(tuple, inputs)), tuple(output), tuple(size_dict.items()), via is None)\n"
  "        if mkey not in memo:\n"
  "            memo[mkey] = full_expr(*lazy_variables_and_constants)\n"
  "        lz_output = memo[mkey]\n",
  "all operands constant: the performed contraction is remembered per contraction (cache=True only), other constant arrays get the first result (stale cache)", ["tests/test_interface.py"])

M("M_C08_r1", ["C08"], "cotengra/hyperoptimizers/hyper.py",
  "            # a custom callable objective need not have filled these in\n            ensure_basic_quantities_are_computed(trial)\n",
  "",
  "revert of cc45b0a: a plain callable minimize leaves trial['flops'] unset -> search raises KeyError (cfg:plain_callable)", ["tests/test_optimizers.py"])

# ------------------------------- C14 (widened: update_from_tree / cleanup / directory=True) ----------
M("M_C14_r1", ["C14"], "cotengra/pathfinders/path_basic.py",
  "        # entries added with ``update_from_tree`` can be sliced\n        for ix in con[\"sliced_inds\"]:\n            tree.remove_ind_(ix)\n\n",
  "",
  "revert of 2225b09: the random-greedy reusable optimizer ignores the stored sliced indices on a hit (update_sliced, rg)", ["tests/test_paths_basic.py"])
M("M_C14_r2", ["C14"], "cotengra/utils.py",
  "                if p.is_dir():\n                    # entries are split into sub-directories\n                    for q in p.glob(\"*\"):\n                        q.unlink()\n                    p.rmdir()\n                else:\n                    p.unlink()\n",
  "                p.unlink()\n",
  "revert of dd5f806: DiskDict.clear / cleanup() raises IsADirectoryError on a split directory and leaves the files (cleanup_ops)", ["tests/test_utils.py"])
M("M_C14_w1", ["C14"], "cotengra/reusable.py",
  "        elif overwrite:\n            if overwrite == \"improved\":",
  "        elif overwrite is True:\n            if overwrite == \"improved\":",
  "update_from_tree(overwrite='improved') never overwrites (update_stored_as_supplied)", ["tests/test_optimizers.py"])
M("M_C14_w2", ["C14"], "cotengra/reusable.py",
  "                if new_con[\"score\"] < old_con[\"score\"]:\n                    # overwrite only if we have a better score",
  "                if new_con[\"score\"] != old_con[\"score\"]:\n                    # overwrite only if we have a better score",
  "update_from_tree(overwrite='improved') overwrites with any different score, also a worse one (update_kept_old)", ["tests/test_optimizers.py"])
M("M_C14_w3", ["C14"], "cotengra/reusable.py",
  "        h, missing = self.hash_query(tree.inputs, tree.output, tree.size_dict)\n",
  "        h = hash_contraction(\n            tree.inputs, tree.output, tree.size_dict, self._hash_method\n        )\n        missing = h not in self._cache\n",
  "update_from_tree computes the key itself and forgets directory_split: the entry lands where no query looks (update_ops / update_then_hit)", ["tests/test_optimizers.py"])
M("M_C14_w4", ["C14"], "cotengra/reusable.py",
  "        if missing:\n            # write to the cache\n            self._cache[h] = new_con\n        elif overwrite:",
  "        if missing:\n            # write to the cache\n            self._cache._mem_cache[h] = new_con\n        elif overwrite:",
  "update_from_tree writes a NEW entry to the memory layer only: a fresh object / process on the directory never sees it (update_fresh_object)", ["tests/test_optimizers.py"])
M("M_C14_w5", ["C14"], "cotengra/reusable.py",
  "            \"score\": tree.get_score(),\n            \"sliced_inds\": tuple(tree.sliced_inds),\n        }\n\n        if missing:",
  "            \"score\": tree.get_score(),\n            \"sliced_inds\": (),\n        }\n\n        if missing:",
  "update_from_tree drops the supplied tree's sliced indices (update_sliced input class)", ["tests/test_optimizers.py"])
M("M_C14_w6", ["C14"], "cotengra/reusable.py",
  "        h, missing = self.hash_query(tree.inputs, tree.output, tree.size_dict)\n\n        new_con = {",
  "        if self.cache_only:\n            # read-only\n            return\n\n        h, missing = self.hash_query(tree.inputs, tree.output, tree.size_dict)\n\n        new_con = {",
  "update_from_tree silently does nothing on a cache_only optimizer (update_cache_only)", ["tests/test_optimizers.py"])
M("M_C14_w8", ["C14"], "cotengra/utils.py",
  "    def clear(self):\n        self._mem_cache.clear()\n",
  "    def clear(self):\n",
  "DiskDict.clear (cleanup) deletes the files but keeps the memory copies: the object answers what no other object / process can see (post_cleanup_queries -> reload)", ["tests/test_utils.py"])
M("M_C14_w9", ["C14"], "cotengra/hyperoptimizers/hyper.py",
  "            (\"methods\", None),\n            (\"minimize\", \"flops\"),\n",
  "            (\"methods\", None),\n",
  "minimize is no longer a path-relevant option: directory=True optimizers for different objectives share one cache (auto_dir_other_options_separate)", ["tests/test_optimizers.py"])
M("M_C14_w10", ["C14"], "cotengra/pathfinders/path_basic.py",
  "            (\"max_repeats\", 32),\n            (\"costmod\", (0.1, 4.0)),\n            (\"temperature\", (0.001, 1.0)),",
  "            (\"max_repeats\", 32),\n            (\"costmod\", (0.1, 4.0)),",
  "ReusableRandomGreedyOptimizer: temperature dropped from the path-relevant options (auto_dir_other_options_separate, rg)", ["tests/test_paths_basic.py"])
M("M_C14_w11", ["C14"], "cotengra/reusable.py",
  "        return tuple(sorted((k, make_hashable(v)) for k, v in x.items()))",
  "        return tuple((k, make_hashable(v)) for k, v in x.items())",
  "make_hashable keeps a dict option's insertion order: equal options hash to different auto directories (auto_dir_same_options_share)", ["tests/test_optimizers.py"])
M("M_C14_w12", ["C14"], "cotengra/reusable.py",
  "        if missing:\n            # write to the cache\n            self._cache[h] = new_con\n        elif overwrite:",
  "        self.overwrite = overwrite\n        if missing:\n            # write to the cache\n            self._cache[h] = new_con\n        elif overwrite:",
  "update_from_tree stores its overwrite argument on the optimizer: later queries search again (update_then_hit)", ["tests/test_optimizers.py"])

# ------------------------------- C15 --------------------------------------
M("M_C15_a", ["C15"], "cotengra/utils.py",
  "            with open(tmpname, \"wb\") as f:\n                pickle.dump(v, f)\n            os.replace(tmpname, fname)",
  "            with open(fname, \"wb+\") as f:\n                pickle.dump(v, f)",
  "revert of the atomic write (in-place write)", ["tests/test_optimizers.py"])
M("M_C15_b", ["C15"], "cotengra/utils.py",
  "            with open(tmpname, \"wb\") as f:\n                pickle.dump(v, f)\n            os.replace(tmpname, fname)",
  "            with open(tmpname, \"wb\") as f:\n                os.replace(tmpname, fname)\n                pickle.dump(v, f)",
  "temporary file renamed into place before the data is written", ["tests/test_optimizers.py"])
M("M_C15_c", ["C15"], "cotengra/utils.py",
  "            with open(tmpname, \"wb\") as f:\n                pickle.dump(v, f)\n            os.replace(tmpname, fname)",
  "            if fname.exists():\n                tmpname = fname\n            with open(tmpname, \"wb\") as f:\n                pickle.dump(v, f)\n            os.replace(tmpname, fname)",
  "existing entries are still overwritten in place", ["tests/test_optimizers.py"])
M("M_C15_d", ["C15"], "cotengra/utils.py",
  "                f\".{fname.name}.{os.getpid()}.{threading.get_ident()}.tmp\"",
  "                f\"{fname.name}.{os.getpid()}.{threading.get_ident()}.partial\"",
  "harmless: different temporary name", ["tests/test_optimizers.py"], harmless=True)
M("M_C15_e", ["C15"], "cotengra/utils.py",
  "            with open(tmpname, \"wb\") as f:\n                pickle.dump(v, f)\n            os.replace(tmpname, fname)",
  "            data = pickle.dumps(v)\n            with open(tmpname, \"wb\") as f:\n                f.write(data[:-1])\n            os.replace(tmpname, fname)\n            with open(fname, \"ab\") as f:\n                f.write(data[-1:])",
  "last byte appended after the rename (two cooperating steps, each looks fine)", ["tests/test_optimizers.py"])

# ------------------------------- C16 --------------------------------------
M("M_C16_a", ["C16"], "cotengra/reusable.py",
  "threading.get_ident()",
  "0",
  "per-thread last sub-optimizer replaced by ONE shared slot (needs a particular interleaving of two threads)", ["tests/test_optimizers.py"], all=True)
M("M_C16_c", ["C16"], "cotengra/presets.py",
  "        tid = threading.get_ident()\n        try:\n            return self._hyperoptimizers_by_thread[tid]",
  "        tid = 0\n        try:\n            return self._hyperoptimizers_by_thread[tid]",
  "harmless on the current tree: the object that ends up shared by all threads is a ReusableHyperOptimizer, which is itself safe "
  "to share (per-thread sub-optimizer slot, atomic cache writes; cache=False never reaches this line since fix d34460c). It was "
  "reported CAUGHT in the round-2 run; in the final run neither the current nor the round-2 version of the check finds anything "
  "to report with it at seeds 0-2", ["tests/test_optimizers.py"], harmless=True)
M("M_C16_d", ["C16"], "cotengra/presets.py",
  "        if self._optimizer_hyper_cls is HyperOptimizer:\n",
  "        if self._optimizer_hyper_cls is None:\n",
  "revert of the cache=False fix (F5)", ["tests/test_optimizers.py"])

# ------------------------------- C17 --------------------------------------
M("M_C17_a", ["C17"], "cotengra/slicer.py",
  "        self.rng = get_rng(seed)\n",
  "        self.rng = get_rng(seed if temperature < 1.5 else None)\n",
  "SliceFinder ignores its seed at high temperature", ["tests/test_slicer.py"])
M("M_C17_b", ["C17"], "cotengra/core.py",
  "            self.childless = oset([self.root] if self.N > 1 else [])",
  "            self.childless = set([self.root] if self.N > 1 else [])",
  "hash-ordered set of childless nodes in the divisive builder (frozensets of ints hash deterministically -> expected quiet)", ["tests/test_tree.py"], harmless=True)
M("M_C17_c", ["C17"], "cotengra/core.py",
  "                        \"seed\": rng.randrange(2**32),\n",
  "",
  "revert of the forest sapling seeding", ["tests/test_tree.py"])
M("M_C17_d", ["C17"], "cotengra/pathfinders/path_simulated_annealing.py",
  "        tree.unslice_rand_(seed=rng)\n    tree.slice_(target_size=current_target_size, seed=rng)",
  "        tree.unslice_rand_(seed=rng)\n    tree.slice_(target_size=current_target_size)",
  "annealing's 'basic' slice mode slices with the global generator", ["tests/test_tree.py"])
M("M_C17_e", ["C17"], "cotengra/utils.py",
  "def make_rand_size_dict_from_inputs(inputs, d_min=2, d_max=3, seed=None):",
  "def make_rand_size_dict_from_inputs(inputs, d_min=2, d_max=3, seed=None):\n    inputs = [sorted(set(t), key=hash) for t in inputs]",
  "size dict generator iterates indices in string-hash order (PYTHONHASHSEED dependent)", ["tests/test_tree.py"])
M("M_C17_f", ["C17"], "cotengra/pathfinders/path_labels.py",
  "    labels = sites.copy()\n    pops = collections.Counter(labels)\n\n    rng = get_rng(seed)",
  "    labels = sites.copy()\n    pops = collections.Counter(labels)\n\n    rng = get_rng(seed if n > 6 else None)",
  "labels partition unseeded for small (sub)graphs only", ["tests/test_tree.py"])
