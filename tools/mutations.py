"""Deliberate property-breaking edits (DESIGN section 6).  Each is a unique-text replacement
in one file of a scratch copy of the repository."""

MUTATIONS = []


def M(id, props, file, old, new, note, tests=None, harmless=False):
    MUTATIONS.append(dict(id=id, props=props, file=file, old=old, new=new, note=note, tests=tests or [], harmless=harmless))


# ------------------------------- C01 --------------------------------------
M("M_C01_a", ["C01"], "cotengra/core.py",
  'td_inds = "".join(sorted(p_inds, key=f"{l_inds}{r_inds}".find))',
  'td_inds = "".join(sorted(p_inds, key=f"{r_inds}{l_inds}".find))',
  "tensordot perm computed against r,l order", ["tests/test_compute.py"])
M("M_C01_b", ["C01"], "cotengra/core.py",
  "            unique(filter(legs.__contains__, itertools.chain(l_inds, r_inds)))\n        )",
  "            unique(filter(legs.__contains__, itertools.chain(r_inds, l_inds)))\n        ) if len(node) % 5 == 4 else \"\".join(unique(filter(legs.__contains__, itertools.chain(l_inds, r_inds))))",
  "harmless: different but consistent index order on some nodes", ["tests/test_compute.py"], harmless=True)
M("M_C01_c", ["C01"], "cotengra/contract.py",
  "    perm_ab = tuple(out_produced.index(ix) for ix in out)",
  "    perm_ab = tuple(out_produced.index(ix) for ix in out)\n    if len(singletons) > 1:\n        perm_ab = tuple(reversed(perm_ab))",
  "bmm output perm wrong when >=2 singleton output dims", ["tests/test_compute.py"])
M("M_C01_d", ["C01"], "cotengra/core.py",
  "            (len(term) != len(legs))\n            or",
  "            (len(term) > len(legs) + 1)\n            or",
  "leaf with an index repeated exactly twice not pre-processed", ["tests/test_compute.py"])
