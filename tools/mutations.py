"""Deliberate property-breaking edits (DESIGN section 6).  Each is a unique-text replacement
in one file of a scratch copy of the repository."""

MUTATIONS = []


def M(id, props, file, old, new, note, tests=None, harmless=False):
    MUTATIONS.append(dict(id=id, props=props, file=file, old=old, new=new, note=note, tests=tests or [], harmless=harmless))


# ------------------------------- C01 --------------------------------------
M("M_C01_a", ["C01"], "cotengra/core.py",
  'td_inds = "".join(sorted(p_inds, key=f"{l_inds}{r_inds}".find))',
  'td_inds = "".join(sorted(p_inds, key=f"{r_inds}{l_inds}".find))',
  "tensordot perm computed against r,l order", ["tests/test_compute.py"])
M("M_C01_b", ["C01"], "cotengra/core.py",
  "            unique(filter(legs.__contains__, itertools.chain(l_inds, r_inds)))\n        )",
  "            unique(filter(legs.__contains__, itertools.chain(r_inds, l_inds)))\n        ) if len(node) % 5 == 4 else \"\".join(unique(filter(legs.__contains__, itertools.chain(l_inds, r_inds))))",
  "harmless: different but consistent index order on some nodes", ["tests/test_compute.py"], harmless=True)
M("M_C01_c", ["C01"], "cotengra/contract.py",
  "    perm_ab = tuple(out_produced.index(ix) for ix in out)",
  "    perm_ab = tuple(out_produced.index(ix) for ix in out)\n    if len(singletons) > 1:\n        perm_ab = tuple(reversed(perm_ab))",
  "bmm output perm wrong when >=2 singleton output dims", ["tests/test_compute.py"])
M("M_C01_d", ["C01"], "cotengra/core.py",
  "            (len(term) != len(legs))\n            or",
  "            (len(term) > len(legs) + 1)\n            or",
  "leaf with an index repeated exactly twice not pre-processed", ["tests/test_compute.py"])

# ------------------------------- C02 --------------------------------------
M("M_C02_a", ["C02"], "cotengra/core.py",
  "        tree.already_optimized.clear()\n        # n.b. also resets nodes that only depend on ``ind`` via their children\n        tree.reset_contraction_indices()",
  "        tree.already_optimized.clear()",
  "remove_ind no longer invalidates recipes/compiled cores", ["tests/test_tree.py"])
M("M_C02_b", ["C02", "C04"], "cotengra/core.py",
  "                del self.info[node]\n",
  "                self.info[node].pop('involved', None)\n",
  "_remove_node keeps info of removed intermediate nodes", ["tests/test_tree.py"])
M("M_C02_c", ["C02", "C04"], "cotengra/core.py",
  "                {k: v.copy() for k, v in getattr(other, attr).items()},",
  "                {k: (v if len(k) == 2 else v.copy()) for k, v in getattr(other, attr).items()},",
  "copy shares the info dicts of 2-leaf nodes between trees", ["tests/test_tree.py"])
M("M_C02_d", ["C02"], "cotengra/pathfinders/path_simulated_annealing.py",
  "    # the contraction index ordering of any parents of rotated nodes, and any\n    # compiled contractions, are now stale\n    tree.reset_contraction_indices()\n",
  "",
  "revert of the anneal part of the reset fix", ["tests/test_tree.py"])
M("M_C02_e", ["C02"], "cotengra/core.py",
  "                legs = {ix: legs[ix] for ix in self.output if ix in legs}\n",
  "                pass\n",
  "revert of the root-legs-order fix (F1)", ["tests/test_tree.py"])
M("M_C02_f", ["C02", "C06"], "cotengra/core.py",
  "            axes = output_pos[remaining[0]] - len(loc)",
  "            axes = output_pos[remaining[0]] - (len(loc) if len(loc) < 2 else 1)",
  "gather_slices stacks on the wrong axis from the 3rd sliced output index on", ["tests/test_tree.py"])

# ------------------------------- C04 --------------------------------------
M("M_C04_a", ["C04"], "cotengra/core.py",
  "            if self._track_write:\n                self._write -= self.get_size(node)\n",
  "            if self._track_write and len(node) != 2:\n                self._write -= self.get_size(node)\n",
  "_remove_node forgets to subtract write for 2-leaf nodes", ["tests/test_tree.py"])
M("M_C04_b", ["C04"], "cotengra/utils.py",
  "            if x == self._max_element:\n",
  "            if x == self._max_element and len(self._c) > 1:\n",
  "MaxCounter.discard keeps a stale maximum when the last element goes", ["tests/test_tree.py"])
M("M_C04_c", ["C04"], "cotengra/core.py",
  "                    tree._write += new_size - old_size",
  "                    tree._write += new_size - old_size if new_size > 1 else 0",
  "remove_ind skips the write delta when a node shrinks to a scalar", ["tests/test_tree.py"])
M("M_C04_d", ["C04"], "cotengra/core.py",
  "        for node in tree.children:\n            tree.get_involved(node)\n",
  "",
  "revert of the involved-before-remove_ind fix (F2)", ["tests/test_tree.py"])
M("M_C04_e", ["C04"], "cotengra/core.py",
  "        tree.multiplicity //= si.size",
  "        tree.multiplicity //= (si.size if si.project is None else tree.size_dict[ind])",
  "restore_ind of a projected index divides the multiplicity by the full size", ["tests/test_tree.py"])


# ------------------- per-property files: tools/mutations_cXX.py -------------------
# each defines  register(M)  and calls M(id, props, file, old, new, note, tests=[...], harmless=False)
def _load_extra():
    import glob
    import importlib.util
    import os

    here = os.path.dirname(os.path.abspath(__file__))
    for path in sorted(glob.glob(os.path.join(here, "mutations_c*.py"))):
        spec = importlib.util.spec_from_file_location(os.path.basename(path)[:-3], path)
        mod = importlib.util.module_from_spec(spec)
        spec.loader.exec_module(mod)
        mod.register(M)


_load_extra()
