"""Deliberate edits of cotengra/pathfinders/path_basic.py that validate check C09
(the 'optimal' pathfinder really is optimal).  Run with  tools/break_it.py --prop C09."""

F = "cotengra/pathfinders/path_basic.py"
T = ["tests/test_paths_basic.py"]


def register(M):
    # the per-subgraph memo keeps the first candidate that passes the sieve instead of the best
    M("M_C09_a", ["C09"], F,
      "                        if (current is None) or (new_score < current[1]):\n",
      "                        if current is None:\n",
      "DP memo keeps the first instead of the cheapest way to build a subgraph", T)

    # 'size' multiplies the contracted indices too (the objective silently becomes 'max')
    M("M_C09_b", ["C09"], F,
      "        else:\n            size *= sizes[ix]\n\n    return max((iscore, jscore, size))",
      "        size *= sizes[ix]\n\n    return max((iscore, jscore, size))",
      "compute_con_cost_size multiplies contracted indices as well (only minimize='size' affected)", T)

    # only visible with hyper indices: the merged count of a shared index is taken to be 2
    M("M_C09_c", ["C09"], F,
      "                                new_legs.append((iix, ic + jc))\n",
      "                                new_legs.append((iix, 2))\n",
      "shared index count assumed to be 2: an index on >=3 tensors is never recognised as contracted", T)

    # only visible with search_outer=True: the flag is ignored, outer products never searched
    M("M_C09_d", ["C09"], F,
      "                        skip_because_outer = not search_outer\n",
      "                        skip_because_outer = True\n",
      "search_outer=True ignored: outer products are never considered", T)

    # the sieve abandons the remaining candidate pairs of this bipartition size
    M("M_C09_e", ["C09"], F,
      "                            # sieve contraction\n                            continue\n",
      "                            # sieve contraction\n                            break\n",
      "sieve 'continue' -> 'break': one too-expensive candidate drops all later candidate pairs", T)

    # output / hyper-output only: 'write' treats an index as contracted once two tensors carrying it met
    M("M_C09_f", ["C09"], F,
      "            # contracted index, remove\n            del temp_legs[i]\n        else:\n            # kept index, contributes to new size\n            size *= sizes[ix]\n\n    return iscore + jscore + size",
      "            # contracted index, remove\n            del temp_legs[i]\n        elif ix_count < 2:\n            # kept index, contributes to new size\n            size *= sizes[ix]\n\n    return iscore + jscore + size",
      "compute_con_cost_write omits indices that survive with count >= 2 (output index on 2+ tensors, hyper index)", T)

    # 'limit' combines the two figures with the wrong operator
    M("M_C09_g", ["C09"], F,
      "    new_local_score = max(cost, factor * size)\n",
      "    new_local_score = max(cost, factor + size)\n",
      "compute_con_cost_limit uses factor + size", T)

    # only visible with search_outer=False: outer products are searched although excluded, so the
    # returned cost falls BELOW the minimum over the outer-product-free trees (kind below_restricted_min)
    M("M_C09_j", ["C09"], F,
      "                        if skip_because_outer:\n",
      "                        if skip_because_outer and nterms < 4:\n",
      "search_outer=False not honoured from 4 tensors on: result is not the min over outer-product-free trees", T)

    # HARMLESS: sieve comparison '>' -> '>='.  Every objective is monotone along a tree (a node's
    # score >= its children's scores), so every subtree of an optimal tree scores <= optimum, and
    # the loop only terminates in a round whose cap exceeds some complete tree's score >= optimum:
    # all pieces of an optimal tree pass that round's sieve either way.
    M("M_C09_h", ["C09"], F,
      "                        if new_score > cost_cap:\n",
      "                        if new_score >= cost_cap:\n",
      "harmless: sieve '>' -> '>=' (provably cannot lose the optimum; only the number of rounds changes)", T, harmless=True)

    # HARMLESS: the sieve widens faster
    M("M_C09_i", ["C09"], F,
      "            cost_cap *= 2\n",
      "            cost_cap *= 3\n",
      "harmless: sieve widened by 3x per round instead of 2x", T, harmless=True)
