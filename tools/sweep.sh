#!/bin/bash
# tools/sweep.sh "C01 C02 ..." "0 1 2 3" [quick|thorough]   -> one line per (check, seed)
cd "$(dirname "$0")/.."
tier=${3:-quick}
for c in $1; do for s in $2; do
  out=$(VERIF_SEED=$s timeout 7200 ./check $c $tier 2>&1); rc=$?
  echo "$c seed=$s tier=$tier exit=$rc $(echo "$out" | grep -c '^VIOLATION') violations; $(echo "$out" | grep -E '^(VIOLATION|INCONCLUSIVE|  kind=)' | head -4 | cut -c1-300 | tr '\n' ' ')"
done; done
