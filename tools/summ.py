#!/venv/bin/python
"""Run one shard in-process style via worker and summarise violations: tools/summ.py C02 quick 0 [shard]"""
import json, os, subprocess, sys, collections, re
pid, tier, seed = sys.argv[1], sys.argv[2], sys.argv[3]
shards = sys.argv[4:] or ["0"]
env = dict(os.environ)
repo = env.get("VF_REPO", "/repo")
env.update(PYTHONPATH=f"{repo}:/verif:/verif/.deps", PYTHONHASHSEED="0", COTENGRA_VERIF="1", OMP_NUM_THREADS="1", OPENBLAS_NUM_THREADS="1")
c = collections.Counter(); ex = {}
for sh in shards:
    out = f"/verif/.build/summ-{pid}-{sh}.json"
    p = subprocess.run(["/venv/bin/python", "-m", "vf.worker", pid, tier, seed, sh, "16", out], cwd="/verif", env=env, capture_output=True, text=True)
    if p.returncode: print(p.stderr[-3000:]); continue
    d = json.load(open(out)); os.remove(out)
    print("shard", sh, "evals", d["evaluations"], "nviol", d["n_violations"], "monitors", d["monitors"], "inconcl", d["inconclusive"][:3], "wall", round(d["wall_s"]))
    for v in d["violations"]:
        w = v["witness"]
        ops = [o["op"] for o in w.get("ops", [])] if isinstance(w, dict) else []
        msg = re.sub(r"\d+", "#", v["message"].split(": ", 1)[-1])[:110]
        k = (v["kind"], tuple(ops[-3:]), msg)
        c[k] += 1; ex.setdefault(k, v)
for k, n in c.most_common(60):
    print(n, k)
json.dump([ex[k] for k in ex], open("/verif/.build/summ-last.json", "w"), indent=1)
